#!/usr/bin/env python3
"""Rewrite the block between <!-- RULES:BEGIN --> and <!-- RULES:END --> in DESIGN.md from evidence/*.json (rules as implemented)."""
import json, glob, os, re
V = os.path.dirname(os.path.dirname(os.path.abspath(__file__)))
out = []
for f in sorted(glob.glob(os.path.join(V, "evidence", "C*.json"))):
    e = json.load(open(f))
    cov = e["coverage"]
    out.append(f"**{e['property_id']}** — {cov.get('obligations', '?')} obligations over {len(cov.get('functions_analysed', []))} functions\n")
    for r in cov.get("rules", []):
        txt = (r.get("text") or "").replace("|", "/")
        out.append(f"* `{r['id']}` ({r.get('kind','')}; ≥{r.get('expect_min')} sites, {r.get('matched')} today) {txt}")
    out.append("")
tab = "\n".join(out) + "\n"
p = os.path.join(V, "DESIGN.md")
t = open(p).read()
t2 = re.sub(r"<!-- RULES:BEGIN -->.*<!-- RULES:END -->", "<!-- RULES:BEGIN -->\n" + tab + "<!-- RULES:END -->", t, flags=re.S)
open(p, "w").write(t2)
print("rules appendix written")
