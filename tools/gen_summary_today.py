#!/usr/bin/env python3
"""Rewrites the 'today' column of the Summary table in DESIGN.md from known_findings.json."""
import json, re, os
V = os.path.dirname(os.path.dirname(os.path.abspath(__file__)))
k = json.load(open(os.path.join(V, 'known_findings.json')))
fixes, known = {}, {}
for f in k['fixed']:
    fixes.setdefault(f['property'], [])
    if f['commit'] not in fixes[f['property']]:
        fixes[f['property']].append(f['commit'])
for f in k['findings']:
    known[f['property']] = known.get(f['property'], 0) + 1
p = os.path.join(V, 'DESIGN.md')
lines = open(p).read().split('\n')
start = lines.index('### Summary')
for i in range(start, len(lines)):
    m = re.match(r'^\| (C\d\d) \|', lines[i])
    if not m:
        if lines[i].startswith('---'):
            break
        continue
    pid = m.group(1)
    cells = lines[i].split(' | ')
    parts = []
    if pid in fixes:
        n = len(fixes[pid])
        parts.append('holds after %d fix%s (%s)' % (n, '' if n == 1 else 'es', ', '.join(fixes[pid])))
    if pid in known:
        n = known[pid]
        parts.append('%d known finding%s' % (n, '' if n == 1 else 's'))
    today = '; '.join(parts) if parts else 'holds'
    cells[-1] = today + ' |'
    lines[i] = ' | '.join(cells)
open(p, 'w').write('\n'.join(lines))
print('summary table updated')
