#!/opt/veriftools/pyvenv/bin/python
import json, jsonschema, sys, glob
m = json.load(open('/verif/MANIFEST.json'))
jsonschema.validate(m, json.load(open('/root/.vp/MANIFEST.schema.json')))
es = json.load(open('/root/.vp/EVIDENCE.schema.json'))
n = 0
for c in m['checks']:
    try:
        e = json.load(open('/verif/' + c['evidence_file']))
        jsonschema.validate(e, es)
        assert e['property_id'] == c['property_id']
        n += 1
    except FileNotFoundError:
        print('missing evidence', c['property_id'])
print('manifest ok; checks', len(m['checks']), 'evidence valid', n, 'not_applicable', len(m.get('not_applicable', [])))
