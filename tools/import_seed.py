#!/usr/bin/env python3
"""import_seed.py <ID> <X> <detected_by_rule> [also_detected_under,...]  -- copy a confirmed seeded change into /verif/seeded/<ID><X>/"""
import json, os, shutil, sys, re
ID, X, rule = sys.argv[1], sys.argv[2], sys.argv[3]
also = sys.argv[4].split(',') if len(sys.argv) > 4 and sys.argv[4] else []
expected = sys.argv[5] != 'no' if len(sys.argv) > 5 else True
src = f'/tmp/seed/out/{ID}'
dst = f'/verif/seeded/{ID}{X}'
os.makedirs(dst, exist_ok=True)
shutil.copy(f'{src}/{X}.patch.diff', f'{dst}/patch.diff')
if os.path.isdir(f'{dst}/demo'):
    shutil.rmtree(f'{dst}/demo')
shutil.copytree(f'{src}/{X}.demo', f'{dst}/demo')
m = json.load(open(f'{src}/{X}.meta.json'))
log = open(f'{src}/{X}.confirm.log').read()
res = re.findall(r'RESULT .*', log)
meta = {
    "property": ID,
    "summary": m.get("summary"),
    "why_breaks": m.get("why_breaks"),
    "needs_to_manifest": m.get("needs_to_manifest"),
    "demo_cmd": m.get("demo_cmd"),
    "what_i_ran": {
        "script": "tools/confirm_seed.sh (scratch worktree of /repo: demo on clean tree, demo with patch, existing tests of touched packages + ./chain ./vm with patch; failed packages retried once)",
        "result": res[-1] if res else "",
        "meaning": "clean=0: demo passes without the change; patched=1: demo fails with the change; tests=0: existing tests pass with the change",
    },
    "expected_detect": expected,
    "detected_by": [rule] if rule else [],
    "also_detected_under": also,
    "origin": "independent sub-agent given only the property text and a scratch worktree",
}
json.dump(meta, open(f'{dst}/meta.json', 'w'), indent=1)
print(dst, res[-1] if res else 'NO RESULT')
