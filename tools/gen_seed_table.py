#!/usr/bin/env python3
"""Rewrite the block between <!-- SEEDS:BEGIN --> and <!-- SEEDS:END --> in DESIGN.md from seeded/*/meta.json."""
import json, glob, os, re
V = os.path.dirname(os.path.dirname(os.path.abspath(__file__)))
rows = []
for d in sorted(glob.glob(os.path.join(V, "seeded", "*"))):
    mp = os.path.join(d, "meta.json")
    if not os.path.exists(mp):
        continue
    m = json.load(open(mp))
    s = (m.get("summary") or "").replace("|", "/").replace("\n", " ")
    if len(s) > 230:
        s = s[:227] + "..."
    need = (m.get("needs_to_manifest") or "").replace("|", "/").replace("\n", " ")
    if len(need) > 160:
        need = need[:157] + "..."
    det = ", ".join(m.get("detected_by") or []) or ("MISSED" if m.get("expected_detect") is False else "?")
    also = ", ".join(m.get("also_detected_under") or [])
    rows.append(f"| {os.path.basename(d)} | {s} | {need} | {det} | {also} |")
tab = "| seed | change | needs to manifest | caught by rule | also fails |\n|---|---|---|---|---|\n" + "\n".join(rows) + "\n"
p = os.path.join(V, "DESIGN.md")
t = open(p).read()
t2 = re.sub(r"<!-- SEEDS:BEGIN -->.*<!-- SEEDS:END -->", "<!-- SEEDS:BEGIN -->\n" + tab + "<!-- SEEDS:END -->", t, flags=re.S)
open(p, "w").write(t2)
print(len(rows), "seeds")
