#!/usr/bin/env python3
"""import_benign.py <ID> <X> [also,...]  -- copy a confirmed behaviour-preserving change from /tmp/seed/out/<ID>b/ into /verif/benign/<ID><x>/"""
import json, os, shutil, sys, re
ID, X = sys.argv[1], sys.argv[2]
also = sys.argv[3].split(',') if len(sys.argv) > 3 and sys.argv[3] else []
src = f'/tmp/seed/out/{ID}b'
dst = f'/verif/benign/{ID}{X.lower()}'
os.makedirs(dst, exist_ok=True)
shutil.copy(f'{src}/{X}.patch.diff', f'{dst}/patch.diff')
m = json.load(open(f'{src}/{X}.meta.json'))
log = open(f'{src}/{X}.confirm.log').read()
res = re.findall(r'RESULT .*', log)
meta = {"property": ID, "kind": "benign", "summary": m.get("summary"), "why_equivalent": m.get("why_equivalent"),
        "what_i_ran": {"script": "tools/confirm_benign.sh (scratch worktree: applies, builds, existing tests of touched packages + ./chain ./vm pass)", "result": res[-1] if res else ""},
        "also_detected_under": also,
        "origin": "independent sub-agent given only the property text and a scratch worktree, asked for behaviour-preserving refactors"}
json.dump(meta, open(f'{dst}/meta.json', 'w'), indent=1)
print(dst, res[-1] if res else 'NO RESULT')
