#!/bin/bash
# usage: confirm_seed.sh <outdir> <X>   e.g. /tmp/seed/out/C10 A
# Confirms a seeded change in a scratch worktree: demo passes on clean tree, fails with patch; touched packages' existing tests pass with patch.
set -u
unset GOFLAGS GOTOOLCHAIN GOSUMDB GOWORK
export GOPROXY=off
OUT=$1; X=$2
ID=$(basename $OUT)
WT=/tmp/confirm/$ID$X
LOG=$OUT/$X.confirm.log
mkdir -p /tmp/confirm
git -C /repo worktree remove --force $WT >/dev/null 2>&1
git -C /repo worktree add --detach $WT HEAD >/dev/null 2>&1 || { echo "worktree failed" > $LOG; exit 2; }
cd $WT
DEMO_CMD=$(python3 -c "import json;print(json.load(open('$OUT/$X.meta.json'))['demo_cmd'])")
DEMO_CMD=${DEMO_CMD//<repo>/$WT}
DEMO_CMD=${DEMO_CMD//\/tmp\/seed\/$ID/$WT}
{
echo "== demo_cmd: $DEMO_CMD"
cp -r $OUT/$X.demo/. $WT/
echo "== clean tree demo (expect PASS)"
bash -c "$DEMO_CMD" > $OUT/$X.demo_clean.out 2>&1; RC_CLEAN=$?
tail -5 $OUT/$X.demo_clean.out; echo "rc_clean=$RC_CLEAN"
git apply $OUT/$X.patch.diff || echo "APPLY FAILED"
echo "== patched demo (expect FAIL)"
bash -c "$DEMO_CMD" > $OUT/$X.demo_patched.out 2>&1; RC_PATCH=$?
tail -15 $OUT/$X.demo_patched.out; echo "rc_patched=$RC_PATCH"
# remove demo files, run existing tests of touched packages + a core set
( cd $OUT/$X.demo && find . -type f ) | while read f; do rm -f "$WT/$f"; done
PKGS=$(git diff --name-only | grep -v '^examples/' | xargs -n1 dirname | sort -u | sed 's|^|./|' | tr '\n' ' ')
echo "== existing tests with patch: $PKGS ./chain/ ./vm/"
GOPROXY=off go build ./... > $OUT/$X.build.out 2>&1; echo "build_rc=$?"
GOPROXY=off go test -count=1 -timeout 20m -skip TestGetChunkSignature_PersistAttestedBlocks $PKGS ./chain/ ./vm/ > $OUT/$X.tests_patched.out 2>&1; RC_TESTS=$?
if [ $RC_TESTS -ne 0 ]; then echo "retrying failed packages once (suite is flaky under load)"; FAILED=$(grep -E "^FAIL\s+github" $OUT/$X.tests_patched.out | awk '{print $2}' | tr '\n' ' '); GOPROXY=off go test -count=1 -p 1 -timeout 20m -skip TestGetChunkSignature_PersistAttestedBlocks $FAILED > $OUT/$X.tests_patched_retry.out 2>&1; RC_TESTS=$?; grep -E "^(ok|FAIL|---)" $OUT/$X.tests_patched_retry.out | head; fi
grep -E "^(ok|FAIL|---|panic)" $OUT/$X.tests_patched.out | head -20; echo "rc_tests=$RC_TESTS"
if git diff --name-only | grep -q '^examples/morpheusvm'; then
  ( cd examples/morpheusvm && GOPROXY=off go test -count=1 ./actions/... ./storage/... ./tests/integration/... ) > $OUT/$X.tests_morpheus.out 2>&1; echo "rc_morpheus=$?"
fi
echo "RESULT id=$ID$X clean=$RC_CLEAN patched=$RC_PATCH tests=$RC_TESTS"
} > $LOG 2>&1
cd /
git -C /repo worktree remove --force $WT >/dev/null 2>&1
tail -1 $LOG
