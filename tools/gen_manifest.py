#!/usr/bin/env python3
"""Generate /verif/MANIFEST.json from the checker's registered properties (hsdkcheck -props)."""
import json, subprocess, sys, os
V = os.path.dirname(os.path.dirname(os.path.abspath(__file__)))
props = json.loads(subprocess.check_output([os.path.join(V, "bin/hsdkcheck"), "-props"]))
pending = json.load(open(os.path.join(V, "tools/pending.json")))
claimed = {p["id"]: p for p in props if p["id"] not in pending}
allids = [json.loads(l)["id"] for l in open(os.path.join(V, "properties.jsonl"))]
na_reasons = json.load(open(os.path.join(V, "tools/not_applicable.json")))
checks = []
for pid in allids:
    if pid not in claimed:
        continue
    p = claimed[pid]
    checks.append({
        "property_id": pid,
        "quick_cmd": f"./bin/hsdkcheck -property {pid} -tier quick",
        "thorough_cmd": f"./bin/hsdkcheck -property {pid} -tier thorough",
        "evidence_file": f"evidence/{pid}.json",
        "replay_cmd_template": "./bin/hsdkcheck -replay {path}",
        "engine": "hsdkcheck",
        "level_claimed": {
            "category": "other",
            "text": "Static analysis of the type-checked SSA form of the current /repo tree: " + p["explain"],
            "design_ref": f"DESIGN.md section 5, {pid}",
        },
        "level_note": "Trusted base: go/types, x/tools go/ssa v0.29.0, the rule tables in /verif/checker/props_*.go (read against the source and frozen), third-party libraries as specified. Decides structural necessary conditions of the property for all paths/inputs/schedules; does not decide the behavioural statement as a whole. Assumptions: " + "; ".join(p.get("assume") or ["none"]),
        "technique": p.get("technique") or "custom SSA/CFG static analysis (dominance, must-pass-through, guard-predicate tables, locksets, def-use) over go/packages+go/ssa",
    })
na = [{"property_id": pid, "reason": pending.get(pid) or na_reasons.get(pid, "no structural clause of this property could be armed soundly with the static analyses in reach (see DESIGN.md section 5.0)")} for pid in allids if pid not in claimed]
m = {
    "version": 1,
    "setup_cmd": "./setup.sh",
    "hooks": {
        "guard": "verif",
        "enable": "none needed: static analysis reads the source; no instrumentation exists",
        "baseline_off_cmd": "cd /repo && GOPROXY=off go test -json -vet=off -count=1 -timeout 25m ./...",
        "source_commits": json.load(open(os.path.join(V, "tools/source_commits.json"))),
        "add_only": True,
    },
    "engines": [{"name": "hsdkcheck", "path": "checker/", "serves_properties": [c["property_id"] for c in checks],
                 "kind_free_text": "repository-specific static analyser (Go, go/packages + go/ssa): CFG path rules, guard-predicate extraction, locksets, def-use, sibling agreement; mutant kill matrix via in-memory overlays in the thorough tier"}],
    "checks": checks,
    "not_applicable": na,
    "notes": "All claims are at level 'other': each check decides structural necessary conditions of its property from the source on every run (see DESIGN.md). Exit 0 = all obligations discharged or listed in known_findings.json (printed as KNOWN-FINDING); exit 1 = VIOLATION; exit 2 = tree cannot be analysed or the thorough self-test (mutants) failed.",
}
json.dump(m, open(os.path.join(V, "MANIFEST.json"), "w"), indent=1)
print("claimed", len(checks), "not_applicable", len(na))
