#!/usr/bin/env python3
"""record_fix.py <prop> <rule> <commit> <short line> <what> [repro-src repro-dst]
Adds a 'fixed' entry (suppresses nothing) to known_findings.json and the commit to tools/source_commits.json."""
import json, sys, shutil, os
prop, rule, commit, line, what = sys.argv[1:6]
V = os.path.dirname(os.path.dirname(os.path.abspath(__file__)))
if len(sys.argv) >= 8:
    dst = os.path.join(V, 'findings/repro', sys.argv[7])
    os.makedirs(os.path.dirname(dst), exist_ok=True)
    shutil.copy(sys.argv[6], dst)
    what += ' (reproduced: findings/repro/%s)' % sys.argv[7]
kp = os.path.join(V, 'known_findings.json')
k = json.load(open(kp))
k['fixed'].append({'property': prop, 'rule': rule, 'commit': commit, 'what': what})
k['fixed_lines'].append('fixed: property=%s %s %s' % (prop, commit, line))
json.dump(k, open(kp, 'w'), indent=1); open(kp, 'a').write('\n')
sp = os.path.join(V, 'tools/source_commits.json')
s = json.load(open(sp))
if commit not in s:
    s.append(commit)
json.dump(s, open(sp, 'w'), indent=1); open(sp, 'a').write('\n')
print('recorded', prop, commit)
