#!/bin/bash
# usage: confirm_benign.sh <outdir> <X>   e.g. /tmp/seed/out/C04b A
# Confirms a behaviour-preserving change in a scratch worktree: it applies, builds, and the existing tests of the touched packages (+ ./chain ./vm) pass.
set -u
unset GOFLAGS GOTOOLCHAIN GOSUMDB GOWORK
export GOPROXY=off
OUT=$1; X=$2
ID=$(basename $OUT)
WT=/tmp/confirm/$ID$X
LOG=$OUT/$X.confirm.log
mkdir -p /tmp/confirm
git -C /repo worktree remove --force $WT >/dev/null 2>&1
git -C /repo worktree add --detach $WT HEAD >/dev/null 2>&1 || { echo "worktree failed" > $LOG; exit 2; }
cd $WT
{
git apply $OUT/$X.patch.diff || echo "APPLY FAILED"
PKGS=$(git diff --name-only | grep -v '^examples/' | xargs -n1 dirname | sort -u | sed 's|^|./|' | tr '\n' ' ')
echo "== existing tests with patch: $PKGS ./chain/ ./vm/"
GOPROXY=off go build ./... > $OUT/$X.build.out 2>&1; echo "build_rc=$?"
GOPROXY=off go test -count=1 -timeout 20m -skip TestGetChunkSignature_PersistAttestedBlocks $PKGS ./chain/ ./vm/ > $OUT/$X.tests_patched.out 2>&1; RC_TESTS=$?
if [ $RC_TESTS -ne 0 ]; then echo "retrying failed packages once"; FAILED=$(grep -E "^FAIL\s+github" $OUT/$X.tests_patched.out | awk '{print $2}' | tr '\n' ' '); GOPROXY=off go test -count=1 -p 1 -timeout 20m -skip TestGetChunkSignature_PersistAttestedBlocks $FAILED > $OUT/$X.tests_patched_retry.out 2>&1; RC_TESTS=$?; fi
grep -E "^(ok|FAIL|---|panic)" $OUT/$X.tests_patched.out | head -20; echo "rc_tests=$RC_TESTS"
if git diff --name-only | grep -q '^examples/morpheusvm'; then
  ( cd examples/morpheusvm && GOPROXY=off go test -count=1 ./actions/... ./storage/... ./tests/integration/... ) > $OUT/$X.tests_morpheus.out 2>&1; echo "rc_morpheus=$?"
fi
echo "RESULT id=$ID$X benign tests=$RC_TESTS"
} > $LOG 2>&1
cd /
git -C /repo worktree remove --force $WT >/dev/null 2>&1
tail -1 $LOG
