#!/bin/sh
# Build the checker and warm the Go build cache (export data for /repo's dependencies). Offline.
set -e
cd "$(dirname "$0")"
unset GOWORK
( cd checker && GOFLAGS=-mod=mod GOPROXY=off GOSUMDB=off GOTOOLCHAIN=local go build -o ../bin/hsdkcheck . )
# warm: type-check data for both modules (the default toolchain switches to the go version /repo/go.mod asks for)
( cd /repo && GOPROXY=off GOFLAGS= go build ./... ) || true
( cd /repo/examples/morpheusvm && GOPROXY=off GOFLAGS= go build ./actions ./storage ./vm ./consts ./genesis ) || true
./bin/hsdkcheck -props >/dev/null
echo setup ok
