package main

import (
	"fmt"
	"go/token"
	"go/types"
	"strings"

	"golang.org/x/tools/go/ssa"
)

const (
	pkgMStorage = M + "/storage"
	pkgMActions = M + "/actions"
	pkgPubsub   = H + "/pubsub"
)

func init() {
	register(&propDef{
		ID: "C06",
		Explain: "Decides, for the reference token VM, that a transfer subtracts and adds the same amount (subtract first, its error returns before the credit), that balance " +
			"arithmetic is checked and exactly the computed value is written (or the key removed at zero), that the balance handler only delegates to those functions, " +
			"that balance keys are written only inside the storage package, that the transfer declares both balance keys with the permissions it needs, and (imported " +
			"from C04) that delete / re-create / delete of a key inside one transaction is faithful. Not decided: the conservation identity itself as an arithmetic fact.",
		Run: c06,
	})
	register(&propDef{
		ID: "C27",
		Explain: "Decides that genesis initialisation adds every allocation through the balance handler after a checked running total (overflow returns before the credit), " +
			"that between view creation and commit the only writers are InitializeState and the three metadata inserts with height 0, timestamp 0 and a fee state whose " +
			"unit price is set from the rules' minimum for every dimension, that the genesis block's root is the merkle root of the committed changes with height 0 " +
			"and an empty parent, and that balance handlers add with a checked addition. Not decided: equality of the full state with the configuration (merkledb semantics).",
		Run: c27,
	})
	register(&propDef{
		ID: "C32",
		Explain: "Decides that the size accounted per pending message covers the batch encoder's per-element overhead (tag and length prefix, computed with the encoder's " +
			"own size function), that Send rejects closed buffers and oversize messages and flushes before a message that would exceed the limit, appends in arrival " +
			"order, that flushing encodes all pending messages once and resets size and list together, and the lock discipline including the timer callback. Not " +
			"decided: byte counts of concrete batches.",
		Run: c32,
	})
	register(&propDef{
		ID: "C34",
		Explain: "Decides that balance formatting and parsing involve no floating-point value (a 53-bit mantissa cannot carry all 64-bit balances or all 9-digit fractions) " +
			"and that both use the same Decimals constant. Not decided: the digit arithmetic itself.",
		Run: c34,
	})
	register(&propDef{
		ID: "C39",
		Explain: "Decides the shape of the prefix-conflict check: true is returned only where bytes.HasPrefix returned true, both argument orders are tested for every pair " +
			"(current element against every earlier one), every element joins the earlier set on every non-returning path, and the list is the three metadata prefixes " +
			"followed by all VM prefixes. Assumes the pairwise mechanism named in the anchors.",
		Run: c39,
	})
}

// ----------------------------------------------------------------------------- C06

func c06(r *Run) {
	w := r.MW()
	r.rule("C06.R1", "K5/K1", "Transfer.Execute: SubBalance(actor, v) then AddBalance(To, v) with the same v; a failed debit returns before the credit", 3)
	r.rule("C06.R2", "K8", "AddBalance/SubBalance use checked arithmetic and write exactly the computed value; the balance handler delegates", 7)
	r.rule("C06.R3", "K3", "balance keys reach Mutable.Insert/Remove only inside package storage", 2)
	r.rule("C06.R5", "K10", "Transfer.StateKeys declares actor Read|Write and recipient All", 1)
	// imported: faithful delete/re-create/delete inside one view (root module)
	defer r.importRules(c04, "C04.R3", "C04.R1")
	// the fee charged to a failed transaction survives the rollback of its actions (supply shrinks by exactly the reported fee)
	defer r.importRules(c03, "C03.R3")

	ex := r.fn(w, "C06.R1", "(*"+pkgMActions+".Transfer).Execute")
	if ex != nil {
		sb := callsNamed(ex, pkgMStorage+".SubBalance")
		ab := callsNamed(ex, pkgMStorage+".AddBalance")
		if len(sb) == 1 && len(ab) == 1 {
			r.successGuards(w, "C06.R1", "Transfer.Execute:debit-succeeds-before-credit", sb[0], ab[0])
			sa, aa := argTerms(sb[0]), argTerms(ab[0])
			r.check(len(sa) == 4 && len(aa) == 4 && sa[3] == "p0.Value" && aa[3] == "p0.Value" && sa[2] == "p5" && aa[2] == "p0.To" && sa[1] == "p3" && aa[1] == "p3", "C06.R1", "Transfer.Execute:same-amount-actor->To", r.at(w, ab[0]), strings.Join(sa, ",")+" / "+strings.Join(aa, ","), "debit and credit do not use (actor, t.Value) and (t.To, t.Value) on the same state: "+strings.Join(sa, ",")+" / "+strings.Join(aa, ","))
			r.failureLeadsToErrorReturn(w, "C06.R1", "Transfer.Execute:credit-error-returned", ab[0])
		} else {
			r.missing("C06.R1", "Transfer.Execute:debit/credit", "SubBalance / AddBalance not called exactly once")
		}
	}
	addf := r.fn(w, "C06.R2", pkgMStorage+".AddBalance")
	if addf != nil {
		sm := callsNamed(addf, "github.com/ava-labs/avalanchego/utils/math.Add")
		set := callsNamed(addf, pkgMStorage+".setBalance")
		okk := len(sm) == 1 && len(set) == 1 && len(uncheckedArith(addf)) == 0
		if okk {
			a := argTerms(sm[0])
			okk = a[0] == "storage.getBalance(p0, p1, p2)#1" && a[1] == "p3" && onlyViaSuccess(sm[0], set[0], true) && term(set[0].Common().Args[3]) == term(sm[0].(*ssa.Call))+"#0" && term(set[0].Common().Args[2]) == "storage.getBalance(p0, p1, p2)#0"
		}
		r.check(okk, "C06.R2", "AddBalance:checked-add-written", w.rel(addf.Pos()), "", "AddBalance does not write math.Add(current, amount) under the address's key after a successful checked add")
		for _, c := range callsNamed(addf, pkgMStorage+".getBalance") {
			r.failureLeadsToErrorReturn(w, "C06.R2", "AddBalance:read-error-returned", c)
		}
	}
	subf := r.fn(w, "C06.R2", pkgMStorage+".SubBalance")
	if subf != nil {
		sm := callsNamed(subf, "github.com/ava-labs/avalanchego/utils/math.Sub")
		set := callsNamed(subf, pkgMStorage+".setBalance")
		rem := findEffects(subf, "call (state.Mutable).Remove(p1, p0, storage.getBalance(p0, p1, p2)#0)")
		okk := len(sm) == 1 && len(set) == 1 && len(rem) == 1
		if okk {
			a := argTerms(sm[0])
			res := term(sm[0].(*ssa.Call)) + "#0"
			okk = a[0] == "storage.getBalance(p0, p1, p2)#1" && a[1] == "p3" && onlyViaSuccess(sm[0], set[0], true) && onlyViaSuccess(sm[0], rem[0].Ins, true) &&
				term(set[0].Common().Args[3]) == res && hasStr(rem[0].Conds(), "0 == "+res) && hasStr(condStrings(ctrlConds(set[0].Block())), "0 != "+res)
			// the only unchecked subtraction allowed is inside the error message (amount-bal under the failing edge)
			for _, u := range uncheckedArith(subf) {
				if !strings.Contains(u, "(p3 - storage.getBalance(p0, p1, p2)#1)") {
					okk = false
				}
			}
		}
		r.check(okk, "C06.R2", "SubBalance:checked-sub-written-or-removed", w.rel(subf.Pos()), "", "SubBalance does not write math.Sub(current, amount) (removing the key at zero) after a successful checked subtraction")
		// missing balance is an error
		miss := false
		for _, o := range returnOutcomes(subf) {
			if hasStr(o.Sentinels, "storage.ErrInvalidBalance") && hasStr(o.Conds, "!storage.getBalance(p0, p1, p2)#2") {
				miss = true
			}
		}
		r.check(miss, "C06.R2", "SubBalance:missing-balance-rejected", w.rel(subf.Pos()), "", "SubBalance does not reject an absent balance")
	}
	sbf := r.fn(w, "C06.R2", pkgMStorage+".setBalance")
	if sbf != nil {
		o := returnOutcomes(sbf)
		r.check(len(o) == 1 && term(o[0].Vals[0]) == "(state.Mutable).Insert(p1, p0, p2, (encoding/binary.bigEndian).AppendUint64(encoding/binary.BigEndian, nil, p3))", "C06.R2", "setBalance:writes-given-value", w.rel(sbf.Pos()), "", "setBalance does not insert the big-endian encoding of the given balance under the given key")
	}
	ib := r.fn(w, "C06.R2", pkgMStorage+".innerGetBalance")
	if ib != nil {
		var nf, val bool
		for _, o := range returnOutcomes(ib) {
			if hasStr(o.Sentinels, "nil") && hasStr(o.Conds, "errors.Is(p1, ago/database.ErrNotFound)") && term(o.Vals[0]) == "0" && term(o.Vals[1]) == "false" {
				nf = true
			}
			if hasStr(o.Sentinels, "nil") && term(o.Vals[0]) == "ago/database.ParseUInt64(p0)#0" && term(o.Vals[1]) == "true" {
				val = true
			}
		}
		r.check(nf && val, "C06.R2", "innerGetBalance:absent=0,present=parsed", w.rel(ib.Pos()), "", "balance reading does not map not-found to (0, absent) and a stored value to its parsed amount")
	}
	for _, m := range []struct{ meth, callee string }{{"Deduct", "SubBalance"}, {"AddBalance", "AddBalance"}} {
		f := r.fn(w, "C06.R2", "(*"+pkgMStorage+".BalanceHandler)."+m.meth)
		if f == nil {
			continue
		}
		cs := callsNamed(f, pkgMStorage+"."+m.callee)
		okk := len(cs) == 1
		if okk {
			a := argTerms(cs[0])
			okk = a[0] == "p1" && a[1] == "p3" && a[2] == "p2" && a[3] == "p4"
			o := returnOutcomes(f)
			okk = okk && len(o) == 1 && o[0].ErrTerm == term(cs[0].(*ssa.Call))+"#1"
		}
		r.check(okk, "C06.R2", "BalanceHandler."+m.meth+":delegates", w.rel(f.Pos()), "", "BalanceHandler."+m.meth+" does not delegate (address, state, amount) to storage."+m.callee+" and return its error")
	}
	// R3: who writes balance keys
	nW := 0
	for _, fn := range w.srcFns {
		if fn.Pkg == nil {
			continue
		}
		for _, c := range callsNamed(fn, "("+H+"/state.Mutable).Insert", "("+H+"/state.Mutable).Remove") {
			nW++
			inStorage := fn.Pkg.Pkg.Path() == pkgMStorage
			r.check(inStorage, "C06.R3", "state-write:"+short(fnName(fn)), r.at(w, c), "inside package storage", "a state write in the reference VM outside package storage: "+short(fnName(fn)))
		}
	}
	if nW < 2 {
		r.missing("C06.R3", "state-writes", "expected the storage package's Insert and Remove sites")
	}
	// R5
	sk := r.fn(w, "C06.R5", "(*"+pkgMActions+".Transfer).StateKeys")
	if sk != nil {
		var ups []string
		for _, e := range findEffects(sk, "mapupdate *[string(storage.BalanceKey(*))] = *") {
			ups = append(ups, e.Str[strings.Index(e.Str, "BalanceKey("):])
		}
		j := strings.Join(ups, " ; ")
		r.check(len(ups) == 2 && strings.Contains(j, "BalanceKey(p1))] = 5") && strings.Contains(j, "BalanceKey(p0.To))] = 7"), "C06.R5", "Transfer.StateKeys", w.rel(sk.Pos()), j, "Transfer.StateKeys does not declare the actor's key Read|Write and the recipient's key All: "+j)
	}
}

// ----------------------------------------------------------------------------- C27

func c27(r *Run) {
	w := r.W
	r.rule("C27.R1", "K1/K8", "InitializeState: checked running total; overflow returns before the credit; every allocation credited", 3)
	r.rule("C27.R2", "K5/K1", "NewGenesisCommit: only InitializeState and three metadata inserts write; constants; root of committed changes", 8)
	r.rule("C27.R3", "K12", "balance handlers add with a checked addition onto the current value", 1)
	is := r.fn(w, "C27.R1", "(*"+H+"/genesis.DefaultGenesis).InitializeState")
	if is != nil {
		sm := callsNamed(is, "github.com/ava-labs/avalanchego/utils/math.Add")
		ab := callsNamed(is, "("+pkgChain+".BalanceHandler).AddBalance")
		if len(sm) == 1 && len(ab) == 1 {
			r.successGuards(w, "C27.R1", "InitializeState:overflow-before-credit", sm[0], ab[0])
			a := argTerms(sm[0])
			r.check(glob("phi(*)", a[0]) && strings.Contains(a[0], term(sm[0].(*ssa.Call))+"#0") || strings.Contains(a[0], "↺") , "C27.R1", "InitializeState:running-total", r.at(w, sm[0]), a[0], "the overflow check does not accumulate a running total")
			aa := argTerms(ab[0])
			r.check(len(aa) == 5 && glob("p0.CustomAllocation[*].Address", aa[2]) && glob("p0.CustomAllocation[*].Balance", aa[4]) && aa[3] == "p3" && glob("p0.CustomAllocation[*].Balance", a[1]), "C27.R1", "InitializeState:credits-each-allocation", r.at(w, ab[0]), "", "not every allocation's (address, balance) is credited on the passed state")
			h := findIndexLoopOver(is, "p0.CustomAllocation")
			r.check(h != nil && loopExitsOnlyByReturnErr(h), "C27.R1", "InitializeState:every-allocation", w.rel(is.Pos()), "", "the allocation loop is missing or skips allocations")
			r.failureLeadsToErrorReturn(w, "C27.R1", "InitializeState:credit-error-returned", ab[0])
			// nothing else is written
			n := 0
			for _, e := range effectsOf(is) {
				if strings.HasPrefix(e.Str, "call (state.Mutable).") {
					n++
				}
			}
			r.check(n == 0, "C27.R1", "InitializeState:no-other-writes", w.rel(is.Pos()), "", "InitializeState writes state other than through the balance handler")
		} else {
			r.missing("C27.R1", "InitializeState:shape", "checked add / AddBalance not found")
		}
	}
	gc := r.fn(w, "C27.R2", pkgChain+".NewGenesisCommit")
	if gc != nil {
		app0 := "(encoding/binary.bigEndian).AppendUint64(encoding/binary.BigEndian, nil, 0)"
		ins := map[string]string{}
		nIns := 0
		for _, c := range callsNamed(gc, nmView+"Insert") {
			nIns++
			a := argTerms(c)
			for _, k := range []string{"HeightKey", "TimestampKey", "FeeKey"} {
				if strings.HasPrefix(a[2], "chain."+k+"(") {
					ins[k] = a[3]
				}
			}
			r.failureLeadsToErrorReturn(w, "C27.R2", "NewGenesisCommit:insert-error-returned", c)
		}
		r.check(nIns == 3 && ins["HeightKey"] == app0, "C27.R2", "NewGenesisCommit:height=0", w.rel(gc.Pos()), ins["HeightKey"], "genesis state height is not 0: "+ins["HeightKey"])
		r.check(ins["TimestampKey"] == app0, "C27.R2", "NewGenesisCommit:timestamp=0", w.rel(gc.Pos()), ins["TimestampKey"], "genesis state timestamp is not 0: "+ins["TimestampKey"])
		r.check(ins["FeeKey"] == "(*internal/fees.Manager).Bytes(internal/fees.NewManager(nil))", "C27.R2", "NewGenesisCommit:fee=fresh-manager", w.rel(gc.Pos()), ins["FeeKey"], "genesis fee state is not the bytes of a fresh fee manager: "+ins["FeeKey"])
		sp := findEffects(gc, "call (*internal/fees.Manager).SetUnitPrice(internal/fees.NewManager(nil), phi(*), (chain.Rules).GetMinUnitPrice((chain.RuleFactory).GetRules(p5, 0))[phi(*)])")
		h := findLoopBound(gc, "5")
		okk := len(sp) == 1 && h != nil && loopExitsOnlyAtHeader(h)
		if okk {
			// set before the fee bytes are written
			for _, c := range callsNamed(gc, nmView+"Insert") {
				if strings.HasPrefix(argTerms(c)[2], "chain.FeeKey(") {
					okk = !reachableFrom(c, sp[0].Ins)
				}
			}
		}
		r.check(okk, "C27.R2", "NewGenesisCommit:unit-prices=min-prices", w.rel(gc.Pos()), "", "genesis unit prices are not set from the rules' minimum price for every dimension before the fee state is written")
		// order: InitializeState -> inserts -> Commit -> NewView(ChangedKeys) -> GetMerkleRoot -> NewStatelessBlock(root)
		isc := callsNamed(gc, "("+pkgChain+".Genesis).InitializeState")
		cm := callsNamed(gc, nmCommit)
		nb := callsNamed(gc, pkgChain+".NewStatelessBlock")
		if len(isc) == 1 && len(cm) == 1 && len(nb) == 1 {
			r.successGuards(w, "C27.R2", "NewGenesisCommit:Commit-after-InitializeState", isc[0], cm[0])
			a := argTerms(nb[0])
			okk := len(a) == 6 && a[0] == "ago/ids.Empty" && a[2] == "0" && a[3] == "nil" && glob("(ago/x/merkledb.MerkleRootGetter).GetMerkleRoot((ago/x/merkledb.*).NewView(p1, p0, *)#0, p0)#0", a[4])
			r.check(okk, "C27.R2", "NewGenesisCommit:block=(empty parent, height 0, no txs, root of genesis view)", r.at(w, nb[0]), "", "the genesis block is not (empty parent, height 0, no transactions, merkle root of the view built from the committed changes): "+strings.Join(a, " | "))
			nv := findEffects(gc, "call (ago/x/merkledb.Trie).NewView(p1, p0, *)")
			r.check(len(nv) == 1 && dominatesI(cm[0], nv[0].Ins), "C27.R2", "NewGenesisCommit:view-after-Commit", w.rel(gc.Pos()), "", "the genesis view is not created from the changes after Commit")
			// the view's changes are the tstate's changed keys
			r.requireEffect(w, "C27.R2", "NewGenesisCommit:view-of-changed-keys", gc, "store alloc(complit).MapOps = (*state/tstate.TState).ChangedKeys(state/tstate.New(0))")
			// the tstate view is unscoped but reads the given view
			r.requireEffect(w, "C27.R2", "NewGenesisCommit:writes-through-one-view", gc, "call (*state/tstate.TState).NewView(state/tstate.New(0), state.CompletePermissions, p1, 0)")
		} else {
			r.missing("C27.R2", "NewGenesisCommit:sequence", "InitializeState / Commit / NewStatelessBlock not found")
		}
	}
	ab := r.fn(w, "C27.R3", "(*"+H+"/state/balance.PrefixBalanceHandler).AddBalance")
	if ab != nil {
		sm := callsNamed(ab, "github.com/ava-labs/avalanchego/utils/math.Add")
		okk := len(sm) == 1 && len(uncheckedArith(ab)) == 0
		if okk {
			a := argTerms(sm[0])
			okk = strings.Contains(a[0], "ago/database.ParseUInt64(") && a[1] == "p4"
			for _, e := range findEffects(ab, "call (state.Mutable).Insert(*") {
				okk = okk && onlyViaSuccess(sm[0], e.Ins, true) && strings.Contains(e.Str, "ago/database.PackUInt64("+term(sm[0].(*ssa.Call))+"#0)")
			}
		}
		r.check(okk, "C27.R3", "PrefixBalanceHandler.AddBalance:checked", w.rel(ab.Pos()), "", "PrefixBalanceHandler.AddBalance does not write the checked sum of the current balance and the amount")
	}
}

// ----------------------------------------------------------------------------- C39

func c39(r *Run) {
	w := r.W
	r.rule("C39.R1", "K2/K7", "HasConflictingPrefixes: pairwise symmetric HasPrefix test over metadata + VM prefixes", 5)
	f := r.fn(w, "C39.R1", H+"/state/metadata.HasConflictingPrefixes")
	if f == nil {
		return
	}
	hp := callsNamed(f, "bytes.HasPrefix")
	var trueRets, falseRets []retOutcome
	for _, o := range returnOutcomes(f) {
		if len(o.Vals) == 1 && term(o.Vals[0]) == "true" {
			trueRets = append(trueRets, o)
		}
		if len(o.Vals) == 1 && term(o.Vals[0]) == "false" {
			falseRets = append(falseRets, o)
		}
	}
	// both orders
	var ab, ba bool
	var pT, vT string
	for _, c := range hp {
		a := argTerms(c)
		if pT == "" {
			pT, vT = a[0], a[1]
			ab = true
		} else if a[0] == vT && a[1] == pT {
			ba = true
		}
	}
	r.check(len(hp) == 2 && ab && ba && pT != vT, "C39.R1", "both-argument-orders", w.rel(f.Pos()), pT+" / "+vT, "the two prefix tests are not HasPrefix(p, vp) and HasPrefix(vp, p) for the same pair")
	// true only after a HasPrefix returned true
	okk := len(trueRets) == 1
	if okk {
		cs := trueRets[0].Conds
		_ = cs
		// no path to 'return true' that avoids a true HasPrefix edge
		blocked := map[edgeKey]bool{}
		for _, c := range hp {
			if cv, ok := c.(*ssa.Call); ok {
				pos, _ := truthEdges(cv)
				for k := range pos {
					blocked[k] = true
				}
			}
		}
		found, _ := pathExists(entry(f), isInstr(trueRets[0].Ret), nil, blocked)
		okk = !found && len(blocked) >= 2
	}
	r.check(okk, "C39.R1", "true-only-on-HasPrefix", w.rel(f.Pos()), "", "true can be returned without bytes.HasPrefix having returned true")
	// a true HasPrefix always returns true
	okk = len(hp) == 2 && len(trueRets) == 1
	if okk {
		for _, c := range hp {
			if cv, ok := c.(*ssa.Call); ok {
				pos, _ := truthEdges(cv)
				for k := range pos {
					tgt := f.Blocks[k[0]].Succs[k[1]]
					for _, o := range falseRets {
						if blockReachable(tgt, o.Ret.Block()) || tgt == o.Ret.Block() {
							okk = false
						}
					}
					// or continue the loops
					for _, h := range loopHeaders(f) {
						if tgt == h || blockReachable(tgt, h) {
							okk = false
						}
					}
				}
			}
		}
	}
	r.check(okk, "C39.R1", "HasPrefix-true=>conflict", w.rel(f.Pos()), "", "a pair for which HasPrefix is true does not lead to 'return true'")
	// every element is compared with every earlier one and then appended: inner loop over verifiedPrefixes without early exit except return true
	inner := findIndexLoopOver(f, "phi(*)")
	outer := findIndexLoopOver(f, "builtin.append([(chain.MetadataManager).HeightPrefix(p0), (chain.MetadataManager).FeePrefix(p0), (chain.MetadataManager).TimestampPrefix(p0)], p1)")
	r.check(outer != nil, "C39.R1", "list=metadata-prefixes+vm-prefixes", w.rel(f.Pos()), "", "the checked list is not [height, fee, timestamp prefixes] followed by all VM prefixes")
	app := findEffects(f, "call builtin.append(phi(*), [builtin.append(*)[*]])")
	okk = inner != nil && outer != nil && len(app) == 1
	if okk {
		// the append happens on every path that leaves the inner loop normally (its exhausted exit)
		isOuter := func(i ssa.Instruction) bool { return i.Block() == outer && instrIndex(i) == 0 }
		if found, _ := pathExists(point{inner.Succs[1], 0}, isOuter, isInstr(app[0].Ins), nil); found || len(inner.Succs) != 2 {
			okk = false
		}
		// no element is skipped: from the start of the outer body every way back to the outer header passes the
		// append, and every way to the append passes the comparison loop
		isInner := func(i ssa.Instruction) bool { return i.Block() == inner && instrIndex(i) == 0 }
		if len(outer.Succs) == 2 {
			body := point{outer.Succs[0], 0}
			if found, _ := pathExists(body, isOuter, isInstr(app[0].Ins), nil); found {
				okk = false
			}
			if found, _ := pathExists(body, isInstr(app[0].Ins), isInner, nil); found {
				okk = false
			}
		}
		// and the false return needs the outer loop exhausted
		for _, o := range falseRets {
			f2, _ := pathExists(entry(f), isInstr(o.Ret), nil, map[edgeKey]bool{{outer.Index, 1}: true})
			if f2 {
				okk = false
			}
		}
	}
	r.check(okk, "C39.R1", "every-element-joins-earlier-set;false-only-after-all", w.rel(f.Pos()), "", "not every prefix is added to the already-checked set, or false can be returned before all prefixes were checked")
}

// ----------------------------------------------------------------------------- C34

func c34(r *Run) {
	w := r.W
	r.rule("C34.R1", "K14", "no floating-point value in FormatBalance/ParseBalance (and their helpers)", 2)
	r.rule("C34.R2", "K12", "both use consts.Decimals", 1)
	var fns []*ssa.Function
	for _, n := range []string{"FormatBalance", "ParseBalance"} {
		if f := r.fn(w, "C34.R1", H+"/utils."+n); f != nil {
			fns = append(fns, f)
			// helpers in the same package
			for _, c := range callsTo(f, func(s string) bool { return strings.HasPrefix(s, H+"/utils.") }) {
				if g := w.Fn(calleeName(c)); g != nil {
					fns = append(fns, g)
				}
			}
		}
	}
	isFloat := func(t types.Type) bool {
		b, ok := t.Underlying().(*types.Basic)
		return ok && b.Info()&types.IsFloat != 0
	}
	for _, f := range fns {
		r.saw(f)
		bad := ""
		eachInstr(f, func(i ssa.Instruction) {
			if v, ok := i.(ssa.Value); ok && isFloat(v.Type()) {
				bad = term(v) + " at " + w.rel(i.Pos())
			}
			if ci, ok := i.(ssa.CallInstruction); ok {
				for _, a := range ci.Common().Args {
					if isFloat(a.Type()) {
						bad = "float argument to " + short(calleeName(ci)) + " at " + w.rel(i.Pos())
					}
				}
				if n := calleeName(ci); n == "strconv.ParseFloat" || n == "strconv.FormatFloat" || strings.HasPrefix(n, "math.Pow") {
					bad = short(n) + " at " + w.rel(i.Pos())
				}
			}
		})
		r.check(bad == "", "C34.R1", short(fnName(f))+":no-float", w.rel(f.Pos()), "integer arithmetic only", "balance conversion goes through floating point ("+bad+"): a 53-bit mantissa cannot represent all 64-bit balances or all 9-digit fractions, so values do not round-trip")
	}
	// R3: the parser rejects exactly the amounts above 2^64-1: the success value whole*unit+frac is either computed with
	// checked helpers or returned only under whole <= (MaxUint64 - frac)/unit (a coarser test rejects in-range balances
	// near the top of the range, a weaker one wraps)
	r.rule("C34.R3", "K6", "ParseBalance combines whole*unit+frac under the exact range test (or with checked arithmetic)", 1)
	if pb := w.Fn(H + "/utils.ParseBalance"); pb != nil {
		okk, why := false, "no success return of the form whole*unit + frac found"
		for _, o := range returnOutcomes(pb) {
			if !o.isPotentialSuccess() || len(o.Vals) != 2 {
				continue
			}
			v := strip(o.Vals[0])
			if c, isCall := v.(*ssa.Call); isCall && strings.Contains(calleeName(c), "utils/math.") {
				okk = true // checked helpers (their own error paths carry the range failure)
				continue
			}
			add, isAdd := v.(*ssa.BinOp)
			if !isAdd || add.Op != token.ADD {
				okk, why = false, "the parsed amount is not whole*unit + frac: "+term(v)
				break
			}
			mul, frac := add.X, add.Y
			if m, ok := strip(mul).(*ssa.BinOp); !ok || m.Op != token.MUL {
				mul, frac = add.Y, add.X
			}
			m, ok := strip(mul).(*ssa.BinOp)
			if !ok || m.Op != token.MUL {
				okk, why = false, "the parsed amount is not whole*unit + frac: "+term(v)
				break
			}
			const max = "18446744073709551615"
			want := []string{
				term(m.X) + " <= ((" + max + " - " + term(frac) + ") / " + term(m.Y) + ")",
				term(m.Y) + " <= ((" + max + " - " + term(frac) + ") / " + term(m.X) + ")",
			}
			if hasStr(o.Conds, want[0]) || hasStr(o.Conds, want[1]) {
				okk = true
			} else {
				okk, why = false, "whole*unit + frac is returned without the exact range test "+want[0]+" (conditions: "+strings.Join(o.Conds, " ; ")+")"
				break
			}
		}
		r.check(okk, "C34.R3", "ParseBalance:exact-range-test", w.rel(pb.Pos()), "whole <= (MaxUint64 - frac)/unit on the success path", why)
	}
	// Decimals: the constant 9 appears as loop bound / width in both directions (via the shared helper or directly)
	dec := "9"
	if p := w.Pkgs[H+"/consts"]; p != nil {
		if c, ok := p.Types.Scope().Lookup("Decimals").(*types.Const); ok {
			dec = c.Val().ExactString()
		}
	}
	uses := 0
	for _, f := range fns {
		found := false
		eachInstr(f, func(i ssa.Instruction) {
			for _, op := range i.Operands(nil) {
				if c, ok := (*op).(*ssa.Const); ok && c.Value != nil && c.Value.ExactString() == dec {
					found = true
				}
			}
		})
		if found {
			uses++
		}
	}
	r.check(uses >= 2, "C34.R2", "Decimals-used-by-both", "", fmt.Sprintf("%d functions use Decimals=%s", uses, dec), "formatting and parsing do not both depend on consts.Decimals")
}

// ----------------------------------------------------------------------------- C32

func c32(r *Run) {
	w := r.W
	MB := "(*" + pkgPubsub + ".MessageBuffer)."
	r.rule("C32.R1", "K12", "the per-message size accounted covers the batch encoder's per-element overhead", 1)
	r.rule("C32.R2", "K6", "Send guards: closed, too large, flush before exceeding; arrival order", 5)
	r.rule("C32.R3", "K7/K4", "clearPending encodes all pending once and resets size and list together; fields under l", 3)
	send := r.fn(w, "C32.R1", MB+"Send")
	if send != nil {
		// the amount added to pendingSize
		st := findEffects(send, "store p0.pendingSize = (* + p0.pendingSize)")
		if len(st) == 0 {
			st = findEffects(send, "store p0.pendingSize = (p0.pendingSize + *)")
		}
		if len(st) != 1 {
			r.missing("C32.R1", "Send:accounting", "pendingSize accumulation not found")
		} else {
			amt := strings.TrimSuffix(strings.TrimPrefix(st[0].Str, "store p0.pendingSize = ("), ")")
			amt = strings.TrimSuffix(strings.TrimPrefix(amt, "p0.pendingSize + "), " + p0.pendingSize")
			onlyLen := amt == "builtin.len(p1)"
			covers := false
			// direct use of the encoder's size function, or a helper that uses it
			if strings.Contains(amt, "canoto.SizeBytes(p1)") {
				covers = true
			}
			for _, c := range callsTo(send, func(n string) bool { return strings.HasPrefix(n, pkgPubsub+".") }) {
				if g := w.Fn(calleeName(c)); g != nil && strings.Contains(amt, short(calleeName(c))+"(p1)") {
					r.saw(g)
					o := returnOutcomes(g)
					if len(o) == 1 && strings.Contains(term(o[0].Vals[0]), "canoto.SizeBytes(p0)") && strings.Contains(term(o[0].Vals[0]), " + 1)") || len(o) == 1 && strings.Contains(term(o[0].Vals[0]), "(1 + ") && strings.Contains(term(o[0].Vals[0]), "canoto.SizeBytes(p0)") {
						covers = true
					}
				}
			}
			r.check(covers && !onlyLen, "C32.R1", "Send:accounted-size-covers-encoding-overhead", r.at(w, st[0].Ins), amt,
				"Send accounts only len(msg) per pending message ("+amt+"), but the encoded batch also carries a tag and a length prefix per message: batches of many small messages exceed the configured maximum size")
			// the same amount is used for both limit tests
			r.guardTable(w, "C32.R2", send, []guardRow{
				{Preds: []string{"p0.closed"}, Sentinel: "pubsub.ErrClosed", Global: true, Label: "closed"},
				{Preds: []string{"p0.maxSize < " + amt}, Sentinel: "pubsub.ErrMessageTooLarge", Global: true, Label: "too-large"},
			})
			fl := findEffects(send, "call (*pubsub.MessageBuffer).clearPending(p0)")
			ap := findEffects(send, "store p0.pending = builtin.append(p0.pending, [p1])")
			okk := len(fl) == 1 && len(ap) == 1
			if okk {
				okk = hasStr(fl[0].Conds(), "p0.maxSize < ("+amt+" + p0.pendingSize)") || hasStr(fl[0].Conds(), "p0.maxSize < (p0.pendingSize + "+amt+")")
				// flush precedes the append when taken
				okk = okk && !reachableFrom(ap[0].Ins, fl[0].Ins) && reachableFrom(fl[0].Ins, ap[0].Ins)
			}
			r.check(okk, "C32.R2", "Send:flush-before-exceeding", w.rel(send.Pos()), "", "Send does not flush the pending batch before appending a message that would exceed the limit")
			r.check(len(ap) == 1 && dominatesI(st[0].Ins, ap[0].Ins) || len(ap) == 1, "C32.R2", "Send:append-in-arrival-order", w.rel(send.Pos()), "", "Send does not append the message at the end of the pending list")
			tm := findEffects(send, "call (*ago/utils/timer.Timer).SetTimeoutIn(p0.pendingTimer, p0.timeout)")
			// tested after the append (one pending message) or before it (none pending yet): the position of the load of
			// the pending list relative to the append decides which constant is right
			armed := false
			if len(tm) == 1 && len(ap) == 1 {
				for _, cc := range ctrlConds(tm[0].Ins.Block()) {
					bo, ok := cc.If.Cond.(*ssa.BinOp)
					if !ok || bo.Op != token.EQL || cc.Succ != 0 {
						continue
					}
					for _, pair := range [][2]ssa.Value{{bo.X, bo.Y}, {bo.Y, bo.X}} {
						k, isConst := pair[1].(*ssa.Const)
						lc, isCall := pair[0].(*ssa.Call)
						if !isConst || !isCall || calleeName(lc) != "builtin.len" || k.Value == nil {
							continue
						}
						ld, isLoad := lc.Call.Args[0].(*ssa.UnOp)
						if !isLoad || term(ld) != "p0.pending" {
							continue
						}
						after := reachableFrom(ap[0].Ins, ld)
						switch k.Value.ExactString() {
						case "1":
							armed = after
						case "0":
							// ... and after the size-triggered flush, which empties the list and cancels the timer
							armed = !after && reachableFrom(ld, ap[0].Ins) && len(fl) == 1 && !reachableFrom(ld, fl[0].Ins)
						}
					}
				}
			}
			r.check(armed, "C32.R2", "Send:timer-armed-on-first-pending", w.rel(send.Pos()), "", "the flush timer is not armed when the first message becomes pending")
		}
	}
	cp := r.fn(w, "C32.R3", MB+"clearPending")
	if cp != nil {
		enc := findEffects(cp, "call pubsub.CreateBatchMessage(p0.pending)")
		rs := findEffects(cp, "store p0.pendingSize = 0")
		rl := findEffects(cp, "store p0.pending = *")
		okk := len(enc) == 1 && len(rs) == 1 && len(rl) == 1 && len(enc[0].Conds()) == 0 && sameConds(rs[0], rl[0]) && dominatesI(enc[0].Ins, rs[0].Ins)
		if okk {
			okp, _ := mustPass(entry(cp), isReturn, isInstr(rs[0].Ins))
			okk = okp
		}
		r.check(okk, "C32.R3", "clearPending:encode-all-once+reset-together", w.rel(cp.Pos()), "", "clearPending does not encode all pending messages once and reset size and list together on every path")
	}
	cb := r.fn(w, "C32.R3", pkgPubsub+".CreateBatchMessage")
	if cb != nil {
		o := returnOutcomes(cb)
		r.check(len(o) == 1 && strings.Contains(term(o[0].Vals[0]), "MarshalCanoto(") && len(findEffects(cb, "store *.Messages = p0")) == 1, "C32.R3", "CreateBatchMessage:encodes-given-messages", w.rel(cb.Pos()), "", "CreateBatchMessage does not encode exactly the given messages")
	}
	r.guardedBy(w, lockSpec{Rule: "C32.R3", Owner: pkgPubsub + ".MessageBuffer", Fields: []string{"pending", "pendingSize", "closed"}, Mutex: "l", Pkgs: []string{pkgPubsub},
		HeldByCaller: map[string]int{MB + "clearPending": 2}, MinSites: 8})

	// R4: Timer.Stop waits for the timer goroutine; the buffer's timer handler takes the buffer lock, so
	// stopping the timer on a path on which that lock may still be held can wait forever (close at any point).
	r.rule("C32.R4", "K4", "the flush timer, whose handler takes the buffer lock, is never stopped (Stop waits for the handler) on a path that may hold that lock", 2)
	nm := r.fn(w, "C32.R4", pkgPubsub+".NewMessageBuffer")
	handlerLocks := ""
	if nm != nil {
		for _, c := range callsTo(nm, func(n string) bool { return strings.HasSuffix(n, "utils/timer.NewTimer") }) {
			lit := literalArg(c, 0)
			if lit == nil {
				r.missing("C32.R4", "NewMessageBuffer:timer-handler", "the timer handler is not a function literal; cannot tell which locks it takes")
				continue
			}
			for _, f := range withNested(lit) {
				eachInstr(f, func(ins ssa.Instruction) {
					if ci, ok := ins.(ssa.CallInstruction); ok {
						if k, op := lockOp(ci); op == "lock" || op == "rlock" {
							if i := strings.LastIndex(k, "."); i >= 0 {
								handlerLocks = k[i+1:]
							}
						}
					}
				})
			}
			r.ok("C32.R4", "NewMessageBuffer:timer-handler-lock", r.at(w, c), "the flush handler takes the buffer mutex '"+handlerLocks+"'")
		}
	}
	stops := 0
	for _, fn := range w.FnsInPkg(pkgPubsub) {
		for _, st := range callsTo(fn, func(n string) bool { return strings.HasSuffix(n, "utils/timer.Timer).Stop") }) {
			stops++
			r.saw(fn)
			held := ""
			if handlerLocks != "" {
				eachInstr(fn, func(ins ssa.Instruction) {
					ci, ok := ins.(ssa.CallInstruction)
					if !ok {
						return
					}
					if _, isDefer := ins.(*ssa.Defer); isDefer {
						return
					}
					k, op := lockOp(ci)
					if (op != "lock" && op != "rlock") || !strings.HasSuffix(k, "."+handlerLocks) {
						return
					}
					unlock := func(i ssa.Instruction) bool {
						if _, isDefer := i.(*ssa.Defer); isDefer {
							return false
						}
						c2, ok := i.(ssa.CallInstruction)
						if !ok {
							return false
						}
						k2, op2 := lockOp(c2)
						return op2 == "unlock" && k2 == k
					}
					if ok, _ := pathExists(after(ins), isInstr(st), unlock, nil); ok {
						held = k
					}
				})
				if _, isHeld := map[string]bool{MB + "clearPending": true}[fnName(fn)]; isHeld {
					held = "p0." + handlerLocks + " (held by every caller)"
				}
			}
			r.check(held == "", "C32.R4", short(fnName(fn))+":timer-stopped-without-the-buffer-lock", r.at(w, st), "no path from an acquisition of the handler's lock reaches Timer.Stop without releasing it",
				"Timer.Stop is reached with "+held+" held; Stop waits for the timer goroutine, whose handler blocks on that same lock when the flush timer has just fired, so "+short(fnName(fn))+" never returns and the queue is never closed")
		}
	}
	if stops == 0 {
		r.missing("C32.R4", "Timer.Stop", "no call to Timer.Stop found in the pubsub package")
	}
}
