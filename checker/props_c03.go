package main

import (
	"fmt"
	"strings"

	"golang.org/x/tools/go/ssa"
)

func init() {
	register(&propDef{
		ID: "C03",
		Explain: "Decides the order and data flow that make a transaction atomic and fee-paying, for every path of Transaction.Execute: " +
			"the fee deduction (amount = feeManager.Fee(t.Units(...)), the same values recorded in the Result) succeeds before any action runs; " +
			"the checkpoint (OpIndex) is taken after the deduction and once, outside the action loop; every exit taken after an action error " +
			"passes through Rollback(checkpoint) and returns Success=false with the collected outputs and a nil error; the success exit " +
			"passes no Rollback; every production call of Execute is preceded by a successful PreExecute on the same transaction, fee manager " +
			"and view. Not decided: that Rollback restores exactly the checkpoint state (C04) and that BalanceHandler implementations of a VM charge exactly the amount.",
		Assume: []string{"BalanceHandler.Deduct is implemented by the VM (the reference VM's is checked under C06)", "chain/chaintest is a test-support package and is excluded from the call-site rule"},
		Run:    c03,
	})
}

const (
	nmTxExecute    = "(*" + H + "/chain.Transaction).Execute"
	nmTxPreExecute = "(*" + H + "/chain.Transaction).PreExecute"
	nmDeduct       = "(" + H + "/chain.BalanceHandler).Deduct"
	nmCanDeduct    = "(" + H + "/chain.BalanceHandler).CanDeduct"
	nmActionExec   = "(" + H + "/chain.Action).Execute"
	nmUnits        = "(*" + H + "/chain.Transaction).Units"
	nmFee          = "(*" + H + "/internal/fees.Manager).Fee"
	nmOpIndex      = "(*" + H + "/state/tstate.TStateView).OpIndex"
	nmRollback     = "(*" + H + "/state/tstate.TStateView).Rollback"
)

func c03(r *Run) {
	w := r.W
	// "none of the action effects are applied" rests on Rollback undoing the log newest-first (decided under C04)
	defer r.importRules(c04, "C04.R1", "C04.R2")
	// the fee is Fee(Units(tx, rules of the block)): Units keeps no memo across rule sets
	defer r.importRules(c07, "C07.R3")
	ex := r.fn(w, "C03.R1", nmTxExecute)
	r.rule("C03.R1", "K1", "Deduct succeeds before any Action.Execute; a failed Deduct returns an error", 3)
	r.rule("C03.R2", "K5", "amount deducted = Fee(Units(...)); Result.Units/Fee are those same values", 5)
	r.rule("C03.R3", "K1/K2", "checkpoint after Deduct and outside the loop; every action-error exit rolls back to it; success exit has no rollback; failure result shape", 7)
	r.rule("C03.R4", "K1", "every production call of Transaction.Execute is dominated by a successful PreExecute on the same receiver, fee manager and view", 2)
	if ex != nil {
		deducts := callsNamed(ex, nmDeduct)
		acts := callsNamed(ex, nmActionExec)
		if len(deducts) != 1 || len(acts) == 0 {
			r.missing("C03.R1", "Execute:Deduct/Action.Execute", fmt.Sprintf("expected one BalanceHandler.Deduct and at least one Action.Execute call in Transaction.Execute, found %d and %d", len(deducts), len(acts)))
		} else {
			d := deducts[0]
			for _, a := range acts {
				r.successGuards(w, "C03.R1", "Execute:Deduct-before-Action.Execute", d, a)
			}
			r.failureLeadsToErrorReturn(w, "C03.R1", "Execute:Deduct-failure-returns-error", d)
			// nothing else touches state before the deduction: no Action.Execute / Rollback / view mutation reachable before it
			r.check(len(callsNamed(ex, nmDeduct, nmCanDeduct)) == 1, "C03.R1", "Execute:single-deduction", r.at(w, d), "one deduction", "more than one balance deduction in Execute")

			// R2
			units := callsNamed(ex, nmUnits)
			fees := callsNamed(ex, nmFee)
			if len(units) == 1 && len(fees) == 1 {
				u0 := resultN(units[0], 0)
				f0 := resultN(fees[0], 0)
				okU := len(u0) == 1 && len(fees[0].Common().Args) == 2 && sameValue(fees[0].Common().Args[1], u0[0]) && term(fees[0].Common().Args[0]) == "p2"
				r.check(okU, "C03.R2", "Execute:Fee(units)", r.at(w, fees[0]), "fee computed by the passed fee manager from t.Units", "feeManager.Fee is not applied to the result of t.Units by the passed fee manager")
				args := callArgs(d)
				okD := len(f0) == 1 && len(args) == 5 && sameValue(args[4], f0[0]) && term(args[2]) == "(chain.Auth).Sponsor(p0.Auth)" && term(args[3]) == "p5" && term(args[0]) == "p3"
				r.check(okD, "C03.R2", "Execute:Deduct(sponsor, view, fee)", r.at(w, d), "deducts exactly the computed fee from the sponsor on the passed view", "Deduct is not called with (sponsor, the passed view, the computed fee): "+strings.Join(argTerms(d), " | "))
				r.check(term(units[0].Common().Args[0]) == "p0" && term(units[0].Common().Args[1]) == "p3" && term(units[0].Common().Args[2]) == "p4", "C03.R2", "Execute:Units(bh, r)", r.at(w, units[0]), "units of this transaction under the passed rules", "t.Units is not called on the receiver with the passed balance handler and rules")
				// Result literals: Units and Fee fields
				nU, nF := 0, 0
				okV := true
				eachInstr(ex, func(i ssa.Instruction) {
					st, ok := i.(*ssa.Store)
					if !ok {
						return
					}
					fa, ok := st.Addr.(*ssa.FieldAddr)
					if !ok {
						return
					}
					o, f := fieldOwner(fa.X, fa.Field)
					if o != H+"/chain.Result" {
						return
					}
					switch f {
					case "Units":
						nU++
						if len(u0) != 1 || !sameValue(st.Val, u0[0]) {
							okV = false
						}
					case "Fee":
						nF++
						if len(f0) != 1 || !sameValue(st.Val, f0[0]) {
							okV = false
						}
					}
				})
				r.check(okV && nU == 2 && nF == 2, "C03.R2", "Execute:Result.Units/Fee", w.rel(ex.Pos()), "both results record the charged units and fee", fmt.Sprintf("Result.Units/Result.Fee are not the charged values in both result literals (Units stores %d, Fee stores %d)", nU, nF))
				for _, c := range []ssa.CallInstruction{units[0], fees[0]} {
					r.failureLeadsToErrorReturn(w, "C03.R2", "Execute:"+short(calleeName(c))+"-failure-returns-error", c)
				}
			} else {
				r.missing("C03.R2", "Execute:Units/Fee", "expected exactly one t.Units and one feeManager.Fee call in Execute")
			}

			// R3
			ops := callsNamed(ex, nmOpIndex)
			rbs := callsNamed(ex, nmRollback)
			if len(ops) == 1 && len(rbs) >= 1 {
				op := ops[0]
				r.successGuards(w, "C03.R3", "Execute:checkpoint-after-Deduct", d, op)
				h, _ := innermostLoop(op.Block())
				r.check(h == nil, "C03.R3", "Execute:checkpoint-outside-loop", r.at(w, op), "checkpoint taken once, outside the action loop", "the checkpoint (OpIndex) is taken inside a loop: a failing later action would keep earlier actions' effects")
				for _, a := range acts {
					r.requireOrder(w, "C03.R3", "Execute:checkpoint-before-actions", op, a)
				}
				for _, rb := range rbs {
					args := rb.Common().Args
					r.check(len(args) == 3 && sameValue(args[2], op.(*ssa.Call)) && term(args[0]) == "p5", "C03.R3", "Execute:Rollback(checkpoint)", r.at(w, rb), "rolls the passed view back to the checkpoint", "Rollback is not called on the passed view with the checkpoint value")
				}
				isRB := func(i ssa.Instruction) bool {
					for _, rb := range rbs {
						if i == rb {
							return true
						}
					}
					return false
				}
				for _, a := range acts {
					// every exit after an action error passes a rollback
					tested := false
					okk := true
					for _, ev := range errResults(a) {
						pos, _ := truthEdges(ev)
						for k := range pos {
							tested = true
							tgt := ex.Blocks[k[0]].Succs[k[1]]
							if found, _ := pathExists(point{tgt, 0}, isReturn, isRB, nil); found {
								okk = false
							}
							// and does not continue with further actions
							if found, _ := pathExists(point{tgt, 0}, isInstr(a), isRB, nil); found {
								okk = false
							}
						}
					}
					r.check(tested && okk, "C03.R3", "Execute:action-error-rolls-back", r.at(w, a), "every exit after an action error passes Rollback", "an exit (or the next action) is reachable after an action error without Rollback(checkpoint)")
				}
				// failure and success result shapes
				for _, o := range returnOutcomes(ex) {
					if !hasStr(o.Sentinels, "nil") {
						continue
					}
					afterRB := false
					for _, rb := range rbs {
						if reachableFrom(rb, o.Ret) {
							afterRB = true
						}
					}
					succ := resultSuccessStore(ex, o.Ret)
					if afterRB {
						okk := succ == "false" && len(o.Vals) == 2 && strings.HasPrefix(term(o.Vals[0]), "alloc(")
						// outputs collected so far
						outT := resultFieldStore(o.Ret, "Outputs")
						okk = okk && strings.HasPrefix(outT, "phi([], builtin.append(")
						r.check(okk, "C03.R3", "Execute:failure-result", w.rel(instrPos(o.Ret)), "Success=false, outputs so far, nil error", "the result returned after a rollback is not {Success:false, Outputs: collected outputs} with a nil error (Success="+succ+", Outputs="+outT+")")
					} else {
						okk := succ == "true"
						for _, rb := range rbs {
							if dominatesI(rb, o.Ret) {
								okk = false
							}
						}
						r.check(okk, "C03.R3", "Execute:success-result-no-rollback", w.rel(instrPos(o.Ret)), "Success=true on the path without rollback", "the nil-error return that is not preceded by a rollback does not report Success=true")
					}
				}
			} else {
				r.missing("C03.R3", "Execute:checkpoint/rollback", fmt.Sprintf("expected one OpIndex and at least one Rollback call in Execute, found %d and %d", len(ops), len(rbs)))
			}
		}
	}

	// R4: call sites of Transaction.Execute
	for _, fn := range w.srcFns {
		if fn.Pkg == nil || strings.HasSuffix(fn.Pkg.Pkg.Path(), "/chain/chaintest") {
			continue
		}
		for _, ec := range callsNamed(fn, nmTxExecute) {
			r.saw(fn)
			pcs := callsNamed(fn, nmTxPreExecute)
			okk := false
			for _, pc := range pcs {
				pa, ea := pc.Common().Args, ec.Common().Args
				if len(pa) == 7 && len(ea) == 7 && sameValue(pa[0], ea[0]) && sameValue(pa[2], ea[2]) && sameValue(pa[3], ea[3]) && sameValue(pa[4], ea[4]) && sameValue(pa[5], ea[5]) && sameValue(pa[6], ea[6]) && onlyViaSuccess(pc, ec, true) {
					okk = true
				}
			}
			r.check(okk, "C03.R4", short(fnName(fn))+":PreExecute-before-Execute", r.at(w, ec), "dominated by a successful PreExecute with the same tx, fee manager, balance handler, rules, view and timestamp", "tx.Execute is not dominated by a successful tx.PreExecute with the same transaction, fee manager, balance handler, rules, view and timestamp")
		}
	}
}

// resultSuccessStore finds, in the block of ret (or its dominating straight-line predecessors), the constant stored to Result.Success.
func resultSuccessStore(fn *ssa.Function, ret *ssa.Return) string {
	return resultFieldStore(ret, "Success")
}

func resultFieldStore(ret *ssa.Return, field string) string {
	if len(ret.Results) == 0 {
		return "?"
	}
	al, ok := strip(ret.Results[0]).(*ssa.Alloc)
	if !ok {
		return "?"
	}
	val := "?"
	for _, ref := range *al.Referrers() {
		fa, ok := ref.(*ssa.FieldAddr)
		if !ok {
			continue
		}
		_, f := fieldOwner(fa.X, fa.Field)
		if f != field {
			continue
		}
		for _, rr := range *fa.Referrers() {
			if st, ok := rr.(*ssa.Store); ok && st.Addr == fa {
				val = term(st.Val)
			}
		}
	}
	return val
}
