package main

import (
	"fmt"
	"go/token"
	"go/types"
	"os"
	"path/filepath"
	"sort"
	"strings"
	"sync"

	"golang.org/x/tools/go/packages"
	"golang.org/x/tools/go/ssa"
	"golang.org/x/tools/go/ssa/ssautil"
)

const (
	H = "github.com/ava-labs/hypersdk"
	M = H + "/examples/morpheusvm"
)

// World is one loaded, type-checked and SSA-built module.
type World struct {
	Dir      string
	Fset     *token.FileSet
	Pkgs     map[string]*packages.Package
	Prog     *ssa.Program
	SSAPkgs  map[string]*ssa.Package
	fns      map[string]*ssa.Function // by normalised full name
	srcFns   []*ssa.Function          // all source functions of module packages (incl. anonymous)
	modPaths map[string]bool
}

func repoDir() string {
	if d := os.Getenv("HSDK_REPO"); d != "" {
		return d
	}
	return "/repo"
}

func loadEnv() []string {
	env := []string{}
	for _, kv := range os.Environ() {
		k := kv
		if i := strings.IndexByte(kv, '='); i >= 0 {
			k = kv[:i]
		}
		switch k {
		case "GOFLAGS", "GOWORK", "GOTOOLCHAIN", "GOSUMDB", "GOPROXY", "GONOSUMDB", "GONOSUMCHECK", "GOINSECURE":
			continue
		}
		env = append(env, kv)
	}
	// inside /repo: toolchain auto-switch to the cached go1.23.7, no proxy, no -mod flag, no workspace
	env = append(env, "GOPROXY=off", "GOFLAGS=", "GOWORK=off", "GOTOOLCHAIN=auto")
	return env
}

// loadWorld loads patterns in dir. overlay maps absolute file names to replacement contents.
func loadWorld(dir string, patterns []string, minPkgs int, overlay map[string][]byte) (*World, error) {
	fset := token.NewFileSet()
	cfg := &packages.Config{
		Mode:    packages.LoadSyntax,
		Dir:     dir,
		Fset:    fset,
		Env:     loadEnv(),
		Tests:   false,
		Overlay: overlay,
	}
	if len(overlay) > 0 && os.Getenv("HSDK_OVERLAY_MODE") == "allsyntax" {
		// with an overlay, export data of dependents would be stale: type-check the whole import graph from source
		cfg.Mode = packages.LoadAllSyntax
	}
	pkgs, err := packages.Load(cfg, patterns...)
	if err != nil {
		return nil, fmt.Errorf("packages.Load(%s): %w", dir, err)
	}
	if len(pkgs) < minPkgs {
		return nil, fmt.Errorf("loaded %d packages in %s, expected at least %d", len(pkgs), dir, minPkgs)
	}
	var errs []string
	for _, p := range pkgs {
		for _, e := range p.Errors {
			errs = append(errs, fmt.Sprintf("%s: %s", p.PkgPath, e.Error()))
		}
		if p.Types == nil || p.TypesInfo == nil || len(p.Syntax) == 0 && len(p.GoFiles) > 0 {
			errs = append(errs, fmt.Sprintf("%s: no type information", p.PkgPath))
		}
	}
	if len(errs) > 0 {
		sort.Strings(errs)
		if len(errs) > 12 {
			errs = append(errs[:12], fmt.Sprintf("... and %d more", len(errs)-12))
		}
		return nil, fmt.Errorf("type/load errors:\n  %s", strings.Join(errs, "\n  "))
	}
	prog, spkgs := ssautil.AllPackages(pkgs, ssa.BuilderMode(0))
	// build only the module's own packages (dependencies are used through their type information)
	var wg sync.WaitGroup
	for _, sp := range spkgs {
		if sp == nil {
			continue
		}
		wg.Add(1)
		go func(sp *ssa.Package) {
			defer wg.Done()
			sp.Build()
		}(sp)
	}
	wg.Wait()
	w := &World{Dir: dir, Fset: fset, Pkgs: map[string]*packages.Package{}, Prog: prog, SSAPkgs: map[string]*ssa.Package{}, fns: map[string]*ssa.Function{}, modPaths: map[string]bool{}}
	for i, p := range pkgs {
		w.Pkgs[p.PkgPath] = p
		w.modPaths[p.PkgPath] = true
		if spkgs[i] == nil {
			return nil, fmt.Errorf("no SSA package for %s", p.PkgPath)
		}
		w.SSAPkgs[p.PkgPath] = spkgs[i]
	}
	// index functions
	for _, sp := range spkgs {
		for _, m := range sp.Members {
			switch m := m.(type) {
			case *ssa.Function:
				w.addFn(m)
			case *ssa.Type:
				w.addMethods(m.Type())
			}
		}
	}
	// declared init functions ("init#1", ...) are not package members: reach them through the synthetic initialiser
	for _, sp := range spkgs {
		if ini := sp.Func("init"); ini != nil {
			for _, b := range ini.Blocks {
				for _, ins := range b.Instrs {
					if c, ok := ins.(*ssa.Call); ok {
						if callee := c.Call.StaticCallee(); callee != nil && callee.Pkg == sp && strings.HasPrefix(callee.Name(), "init#") {
							w.addFn(callee)
						}
					}
				}
			}
		}
	}
	sort.Slice(w.srcFns, func(i, j int) bool { return w.srcFns[i].Pos() < w.srcFns[j].Pos() })
	return w, nil
}

func (w *World) addMethods(t types.Type) {
	for _, tt := range []types.Type{t, types.NewPointer(t)} {
		ms := w.Prog.MethodSets.MethodSet(tt)
		for i := 0; i < ms.Len(); i++ {
			sel := ms.At(i)
			fobj, ok := sel.Obj().(*types.Func)
			if !ok || fobj.Pkg() == nil || !w.modPaths[fobj.Pkg().Path()] {
				continue
			}
			// only methods declared directly on this type (no promoted wrappers)
			if len(sel.Index()) != 1 {
				continue
			}
			f := w.Prog.FuncValue(fobj)
			if f != nil {
				w.addFn(f)
			}
		}
	}
}

func (w *World) addFn(f *ssa.Function) {
	if f == nil || f.Blocks == nil {
		return
	}
	if f.Origin() != nil { // instantiation; the generic body is indexed instead
		return
	}
	name := fnName(f)
	if _, dup := w.fns[name]; dup {
		return
	}
	w.fns[name] = f
	w.srcFns = append(w.srcFns, f)
	for _, a := range f.AnonFuncs {
		w.addFn(a)
	}
}

// Fn returns the function with the given normalised name, e.g.
// "(*github.com/ava-labs/hypersdk/chain.Transaction).Execute" or "pkg.Func" or "...Execute$1".
func (w *World) Fn(name string) *ssa.Function { return w.fns[name] }

func (w *World) rel(p token.Pos) string {
	if !p.IsValid() {
		return "?"
	}
	pos := w.Fset.Position(p)
	fn := pos.Filename
	if r, err := filepath.Rel(repoDir(), fn); err == nil && !strings.HasPrefix(r, "..") {
		fn = r
	}
	return fmt.Sprintf("%s:%d", fn, pos.Line)
}

// FnsInPkg lists source functions (including anonymous) of a package path.
func (w *World) FnsInPkg(path string) []*ssa.Function {
	var out []*ssa.Function
	for _, f := range w.srcFns {
		if f.Pkg != nil && f.Pkg.Pkg.Path() == path {
			out = append(out, f)
		}
	}
	return out
}

// normName strips type-argument / type-parameter lists.
func normName(s string) string {
	if !strings.Contains(s, "[") {
		return s
	}
	var b strings.Builder
	depth := 0
	for _, r := range s {
		switch {
		case r == '[':
			depth++
		case r == ']':
			depth--
		case depth == 0:
			b.WriteRune(r)
		}
	}
	return b.String()
}

func fnName(f *ssa.Function) string {
	if f == nil {
		return ""
	}
	if o := f.Origin(); o != nil {
		f = o
	}
	if f.Parent() != nil {
		// anonymous: parent name + $n
		n := f.Name()
		if i := strings.LastIndex(n, "$"); i >= 0 {
			return fnName(f.Parent()) + n[i:]
		}
		return fnName(f.Parent()) + "$" + n
	}
	if strings.HasPrefix(f.Name(), "init#") && f.Pkg != nil {
		return f.Pkg.Pkg.Path() + "." + f.Name()
	}
	if obj, ok := f.Object().(*types.Func); ok && obj != nil {
		return normName(obj.FullName())
	}
	if f.Pkg != nil {
		return f.Pkg.Pkg.Path() + "." + f.Name()
	}
	return normName(f.String())
}

// short renders a qualified name without the module prefix.
func short(s string) string {
	s = strings.ReplaceAll(s, M+"/", "")
	s = strings.ReplaceAll(s, H+"/", "")
	s = strings.ReplaceAll(s, "github.com/ava-labs/avalanchego/", "ago/")
	return s
}
