package main

import (
	"fmt"
	"go/constant"
	"go/types"
	"strings"

	"golang.org/x/tools/go/ssa"
)

const (
	pkgTstate    = H + "/state/tstate"
	nmView       = "(*" + pkgTstate + ".TStateView)."
	nmCheckScope = nmView + "checkScope"
	nmGetValueU  = nmView + "getValue"
	nmIsUnch     = nmView + "isUnchanged"
)

func init() {
	register(&propDef{
		ID: "C04",
		Explain: "Decides the well-formedness of the view's undo log and the places where the view forgets a key: Rollback handles every op kind, " +
			"walks the log newest-first down to the restore point and truncates it; every mutator path that changes the view's maps appends exactly " +
			"one op whose past-values were read before the change; a mutator may drop its pending entry for a key (making reads fall through to the " +
			"block diff / parent) only where isUnchanged has established equality with the underlying value; reads consult pending changes, then the " +
			"block's changed keys, then the parent, each only on a miss; Commit publishes every pending entry under the block lock. Not decided: " +
			"full map-with-checkpoints semantics over all operation histories.",
		Assume: []string{"isUnchanged is the view's only oracle for the value below it", "the undo-log mechanism named in the anchors (ops / pendingChangedKeys / allocates / writes)"},
		Run:    c04,
	})
	register(&propDef{
		ID: "C05",
		Explain: "Decides that every exported state operation of a transaction view performs the scope check with the required permission " +
			"(Read for reads, Write for insert/remove, additionally Allocate on the create path) before it touches any view map, the block diff or " +
			"the parent state, and fails with ErrInvalidKeyOrPermission without any store otherwise; that the unscoped helpers are reachable only " +
			"from those checked operations; that the permission constants form the intended lattice and Permissions.Has is a superset test; that " +
			"declared keys are unioned per key (OR) after format validation, for every action and the sponsor; and that a transaction's view scope " +
			"is exactly its declared keys (both execution sites). Not decided: dynamic key computation inside VM-supplied actions.",
		Assume: []string{"state.Scope implementations other than Keys/SimulatedKeys/fullAccess are supplied by callers"},
		Run:    c05,
	})
	register(&propDef{
		ID: "C40",
		Explain: "Decides the chunk arithmetic predicates of the keys package (suffix decoding from the last two bytes big-endian, length < 2 invalid, " +
			"chunk count = len/64+1 with 0 for empty and overflow rejection, value chunks <= key chunks, Encode appends the chunk count of the " +
			"maximum size) and that the write path checks the value against the key's suffix before any store, that declared keys must be Valid, " +
			"and that metering fails on undecodable keys. Not decided: numeric monotonicity is argued from the extracted formula, not executed.",
		Run: c40,
	})
}

// ----------------------------------------------------------------------------- C04

func c04(r *Run) {
	w := r.W
	r.rule("C04.R1", "K11", "Rollback: a case per opType constant, each constant assigned by a mutator; newest-first iteration down to restorePoint; log truncated", 5)
	r.rule("C04.R2", "K7", "Insert/Remove: a path that stores to the view's maps appends exactly one op; past values read before the first store; a pending entry is set only together with writes[k]", 6)
	r.rule("C04.R3", "K1", "a mutator deletes its pending entry only under isUnchanged == true", 2)
	r.rule("C04.R4", "K1", "getValue: pending, then block diff, then parent, each only on a miss", 3)
	r.rule("C04.R5", "K4", "Commit publishes every pending entry under TState.l", 2)

	rb := r.fn(w, "C04.R1", nmView+"Rollback")
	ins := r.fn(w, "C04.R2", nmView+"Insert")
	rem := r.fn(w, "C04.R2", nmView+"Remove")

	// R1: op kinds
	var opConsts []string
	opVals := map[string]string{}
	if p := w.Pkgs[pkgTstate]; p != nil {
		sc := p.Types.Scope()
		for _, n := range sc.Names() {
			if c, ok := sc.Lookup(n).(*types.Const); ok {
				if nt, ok := c.Type().(*types.Named); ok && nt.Obj().Name() == "opType" {
					opConsts = append(opConsts, n)
					opVals[n] = c.Val().ExactString()
				}
			}
		}
	}
	if len(opConsts) < 3 {
		r.missing("C04.R1", "opType-constants", "fewer than three opType constants found")
	}
	if rb != nil {
		conds := map[string]bool{}
		for _, e := range effectsOf(rb) {
			for _, c := range e.Conds() {
				conds[c] = true
			}
		}
		for _, n := range opConsts {
			handled := false
			for c := range conds {
				if glob(opVals[n]+" == p0.ops[*].t", c) {
					handled = true
				}
			}
			r.check(handled, "C04.R1", "Rollback:case:"+n, w.rel(rb.Pos()), "handled", "Rollback has no case for op kind "+n)
			// assigned by a mutator
			assigned := false
			for _, f := range []*ssa.Function{ins, rem} {
				if f != nil && len(findEffects(f, "store alloc(complit).t = "+opVals[n])) > 0 {
					assigned = true
				}
			}
			r.check(assigned, "C04.R1", "mutators:assign:"+n, w.rel(rb.Pos()), "assigned by Insert/Remove", "op kind "+n+" is never recorded by a mutator")
		}
		// iteration order: index starts at len(ops)-1, steps by -1, bounded below by restorePoint
		okIter := false
		for _, h := range loopHeaders(rb) {
			if ifi, ok := h.Instrs[len(h.Instrs)-1].(*ssa.If); ok {
				ps := predString(ifi.Cond, true)
				if ps == "p2 <= phi((builtin.len(p0.ops) - 1), (↺ - 1))" {
					okIter = true // for i := len-1; i >= restorePoint; i-- over ops[i]
				}
				if ps == "p2 < phi(builtin.len(p0.ops), (↺ - 1))" || ps == "p2 < phi((↺ - 1), builtin.len(p0.ops))" {
					// for i := len; i > restorePoint; i-- : the same indices provided the element undone is ops[i-1]
					eachInstr(rb, func(ins ssa.Instruction) {
						if ia, ok := ins.(*ssa.IndexAddr); ok && term(ia.X) == "p0.ops" && (term(ia.Index) == "(phi(builtin.len(p0.ops), (↺ - 1)) - 1)" || term(ia.Index) == "(phi((↺ - 1), builtin.len(p0.ops)) - 1)") {
							okIter = true
						}
					})
				}
			}
		}
		r.check(okIter, "C04.R1", "Rollback:newest-first", w.rel(rb.Pos()), "for i := len(ops)-1; i >= restorePoint; i--", "Rollback does not undo the log newest-first from len(ops)-1 down to restorePoint")
		r.requireEffect(w, "C04.R1", "Rollback:truncate", rb, "store p0.ops = p0.ops[:p2]")
		// every undo touches the op's own key
		bad := ""
		for _, e := range effectsOf(rb) {
			if strings.HasPrefix(e.Str, "mapupdate p0.") || strings.HasPrefix(e.Str, "call builtin.delete(p0.") {
				if !glob("*p0.ops[*].k*", e.Str) {
					bad = e.Str
				}
			}
		}
		r.check(bad == "", "C04.R1", "Rollback:own-key", w.rel(rb.Pos()), "every undo addresses the op's key", "an undo step does not address the recorded key: "+bad)
	}

	// R2: pairing of map changes and op append in Insert/Remove
	for _, f := range []*ssa.Function{ins, rem} {
		if f == nil {
			continue
		}
		name := short(fnName(f))
		appends := findEffects(f, "store p0.ops = builtin.append(p0.ops, [alloc(complit)])")
		if len(appends) != 1 {
			r.missing("C04.R2", name+":append-op", fmt.Sprintf("expected exactly one append to ts.ops, found %d", len(appends)))
			continue
		}
		ap := appends[0].Ins
		var mods []*effect
		for _, e := range effectsOf(f) {
			if strings.HasPrefix(e.Str, "mapupdate p0.") || strings.HasPrefix(e.Str, "call builtin.delete(p0.") {
				mods = append(mods, e)
			}
		}
		// every return reachable after a modification has passed the append, and the append is followed or preceded by a modification
		okk := true
		detail := ""
		for _, m := range mods {
			// a path entry -> m -> return avoiding ap ?
			if !dominatesI(ap, m.Ins) {
				// m before ap: then ap must follow on every path to return
				if !alwaysFollowedBy(m.Ins, ap) {
					okk = false
					detail = m.Str
				}
			}
		}
		r.check(okk && len(mods) > 0, "C04.R2", name+":modification-implies-op", r.at(w, ap), "every map change is paired with the appended op", "a path changes the view's maps without appending an op: "+detail)
		// op fields are read before the first store: the values stored into pastV/pastAllocates/pastWrites are computed (call instrs) before any modification
		okk = true
		for _, fld := range []string{"pastV", "pastAllocates", "pastWrites"} {
			es := findEffects(f, "store alloc(complit)."+fld+" = *")
			if len(es) != 1 {
				okk = false
				detail = "field " + fld + " not recorded"
				continue
			}
			val := es[0].Ins.(*ssa.Store).Val
			src := sourceCall(val)
			if src == nil {
				okk = false
				detail = "past value of " + fld + " is not read from the view"
				continue
			}
			for _, m := range mods {
				if found, _ := pathExists(after(m.Ins), isInstr(src), nil, nil); found {
					okk = false
					detail = fld + " is read after " + m.Str
				}
			}
		}
		r.check(okk, "C04.R2", name+":past-read-before-change", r.at(w, ap), "pastV/pastAllocates/pastWrites are read before any change", detail)
		// Rollback tells "the key had a pending entry before this op" from pastWrites != nil, so a pending entry may
		// only be set on paths that also set writes[k] unconditionally
		pend := findEffects(f, "mapupdate p0.pendingChangedKeys[string(p2)] = *")
		isW := func(i ssa.Instruction) bool {
			for _, e := range findEffects(f, "mapupdate p0.writes[string(p2)] = *") {
				if e.Ins == i {
					return true
				}
			}
			return false
		}
		okk = len(pend) >= 1
		detail = "no pending-entry update found"
		for _, p := range pend {
			if found, _ := pathExists(point{f.Blocks[0], 0}, isInstr(p.Ins), isW, nil); found {
				okk = false
				detail = "a path sets pendingChangedKeys[k] without setting writes[k]; a later op records pastWrites == nil and Rollback to a checkpoint between them drops the pending value"
			}
		}
		r.check(okk, "C04.R2", name+":pending-implies-writes-marker", r.at(w, ap), "every path that sets the pending entry sets writes[k]", detail)
		// the recorded key is the operated key
		r.requireEffect(w, "C04.R2", name+":op.k", f, "store alloc(complit).k = string(p2)")
	}

	// R3
	for _, f := range []*ssa.Function{ins, rem} {
		if f == nil {
			continue
		}
		name := short(fnName(f))
		dels := findEffects(f, "call builtin.delete(p0.pendingChangedKeys, *")
		if len(dels) == 0 {
			r.missing("C04.R3", name+":pending-drop", "no delete of pendingChangedKeys found (the clean-up that returns a key to its underlying value)")
			continue
		}
		for _, d := range dels {
			okk := hasMatch(d.Conds(), "(*state/tstate.TStateView).isUnchanged(p0, p1, string(p2), *)#0") && hasMatch(d.Conds(), "(*state/tstate.TStateView).isUnchanged(*)#1 == nil")
			r.check(okk, "C04.R3", name+":pending-drop-requires-isUnchanged", r.at(w, d.Ins),
				"pending entry dropped only when isUnchanged returned true",
				"the pending entry of the key is dropped although equality with the underlying value has not been established (reads would fall through to the block diff / parent): controlled by {"+strings.Join(d.Conds(), " ; ")+"}")
		}
	}
	// isUnchanged consults the block diff first and then the parent, and is called with the new value/existence
	if ins != nil {
		r.requireEffect(w, "C04.R3", "Insert:isUnchanged(new value, exists)", ins, "call (*state/tstate.TStateView).isUnchanged(p0, p1, string(p2), p3, true)")
	}
	if rem != nil {
		r.requireEffect(w, "C04.R3", "Remove:isUnchanged(nil, absent)", rem, "call (*state/tstate.TStateView).isUnchanged(p0, p1, string(p2), nil, false)")
	}

	// isUnchanged itself: the block diff decides whenever it has an entry (present or deleted); the parent is consulted only on a miss
	iu := r.fn(w, "C04.R3", nmIsUnch)
	if iu != nil {
		gc := "(*state/tstate.TState).getChangedValue(p0.ts, p1, p2)"
		es := findEffects(iu, "call (state.Immutable).GetValue(p0.storage, p1, []byte(p2))")
		r.check(len(es) == 1 && len(es[0].Conds()) == 1 && es[0].Conds()[0] == "!"+gc+"#1", "C04.R3", "isUnchanged:parent-only-on-block-diff-miss", w.rel(iu.Pos()), "", "isUnchanged consults the parent value although the block diff has an entry for the key (or not exactly on a miss)")
		var hit, nf, eq, errp bool
		for _, o := range returnOutcomes(iu) {
			v0 := ""
			if len(o.Vals) == 2 {
				v0 = term(o.Vals[0])
			}
			switch {
			case len(o.Conds) == 1 && o.Conds[0] == gc+"#1":
				// !exists && !nexists || exists && nexists && bytes.Equal(v, nval): rendered as a phi over the short-circuit edges
				hit = strings.Contains(v0, "bytes.Equal("+gc+"#0, p3)") && strings.Contains(v0, "!p4") || strings.Contains(v0, "bytes.Equal("+gc+"#0, p3)")
			case hasMatch(o.Conds, "(state.Immutable).GetValue(*)#1 == ago/database.ErrNotFound"):
				nf = v0 == "!p4"
			case hasMatch(o.Conds, "(state.Immutable).GetValue(*)#1 == nil"):
				eq = strings.Contains(v0, "bytes.Equal((state.Immutable).GetValue(p0.storage, p1, []byte(p2))#0, p3)")
			case hasStr(o.Sentinels, "err:(state.Immutable).GetValue"):
				errp = v0 == "false"
			}
		}
		r.check(hit && nf && eq && errp, "C04.R3", "isUnchanged:cases", w.rel(iu.Pos()), "block-diff hit decides alone; parent: equal bytes / not-found <=> new value absent; other errors returned", fmt.Sprintf("isUnchanged cases are not as expected (block-diff hit %v, parent not-found %v, parent equal %v, error %v)", hit, nf, eq, errp))
		// existence flags: deleted-in-block vs absent-new must both hold for 'unchanged'
		conds := map[string]bool{}
		for _, b := range iu.Blocks {
			if ifi, ok := b.Instrs[len(b.Instrs)-1].(*ssa.If); ok {
				conds[predString(ifi.Cond, true)] = true
			}
		}
		r.check(conds[gc+"#2"] && conds["p4"], "C04.R3", "isUnchanged:tests-both-existence-flags", w.rel(iu.Pos()), "", "isUnchanged does not test both the block diff's existence flag and the new value's existence flag")
	}

	// R4
	gv := r.fn(w, "C04.R4", nmGetValueU)
	if gv != nil {
		r.requireEffect(w, "C04.R4", "getValue:block-diff-on-pending-miss", gv, "call (*state/tstate.TState).getChangedValue(p0.ts, p1, p2)", "!p0.pendingChangedKeys[p2]#1")
		r.requireEffect(w, "C04.R4", "getValue:parent-on-both-miss", gv, "call (state.Immutable).GetValue(p0.storage, p1, []byte(p2))", "!p0.pendingChangedKeys[p2]#1", "!(*state/tstate.TState).getChangedValue(p0.ts, p1, p2)#1")
		// pending hit returns the pending value / not found
		okk := false
		for _, o := range returnOutcomes(gv) {
			if hasStr(o.Conds, "p0.pendingChangedKeys[p2]#1") && hasStr(o.Conds, "(ago/utils/maybe.Maybe).IsNothing(p0.pendingChangedKeys[p2]#0)") && hasStr(o.Sentinels, "ago/database.ErrNotFound") {
					okk = true
			}
		}
		r.check(okk, "C04.R4", "getValue:pending-delete-is-not-found", w.rel(gv.Pos()), "pending Nothing => ErrNotFound", "a pending deletion is not reported as ErrNotFound")
	}

	// R5
	cm := r.fn(w, "C04.R5", nmView+"Commit")
	if cm != nil {
		// the whole-map copy of the standard library is the same publication (every entry, unconditionally)
		if cp := findEffects(cm, "call maps.Copy(p0.ts.changedKeys, p0.pendingChangedKeys)"); len(cp) == 1 && len(findEffects(cm, "mapupdate p0.ts.changedKeys[*")) == 0 {
			r.ok("C04.R5", "Commit:publish-all", r.at(w, cp[0].Ins), "maps.Copy(block diff, pending)")
			clean := len(findEffects(cm, "call builtin.delete(p0.ts.changedKeys, *")) == 0
			for _, c := range cp[0].Conds() {
				if !(strings.HasSuffix(c, " == nil") || strings.HasPrefix(c, "nil == ")) {
					clean = false
				}
			}
			r.check(clean, "C04.R5", "Commit:unfiltered", r.at(w, cp[0].Ins), "every pending entry is published", "Commit does not publish every pending entry")
			locks := findEffects(cm, "call (*sync.RWMutex).Lock(p0.ts.l)")
			held := len(locks) == 1 && effBefore(locks[0], cp[0])
			for _, u := range findEffects(cm, "call (*sync.RWMutex).Unlock(p0.ts.l)") {
				if effBefore(u, cp[0]) {
					held = false // released before the copy (a deferred release is not)
				}
			}
			r.check(held, "C04.R5", "Commit:under-block-lock", r.at(w, cp[0].Ins), "under TState.l", "Commit does not hold TState.l while publishing")
			return
		}
		es := r.requireEffect(w, "C04.R5", "Commit:publish-all", cm, "mapupdate p0.ts.changedKeys[next(range(p0.pendingChangedKeys))#1] = next(range(p0.pendingChangedKeys))#2")
		if es != nil {
			// every pending entry (value or tombstone): the only condition is the loop's, every way round the loop passes
			// the publication, and Commit never removes an entry of the block diff
			unfiltered := len(es[0].Conds()) == 1
			if h, _ := innermostLoop(es[0].Ins.Block()); h != nil && len(h.Succs) == 2 {
				hdr := func(i ssa.Instruction) bool { return i.Block() == h && instrIndex(i) == 0 }
				if skip, _ := pathExists(point{h.Succs[0], 0}, hdr, isInstr(es[0].Ins), nil); skip {
					unfiltered = false
				}
			} else {
				unfiltered = false
			}
			if len(findEffects(cm, "call builtin.delete(p0.ts.changedKeys, *")) > 0 {
				unfiltered = false
			}
			r.check(unfiltered, "C04.R5", "Commit:unfiltered", r.at(w, es[0].Ins), "every pending entry is published", "Commit does not publish every pending entry (a deletion that follows a write of the same block has to stay as a tombstone: the parent may hold the key): "+strings.Join(es[0].Conds(), " ; "))
			locks := findEffects(cm, "call (*sync.RWMutex).Lock(p0.ts.l)")
			r.check(len(locks) == 1 && dominatesI(locks[0].Ins, es[0].Ins) && len(findEffects(cm, "defer (*sync.RWMutex).Unlock(p0.ts.l)")) == 1, "C04.R5", "Commit:under-block-lock", r.at(w, es[0].Ins), "under TState.l", "Commit does not hold TState.l while publishing")
		}
	}
}

// sourceCall returns the call instruction a value is extracted from (through Extract / conversions).
func sourceCall(v ssa.Value) ssa.Instruction {
	v = strip(v)
	switch x := v.(type) {
	case *ssa.Call:
		return x
	case *ssa.Extract:
		if c, ok := x.Tuple.(*ssa.Call); ok {
			return c
		}
	}
	return nil
}

// ----------------------------------------------------------------------------- C05

func c05(r *Run) {
	w := r.W
	// "the failing action is reverted" rests on the transaction's rollback on every action error (decided under C03)
	defer r.importRules(c03, "C03.R3")
	r.rule("C05.R1", "K1", "scope check with the required permission precedes every access in GetValue/Insert/Remove; create path additionally Allocate; failure returns ErrInvalidKeyOrPermission before any store", 8)
	r.rule("C05.R2", "K3", "unscoped helpers getValue/isUnchanged are called only from the scope-checked operations", 2)
	r.rule("C05.R3", "K10", "permission lattice constants", 6)
	r.rule("C05.R4", "K5", "Keys.Add validates then ORs; StateKeys unions every action's and the sponsor's keys through Add", 5)
	r.rule("C05.R5", "K6", "Permissions.Has is a superset test; Keys.Has looks up the exact key; checkScope delegates to scope.Has", 3)
	r.rule("C05.R6", "K5", "a transaction's view scope is its declared keys at both execution sites", 2)

	perm := map[string]string{}
	if p := w.Pkgs[H+"/state"]; p != nil {
		for _, n := range []string{"Read", "Allocate", "Write", "None", "All"} {
			if c, ok := p.Types.Scope().Lookup(n).(*types.Const); ok {
				perm[n] = c.Val().ExactString()
			}
		}
	}
	type opSpec struct {
		fn   string
		perm string
	}
	for _, sp := range []opSpec{{"GetValue", "Read"}, {"Insert", "Write"}, {"Remove", "Write"}} {
		f := r.fn(w, "C05.R1", nmView+sp.fn)
		if f == nil {
			continue
		}
		checks := findEffects(f, "call (*state/tstate.TStateView).checkScope(p0, p1, p2, "+perm[sp.perm]+")")
		if len(checks) != 1 || perm[sp.perm] == "" {
			r.missing("C05.R1", sp.fn+":checkScope("+sp.perm+")", "scope check with permission "+sp.perm+" on the operated key not found")
			continue
		}
		chk := checks[0].Ins.(*ssa.Call)
		// every access lies behind the true edge
		okk := true
		detail := ""
		n := 0
		for _, e := range effectsOf(f) {
			if e.Ins == chk {
				continue
			}
			isAccess := strings.HasPrefix(e.Str, "mapupdate ") || strings.HasPrefix(e.Str, "store p0.") || strings.HasPrefix(e.Str, "call builtin.delete(") ||
				strings.HasPrefix(e.Str, "call (*state/tstate.TStateView).getValue(") || strings.HasPrefix(e.Str, "call (*state/tstate.TStateView).isUnchanged(") ||
				strings.HasPrefix(e.Str, "call (*state/tstate.TState).") || strings.HasPrefix(e.Str, "call (state.Immutable).")
			if !isAccess {
				continue
			}
			n++
			if !dominatesI(chk, e.Ins) || !onlyViaTruth(chk, chk, e.Ins, true) {
				okk = false
				detail = e.Str
			}
		}
		r.check(okk && n > 0, "C05.R1", sp.fn+":check-dominates-accesses", r.at(w, chk), fmt.Sprintf("%d accesses behind checkScope(%s)==true", n, sp.perm), "access without a passed scope check: "+detail)
		// failure returns the sentinel
		okk = false
		for _, o := range returnOutcomes(f) {
			if hasStr(o.Sentinels, "state/tstate.ErrInvalidKeyOrPermission") && hasStr(o.Conds, "!(*state/tstate.TStateView).checkScope(p0, p1, p2, "+perm[sp.perm]+")") {
				okk = true
			}
		}
		r.check(okk, "C05.R1", sp.fn+":failure-returns-ErrInvalidKeyOrPermission", r.at(w, chk), "failed check returns the sentinel", "a failed scope check does not return ErrInvalidKeyOrPermission")
		if sp.fn == "Insert" {
			ac := findEffects(f, "call (*state/tstate.TStateView).checkScope(p0, p1, p2, "+perm["Allocate"]+")")
			if len(ac) != 1 {
				r.missing("C05.R1", "Insert:checkScope(Allocate)", "allocate check not found on the create path")
			} else {
				achk := ac[0].Ins.(*ssa.Call)
				creates := append(findEffects(f, "mapupdate p0.allocates[*"), findEffects(f, "store alloc(complit).t = 0")...)
				okk := len(creates) >= 2
				for _, c := range creates {
					if !dominatesI(achk, c.Ins) || !onlyViaTruth(achk, achk, c.Ins, true) {
						okk = false
					}
				}
				r.check(okk, "C05.R1", "Insert:create-requires-Allocate", r.at(w, achk), "create path behind checkScope(Allocate)==true", "a key can be created without a passed Allocate check")
				// the create path is every path on which the key is absent: the allocate check is on the ErrNotFound branch unconditionally
				conds := ac[0].Conds()
				extra := ""
				for _, c := range conds {
					if !(strings.Contains(c, "checkScope(p0, p1, p2, "+perm["Write"]+")") || strings.Contains(c, "keys.VerifyValue") || strings.Contains(c, "isUnchanged") || strings.Contains(c, ".getValue(p0, p1, string(p2))#1")) {
						extra = c
					}
				}
				r.check(extra == "", "C05.R1", "Insert:Allocate-check-unconditional-on-create", r.at(w, achk), "the allocate check depends only on the key being absent", "the allocate check is skipped under an additional condition: "+extra)
				// all stores of the create path happen after the failing return would have been taken
				okk = false
				for _, o := range returnOutcomes(f) {
					if hasStr(o.Sentinels, "state/tstate.ErrInvalidKeyOrPermission") && hasStr(o.Conds, "!(*state/tstate.TStateView).checkScope(p0, p1, p2, "+perm["Allocate"]+")") {
						okk = true
						for _, e := range effectsOf(f) {
							if (strings.HasPrefix(e.Str, "mapupdate p0.") || strings.HasPrefix(e.Str, "store p0.")) && reachableFrom(e.Ins, o.Ret) {
								okk = false
							}
						}
					}
				}
				r.check(okk, "C05.R1", "Insert:failed-Allocate-no-store", r.at(w, achk), "no store precedes the failing return", "a store to the view precedes the return taken when the Allocate check fails")
			}
		}
	}
	// R2: who may call
	allowed := map[string]bool{nmView + "GetValue": true, nmView + "Insert": true, nmView + "Remove": true}
	for _, helper := range []string{nmGetValueU, nmIsUnch} {
		n := 0
		okk := true
		where := ""
		for _, fn := range w.srcFns {
			for _, c := range callsNamed(fn, helper) {
				n++
				if !allowed[fnName(fn)] {
					okk = false
					where = short(fnName(fn)) + " at " + r.at(w, c)
				}
			}
		}
		r.check(okk && n >= 2, "C05.R2", "callers:"+short(helper), "", fmt.Sprintf("%d call sites, all in scope-checked operations", n), "unscoped helper called from "+where)
	}
	// direct accesses to pendingChangedKeys / storage / ts outside the view's own methods
	for _, fn := range w.FnsInPkg(pkgTstate) {
		if strings.HasPrefix(fnName(fn), nmView) || fnName(fn) == "(*"+pkgTstate+".TState).NewView" {
			continue
		}
		acc := fieldAccesses(fn, pkgTstate+".TStateView", "*")
		if len(acc) > 0 {
			r.bad("C05.R2", "foreign-access:"+short(fnName(fn)), r.at(w, acc[0]), "TStateView fields are accessed outside its methods")
		}
	}
	// R3 constants
	if len(perm) == 5 {
		val := func(n string) int64 {
			v, _ := constant.Int64Val(constant.MakeFromLiteral(perm[n], 5, 0))
			return v
		}
		rd, al, wr, none, all := val("Read"), val("Allocate"), val("Write"), val("None"), val("All")
		single := func(x int64) bool { return x != 0 && x&(x-1) == 0 }
		r.check(rd == 1, "C05.R3", "Read==1", "", "", "Read is not 1")
		r.check(al&rd == rd && single(al^rd), "C05.R3", "Allocate=bit|Read", "", "", "Allocate does not include Read plus one own bit")
		r.check(wr&rd == rd && single(wr^rd), "C05.R3", "Write=bit|Read", "", "", "Write does not include Read plus one own bit")
		r.check(al^rd != wr^rd, "C05.R3", "Allocate-bit!=Write-bit", "", "", "Allocate and Write share their bit")
		r.check(none == 0, "C05.R3", "None==0", "", "", "None is not 0")
		r.check(all == rd|al|wr, "C05.R3", "All==Read|Allocate|Write", "", "", "All is not the union")
	} else {
		r.missing("C05.R3", "constants", "permission constants not found")
	}
	// R4
	add := r.fn(w, "C05.R4", "("+H+"/state.Keys).Add")
	if add != nil {
		r.requireEffect(w, "C05.R4", "Keys.Add:valid-first-then-OR", add, "mapupdate p0[p1] = (p0[p1] | p2)", "keys.Valid(p1)")
		okk := false
		for _, o := range returnOutcomes(add) {
			if hasStr(o.Conds, "!keys.Valid(p1)") && len(o.Vals) == 1 && term(o.Vals[0]) == "false" {
				okk = true
			}
		}
		r.check(okk, "C05.R4", "Keys.Add:invalid-returns-false", w.rel(add.Pos()), "", "an invalid key is not rejected with false")
	}
	sk := r.fn(w, "C05.R4", "(*"+H+"/chain.Transaction).StateKeys")
	if sk != nil {
		adds := callsNamed(sk, "("+H+"/state.Keys).Add")
		srcA, srcS := false, false
		okk := true
		for _, a := range adds {
			t := strings.Join(argTerms(a), " | ")
			if strings.Contains(t, "(chain.Action).StateKeys(") {
				srcA = true
			}
			if strings.Contains(t, "(chain.BalanceHandler).SponsorStateKeys(") {
				srcS = true
			}
			// failing Add returns ErrInvalidKeyValue
			if cv, ok := a.(*ssa.Call); ok {
				found := false
				for _, o := range returnOutcomes(sk) {
					if hasStr(o.Sentinels, "chain.ErrInvalidKeyValue") && hasStr(o.Conds, "!"+term(cv)) {
						found = true
					}
				}
				if !found {
					okk = false
				}
			}
		}
		r.check(srcA && srcS && okk, "C05.R4", "StateKeys:union-of-actions-and-sponsor", w.rel(sk.Pos()), "every action's keys and the sponsor's keys are added through Keys.Add; a rejected key fails the transaction", "StateKeys does not add every action's and the sponsor's keys through Keys.Add with ErrInvalidKeyValue on rejection")
		// no direct map stores into the key set
		bad := ""
		for _, e := range effectsOf(sk) {
			if strings.HasPrefix(e.Str, "mapupdate ") {
				bad = e.Str
			}
		}
		r.check(bad == "", "C05.R4", "StateKeys:only-through-Add", w.rel(sk.Pos()), "", "the key set is written directly, bypassing the union: "+bad)
		// loop over all actions
		h := findIndexLoopOver(sk, "p0.TransactionData.Actions")
		r.check(h != nil && loopExitsOnlyByReturnErr(h), "C05.R4", "StateKeys:every-action", w.rel(sk.Pos()), "", "the loop over t.Actions is missing or skips actions")
	}
	// R5
	has := r.fn(w, "C05.R5", "("+H+"/state.Permissions).Has")
	if has != nil {
		outs := returnOutcomes(has)
		okk := len(outs) == 1 && len(outs[0].Vals) == 1 && (term(outs[0].Vals[0]) == "((p1 &^ p0) == 0)" || term(outs[0].Vals[0]) == "((p0 & p1) == p1)" || term(outs[0].Vals[0]) == "(p1 == (p0 & p1))")
		got := ""
		if len(outs) > 0 && len(outs[0].Vals) > 0 {
			got = term(outs[0].Vals[0])
		}
		r.check(okk, "C05.R5", "Permissions.Has:superset", w.rel(has.Pos()), got, "Permissions.Has is not the superset test require&^p == 0: "+got)
	}
	kh := r.fn(w, "C05.R5", "("+H+"/state.Keys).Has")
	if kh != nil {
		outs := returnOutcomes(kh)
		got := ""
		if len(outs) == 1 && len(outs[0].Vals) == 1 {
			got = term(outs[0].Vals[0])
		}
		r.check(got == "(state.Permissions).Has(p0[string(p1)], p2)", "C05.R5", "Keys.Has:exact-key", w.rel(kh.Pos()), got, "Keys.Has does not test the permission stored under the exact key bytes: "+got)
	}
	cs := r.fn(w, "C05.R5", nmCheckScope)
	if cs != nil {
		outs := returnOutcomes(cs)
		got := ""
		if len(outs) == 1 && len(outs[0].Vals) == 1 {
			got = term(outs[0].Vals[0])
		}
		r.check(got == "(state.Scope).Has(p0.scope, p2, p3)", "C05.R5", "checkScope:delegates", w.rel(cs.Pos()), got, "checkScope does not delegate to scope.Has(key, perm): "+got)
	}
	// R6
	c01ScopeEqualsKeys(r, "C05.R6")
}

// findIndexLoopOver finds the header of a `for i := range X` loop (index-based) over the slice rendered as x.
func findIndexLoopOver(fn *ssa.Function, x string) *ssa.BasicBlock {
	for _, h := range loopHeaders(fn) {
		if ifi, ok := h.Instrs[len(h.Instrs)-1].(*ssa.If); ok {
			if glob("* < builtin.len("+x+")", predString(ifi.Cond, true)) {
				return h
			}
		}
	}
	// the loop may have been moved into a helper that did not exist on the reference tree
	var found *ssa.BasicBlock
	if liftDepth < maxLiftDepth {
		eachInstr(fn, func(ins ssa.Instruction) {
			ci, ok := ins.(*ssa.Call)
			if !ok || found != nil {
				return
			}
			if callee := transparentCallee(ci); callee != nil && callee != fn {
				withCallEnv(ci, callee, func() { found = findIndexLoopOver(callee, x) })
			}
		})
	}
	return found
}

// loopExitsOnlyByReturnErr: the loop is left only at its header or by returning a non-success outcome.
func loopExitsOnlyByReturnErr(h *ssa.BasicBlock) bool {
	loop := naturalLoop(h)
	if loop == nil {
		return false
	}
	outs := returnOutcomes(h.Parent())
	for b := range loop {
		if b == h {
			continue
		}
		for _, s := range b.Succs {
			if loop[s] {
				continue
			}
			// leaving: must lead only to error returns
			for _, o := range outs {
				blk := o.Ret.Block()
				if (blk == s || blockReachable(s, blk)) && o.isPotentialSuccess() {
					// allowed only if the same block is also reachable from header exit? no: treat as early exit
					if !blockReachableAvoiding(s, blk, h) && blk != s {
						continue
					}
					return false
				}
			}
		}
	}
	return true
}

func blockReachableAvoiding(from, to, avoid *ssa.BasicBlock) bool {
	if from == avoid {
		return false
	}
	seen := map[*ssa.BasicBlock]bool{from: true}
	q := []*ssa.BasicBlock{from}
	for len(q) > 0 {
		b := q[0]
		q = q[1:]
		if b == to {
			return true
		}
		for _, s := range b.Succs {
			if s == avoid || seen[s] {
				continue
			}
			seen[s] = true
			q = append(q, s)
		}
	}
	return false
}

// c01ScopeEqualsKeys: for every executor.Run(K, fn) in package chain, each NewView(scope, ...) inside fn has scope == K.
func c01ScopeEqualsKeys(r *Run, rule string) {
	w := r.W
	n := 0
	for _, fn := range w.FnsInPkg(H + "/chain") {
		for _, run := range callsNamed(fn, "(*"+H+"/internal/executor.Executor).Run") {
			args := run.Common().Args
			if len(args) != 3 {
				continue
			}
			mc, ok := args[2].(*ssa.MakeClosure)
			if !ok {
				r.bad(rule, short(fnName(fn))+":Run:closure", r.at(w, run), "the task passed to Executor.Run is not a function literal")
				continue
			}
			lit := mc.Fn.(*ssa.Function)
			r.saw(lit)
			// which free variable holds the keys?
			keyIdx := -1
			for i, b := range mc.Bindings {
				if sameBinding(b, args[1]) {
					keyIdx = i
				}
			}
			views := callsNamed(lit, "(*"+H+"/state/tstate.TState).NewView")
			if len(views) == 0 {
				r.bad(rule, short(fnName(fn))+":Run:NewView", r.at(w, run), "the task creates no scoped view")
				continue
			}
			for _, v := range views {
				n++
				sc := strip(v.Common().Args[1])
				okk := false
				if keyIdx >= 0 {
					if ld, ok := sc.(*ssa.UnOp); ok {
						if fv, ok := ld.X.(*ssa.FreeVar); ok && fv == lit.FreeVars[keyIdx] {
							okk = true
						}
					}
					if fv, ok := sc.(*ssa.FreeVar); ok && fv == lit.FreeVars[keyIdx] {
						okk = true
					}
				}
				r.check(okk, rule, short(fnName(fn))+":view-scope-is-conflict-keys", r.at(w, v), "NewView scope is the key set given to Executor.Run", "the view's scope ("+term(v.Common().Args[1])+") is not the key set used for conflict ordering ("+term(args[1])+")")
			}
		}
	}
	if n < 2 {
		r.missing(rule, "Run-sites", fmt.Sprintf("expected two Executor.Run sites with scoped views in package chain, found %d", n))
	}
}

// sameBinding: closure binding b captures the variable whose current value is v.
func sameBinding(b ssa.Value, v ssa.Value) bool {
	v = strip(v)
	if b == v {
		return true
	}
	// binding is the address of a local (Alloc); v is a load of it
	if ld, ok := v.(*ssa.UnOp); ok && ld.X == b {
		return true
	}
	return false
}

// ----------------------------------------------------------------------------- C40

func c40(r *Run) {
	w := r.W
	pk := H + "/keys"
	r.rule("C40.R1", "K6", "keys package predicates", 8)
	r.rule("C40.R2", "K1", "write path verifies the value against the key suffix before any store; declared keys must be Valid; the simulation scope grants only recordable keys; metering fails on undecodable keys", 5)

	expectRet := func(fnName_ string, want map[string]string) {
		f := r.fn(w, "C40.R1", fnName_)
		if f == nil {
			return
		}
		for label, pat := range want {
			parts := strings.SplitN(pat, " => ", 2)
			conds := strings.Split(parts[0], " && ")
			if parts[0] == "" {
				conds = nil
			}
			found := false
			var have []string
			for _, o := range returnOutcomes(f) {
				var vs []string
				for _, v := range o.Vals {
					vs = append(vs, term(v))
				}
				rv := strings.Join(vs, ", ")
				have = append(have, "{"+strings.Join(o.Conds, " ; ")+"} => "+rv)
				if glob(parts[1], rv) && containsAll(o.Conds, conds) {
					found = true
				}
			}
			r.check(found, "C40.R1", short(fnName_)+":"+label, w.rel(f.Pos()), pat, "expected a return ["+pat+"]; found "+strings.Join(have, " || "))
		}
	}
	expectRet(pk+".Valid", map[string]string{"len>=2": " => (2 <= builtin.len(p0))"})
	be := "(encoding/binary.bigEndian).Uint16(encoding/binary.BigEndian, p0[(builtin.len(p0) - 2):])"
	expectRet(pk+".MaxChunks", map[string]string{"short-invalid": "builtin.len(p0) < 2 => 0, false", "suffix-big-endian": "2 <= builtin.len(p0) => " + be + ", true"})
	expectRet(pk+".DecodeChunks", map[string]string{"short-invalid": "builtin.len(p0) < 2 => 0, false", "suffix-big-endian": "2 <= builtin.len(p0) => " + be + ", true"})
	expectRet(pk+".VerifyValue", map[string]string{
		"value<=key":          "keys.NumChunks(p1)#1 && keys.MaxChunks(p0)#1 => (keys.NumChunks(p1)#0 <= keys.MaxChunks(p0)#0)",
		"bad-value-rejected":  "!keys.NumChunks(p1)#1 => false",
		"bad-key-rejected":    "!keys.MaxChunks(p0)#1 => false",
	})
	expectRet(pk+".NumChunks", map[string]string{"delegates": " => keys.numChunks(builtin.len(p0))#0, keys.numChunks(builtin.len(p0))#1"})
	expectRet(pk+".numChunks", map[string]string{"empty-is-zero": "0 == p0 => 0, true", "overflow-rejected": "65535 < ((p0 / 64) + 1) => 0, false", "len/64+1": "((p0 / 64) + 1) <= 65535 => uint16(((p0 / 64) + 1)), true"})
	expectRet(pk+".Encode", map[string]string{"appends-chunks-of-max-size": "keys.numChunks(p1)#1 => (encoding/binary.bigEndian).AppendUint16(encoding/binary.BigEndian, p0, keys.numChunks(p1)#0), true", "overflow-rejected": "!keys.numChunks(p1)#1 => nil, false"})

	// R2
	ins := r.fn(w, "C40.R2", nmView+"Insert")
	if ins != nil {
		vv := findEffects(ins, "call keys.VerifyValue(p2, p3)")
		if len(vv) != 1 {
			r.missing("C40.R2", "Insert:VerifyValue", "keys.VerifyValue(key, value) not called by Insert")
		} else {
			v := vv[0].Ins.(*ssa.Call)
			okk := true
			detail := ""
			for _, e := range effectsOf(ins) {
				if strings.HasPrefix(e.Str, "mapupdate p0.") || strings.HasPrefix(e.Str, "store p0.") {
					if !dominatesI(v, e.Ins) || !onlyViaTruth(v, v, e.Ins, true) {
						okk = false
						detail = e.Str
					}
				}
			}
			r.check(okk, "C40.R2", "Insert:VerifyValue-before-stores", r.at(w, v), "all stores behind VerifyValue==true", "a store is reachable without the value having been verified against the key suffix: "+detail)
			okk = false
			for _, o := range returnOutcomes(ins) {
				if hasStr(o.Sentinels, "state/tstate.ErrInvalidKeyValue") && hasStr(o.Conds, "!keys.VerifyValue(p2, p3)") {
					okk = true
				}
			}
			r.check(okk, "C40.R2", "Insert:oversize-returns-ErrInvalidKeyValue", r.at(w, v), "", "an oversized value does not return ErrInvalidKeyValue")
		}
	}
	add := r.fn(w, "C40.R2", "("+H+"/state.Keys).Add")
	if add != nil {
		r.requireEffect(w, "C40.R2", "Keys.Add:requires-Valid", add, "mapupdate p0[p1] = *", "keys.Valid(p1)")
	}
	// every scope refuses a key that is not Valid: the recording scope of the simulation grants exactly what it
	// could record (Keys.Add checks Valid), and the declared scope grants only keys present in a map built by Add
	if sh := r.fn(w, "C40.R2", "("+H+"/state.SimulatedKeys).Has"); sh != nil {
		_, okk := simulatedHasShape(sh)
		r.check(okk, "C40.R2", "SimulatedKeys.Has:grants-only-recordable-keys", w.rel(sh.Pos()), "returns Keys.Add(key, perm)", "the simulation scope grants access to a key it cannot record (shorter than the chunk suffix): reads and removals of a malformed key succeed under simulation and the reported key set omits it")
	}
	un := r.fn(w, "C40.R2", nmUnits)
	if un != nil {
		mc := findEffects(un, "call keys.MaxChunks(*")
		okk := len(mc) >= 1
		if okk {
			cv := mc[0].Ins.(*ssa.Call)
			found := false
			for _, o := range returnOutcomes(un) {
				if hasStr(o.Sentinels, "chain.ErrInvalidKeyValue") && hasMatch(o.Conds, "!"+term(cv)+"#1") {
					found = true
				}
			}
			okk = found
		}
		r.check(okk, "C40.R2", "Units:undecodable-key-fails", w.rel(un.Pos()), "MaxChunks failure => ErrInvalidKeyValue", "Units does not fail with ErrInvalidKeyValue when a declared key's chunk suffix cannot be decoded")
	}
}
