package main

import (
	"bytes"
	"encoding/json"
	"fmt"
	"os"
	"os/exec"
	"path/filepath"
	"sort"
	"strconv"
	"strings"
	"sync"
)

// Mutant is a seeded source edit applied in memory (packages.Config.Overlay) over the current tree.
// It must still type-check and must turn at least one obligation of its property to violated.
type Mutant struct {
	Name string
	Prop string
	File string // repo-relative
	Old  string // must occur exactly once in File (after trimming nothing)
	New  string
	Why  string
}

var mutants []Mutant

func mut(prop, name, file, old, new, why string) {
	mutants = append(mutants, Mutant{Name: prop + "." + name, Prop: prop, File: file, Old: old, New: new, Why: why})
}

func findMutant(name string) *Mutant {
	for i := range mutants {
		if mutants[i].Name == name {
			return &mutants[i]
		}
	}
	return nil
}

func (m *Mutant) overlay() (map[string][]byte, error) {
	abs := filepath.Join(repoDir(), m.File)
	b, err := os.ReadFile(abs)
	if err != nil {
		return nil, err
	}
	n := bytes.Count(b, []byte(m.Old))
	if n != 1 {
		return nil, fmt.Errorf("pattern occurs %d times in %s (mutant no longer applies to this tree)", n, m.File)
	}
	nb := bytes.Replace(b, []byte(m.Old), []byte(m.New), 1)
	return map[string][]byte{abs: nb}, nil
}

type mutantResult struct {
	Name    string `json:"name"`
	Kind    string `json:"kind"` // mutant | seeded
	Outcome string `json:"outcome"`
	Why     string `json:"why,omitempty"`
	Report  string `json:"report,omitempty"`
}

type seededMeta struct {
	Property       string   `json:"property"`
	Summary        string   `json:"summary"`
	ExpectedDetect *bool    `json:"expected_detect,omitempty"`
	DetectedBy     []string `json:"detected_by,omitempty"`
	AlsoBreaks     []string `json:"also_detected_under,omitempty"`
}

// runThorough runs the mutant kill matrix and the seeded changes of the property, each in its own
// subprocess. broken is true if a mutant that applies survives, or a seeded change recorded as detected is missed.
func runThorough(r *Run) (map[string]any, bool) {
	type job struct {
		name, kind, why string
		args            []string
		expect          bool
	}
	var jobs []job
	for _, m := range mutants {
		if m.Prop == r.Prop {
			jobs = append(jobs, job{m.Name, "mutant", m.Why, []string{"-mutant", m.Name, "-tier", "quick", "-no-evidence"}, true})
		}
	}
	// seeded changes kept under /verif/seeded/<id>/
	sdir := filepath.Join(verifDir(), "seeded")
	ents, _ := os.ReadDir(sdir)
	for _, e := range ents {
		if !e.IsDir() {
			continue
		}
		mb, err := os.ReadFile(filepath.Join(sdir, e.Name(), "meta.json"))
		if err != nil {
			continue
		}
		var meta seededMeta
		if json.Unmarshal(mb, &meta) != nil {
			continue
		}
		applies := meta.Property == r.Prop
		for _, a := range meta.AlsoBreaks {
			if a == r.Prop {
				applies = true
			}
		}
		if !applies {
			continue
		}
		expect := meta.ExpectedDetect != nil && *meta.ExpectedDetect
		if meta.Property != r.Prop {
			expect = true
		}
		jobs = append(jobs, job{"seeded/" + e.Name(), "seeded", meta.Summary,
			[]string{"-with-patch", filepath.Join(sdir, e.Name(), "patch.diff"), "-property", r.Prop, "-tier", "quick", "-no-evidence"}, expect})
	}
	// behaviour-preserving refactors kept under /verif/benign/<id>/: negative controls, the check must stay silent
	bdir := filepath.Join(verifDir(), "benign")
	bents, _ := os.ReadDir(bdir)
	for _, e := range bents {
		if !e.IsDir() {
			continue
		}
		mb, err := os.ReadFile(filepath.Join(bdir, e.Name(), "meta.json"))
		if err != nil {
			continue
		}
		var meta seededMeta
		if json.Unmarshal(mb, &meta) != nil {
			continue
		}
		applies := meta.Property == r.Prop
		for _, a := range meta.AlsoBreaks {
			if a == r.Prop {
				applies = true
			}
		}
		if !applies {
			continue
		}
		jobs = append(jobs, job{"benign/" + e.Name(), "benign", meta.Summary,
			[]string{"-with-patch", filepath.Join(bdir, e.Name(), "patch.diff"), "-property", r.Prop, "-tier", "quick", "-no-evidence"}, false})
	}
	results := make([]mutantResult, len(jobs))
	sem := make(chan struct{}, 6)
	var wg sync.WaitGroup
	self, _ := os.Executable()
	for i, j := range jobs {
		wg.Add(1)
		go func(i int, j job) {
			defer wg.Done()
			sem <- struct{}{}
			defer func() { <-sem }()
			cmd := exec.Command(self, j.args...)
			cmd.Env = os.Environ()
			out, err := cmd.CombinedOutput()
			code := 0
			if ee, ok := err.(*exec.ExitError); ok {
				code = ee.ExitCode()
			} else if err != nil {
				code = 99
			}
			res := mutantResult{Name: j.name, Kind: j.kind, Why: j.why}
			firstViol := ""
			for _, l := range strings.Split(string(out), "\n") {
				if strings.HasPrefix(l, "  violated ") || strings.HasPrefix(l, "  mechanism-missing ") {
					firstViol = strings.TrimSpace(l)
					break
				}
			}
			switch {
			case j.kind == "benign" && code == 0:
				res.Outcome = "silent (as required)"
			case j.kind == "benign" && code == 1:
				res.Outcome = "FALSE-ALARM"
				res.Report = firstViol
			case code == 1:
				res.Outcome = "killed"
				res.Report = firstViol
			case code == 0:
				if j.expect {
					res.Outcome = "SURVIVED"
				} else {
					res.Outcome = "not-detected (recorded as outside the decided clause)"
				}
			case code == 3:
				res.Outcome = "skipped (pattern no longer applies)"
			default:
				res.Outcome = "invalid (does not type-check or checker error): " + lastLine(string(out))
			}
			results[i] = res
		}(i, j)
	}
	wg.Wait()
	broken := false
	killed, skipped := 0, 0
	for _, x := range results {
		switch {
		case x.Outcome == "killed":
			killed++
		case x.Outcome == "SURVIVED", x.Outcome == "FALSE-ALARM":
			broken = true
		case strings.HasPrefix(x.Outcome, "invalid"):
			broken = true
		case strings.HasPrefix(x.Outcome, "skipped"):
			skipped++
		}
	}
	sort.Slice(results, func(i, j int) bool { return results[i].Name < results[j].Name })
	for _, x := range results {
		fmt.Printf("  mutant %-40s %s\n", x.Name, x.Outcome)
	}
	return map[string]any{"mutants": results, "mutants_total": len(results), "mutants_killed": killed, "mutants_skipped": skipped}, broken
}

func lastLine(s string) string {
	ls := strings.Split(strings.TrimSpace(s), "\n")
	if len(ls) == 0 {
		return ""
	}
	l := ls[len(ls)-1]
	if len(l) > 300 {
		l = l[:300]
	}
	return l
}

// overlayFromPatch applies a unified diff (git diff format, paths relative to the repo root) in memory.
func overlayFromPatch(path string) (map[string][]byte, error) {
	pb, err := os.ReadFile(path)
	if err != nil {
		return nil, err
	}
	out := map[string][]byte{}
	lines := strings.Split(string(pb), "\n")
	i := 0
	for i < len(lines) {
		l := lines[i]
		if !strings.HasPrefix(l, "--- ") {
			i++
			continue
		}
		if i+1 >= len(lines) || !strings.HasPrefix(lines[i+1], "+++ ") {
			i++
			continue
		}
		oldp := strings.TrimPrefix(strings.Fields(l)[1], "a/")
		newp := strings.TrimPrefix(strings.Fields(lines[i+1])[1], "b/")
		i += 2
		var cur []string
		abs := filepath.Join(repoDir(), newp)
		if oldp != "/dev/null" {
			b, ok := out[abs]
			if !ok {
				var err error
				b, err = os.ReadFile(filepath.Join(repoDir(), oldp))
				if err != nil {
					return nil, err
				}
			}
			cur = strings.Split(string(b), "\n")
		}
		offset := 0
		for i < len(lines) && strings.HasPrefix(lines[i], "@@") {
			// @@ -a,b +c,d @@
			hdr := lines[i]
			parts := strings.Fields(hdr)
			if len(parts) < 3 {
				return nil, fmt.Errorf("bad hunk header %q", hdr)
			}
			oldStart, _ := parseRange(parts[1])
			i++
			var oldBlock, newBlock []string
			for i < len(lines) {
				h := lines[i]
				if strings.HasPrefix(h, "@@") || strings.HasPrefix(h, "diff ") || strings.HasPrefix(h, "--- ") {
					break
				}
				if strings.HasPrefix(h, "\\") {
					i++
					continue
				}
				if h == "" && i == len(lines)-1 {
					i++
					break
				}
				switch {
				case strings.HasPrefix(h, " "):
					oldBlock = append(oldBlock, h[1:])
					newBlock = append(newBlock, h[1:])
				case strings.HasPrefix(h, "-"):
					oldBlock = append(oldBlock, h[1:])
				case strings.HasPrefix(h, "+"):
					newBlock = append(newBlock, h[1:])
				case h == "":
					oldBlock = append(oldBlock, "")
					newBlock = append(newBlock, "")
				default:
					return nil, fmt.Errorf("bad hunk line %q", h)
				}
				i++
			}
			// locate oldBlock near oldStart-1+offset
			want := oldStart - 1 + offset
			if oldStart == 0 {
				want = 0
			}
			pos := -1
			for d := 0; d <= len(cur)+1 && pos < 0; d++ {
				for _, c := range []int{want - d, want + d} {
					if c >= 0 && c+len(oldBlock) <= len(cur) && equalLines(cur[c:c+len(oldBlock)], oldBlock) {
						pos = c
						break
					}
				}
			}
			if pos < 0 {
				return nil, fmt.Errorf("hunk %q does not apply to %s (tree differs from the one the patch was made for)", hdr, oldp)
			}
			nc := append([]string{}, cur[:pos]...)
			nc = append(nc, newBlock...)
			nc = append(nc, cur[pos+len(oldBlock):]...)
			offset += len(newBlock) - len(oldBlock)
			cur = nc
		}
		out[abs] = []byte(strings.Join(cur, "\n"))
	}
	if len(out) == 0 {
		return nil, fmt.Errorf("no file changes found in %s", path)
	}
	return out, nil
}

func equalLines(a, b []string) bool {
	for i := range a {
		if a[i] != b[i] {
			return false
		}
	}
	return true
}

func parseRange(s string) (int, int) {
	s = strings.TrimLeft(s, "-+")
	p := strings.SplitN(s, ",", 2)
	a, _ := strconv.Atoi(p[0])
	b := 1
	if len(p) == 2 {
		b, _ = strconv.Atoi(p[1])
	}
	return a, b
}
