package main

import (
	"fmt"
	"strings"

	"golang.org/x/tools/go/ssa"
)

const (
	pkgMempool = H + "/internal/mempool"
	pkgEmap    = H + "/internal/emap"
	pkgEheap   = H + "/internal/eheap"
	pkgHeap    = H + "/internal/heap"
)

func init() {
	register(&propDef{
		ID: "C23",
		Explain: "Decides the mempool's lock discipline (every bookkeeping field only under mu; unexported helpers only called with it held), that insertion and each of " +
			"the three removal paths update queue, expiry heap, per-sponsor count and byte size together, that admission skips streamed, duplicate, sponsor-limit and " +
			"size-limit cases on every path (including restores), and that streaming marks every popped item, FinishStreaming clears the marks before re-adding and " +
			"releases the stream lock. Not decided: hand-out order over operation histories.",
		Run: c23,
	})
	register(&propDef{
		ID: "C25",
		Explain: "Decides the eviction/admission predicates of the expiry-indexed structures (zero expiry and seen IDs skipped; SetMin evicts exactly entries with value " +
			"< t), the pairing of index structures (seen set <-> bucket <-> times map <-> heap; heap items <-> lookup map; Swap maintains both Index fields), the " +
			"lock discipline of EMap, and that heap removal uses the maintained index. The heap algorithm itself is delegated to container/heap under that contract. " +
			"Not decided: ordered-set semantics over all histories.",
		Run: c25,
	})
}

// sameConds: two effects are controlled by the same conditions (they happen together).
func sameConds(a, b *effect) bool {
	x, y := a.Conds(), b.Conds()
	if len(x) != len(y) {
		return false
	}
	for i := range x {
		if x[i] != y[i] {
			return false
		}
	}
	return true
}

func c23(r *Run) {
	w := r.W
	// expiry exactness is the expiry heap's (SetMin pops exactly the entries below the new minimum)
	defer r.importRules(c25, "C25.R1")
	MP := "(*" + pkgMempool + ".Mempool)."
	r.rule("C23.R1", "K4", "bookkeeping fields only under mu; helpers only with mu held", 30)
	r.rule("C23.R2", "K7", "insertion and the three removal paths update queue, heap, owned and pendingSize together", 4)
	r.rule("C23.R3", "K6", "admission guards of add hold on every path", 5)
	r.rule("C23.R4", "K7", "streaming marks every popped item; FinishStreaming clears before re-adding and releases the stream lock", 5)

	r.guardedBy(w, lockSpec{Rule: "C23.R1", Owner: pkgMempool + ".Mempool", Mutex: "mu", Pkgs: []string{pkgMempool},
		Fields:       []string{"pendingSize", "queue", "eh", "owned", "streamedItems", "nextStream", "nextStreamFetched"},
		HeldByCaller: map[string]int{MP + "add": 2, MP + "popNext": 2, MP + "streamItems": 2, MP + "removeFromOwned": 2},
		MinSites:     30})

	add := r.fn(w, "C23.R2", MP+"add")
	if add != nil {
		push := append(findEffects(add, "call (*internal/list.List).PushBack(p0.queue, *)"), findEffects(add, "call (*internal/list.List).PushFront(p0.queue, *)")...)
		eh := findEffects(add, "call (*internal/eheap.ExpiryHeap).Add(p0.eh, *)")
		ow := findEffects(add, "mapupdate p0.owned[*] = (1 + p0.owned[*])")
		if len(ow) == 0 {
			ow = findEffects(add, "mapupdate p0.owned[*] = (p0.owned[*] + 1)")
		}
		sz := findEffects(add, "store p0.pendingSize = (* + p0.pendingSize)")
		if len(sz) == 0 {
			sz = findEffects(add, "store p0.pendingSize = (p0.pendingSize + *)")
		}
		okk := len(push) == 2 && len(eh) == 1 && len(ow) == 1 && len(sz) == 1
		if okk {
			okk = sameConds(eh[0], ow[0]) && sameConds(eh[0], sz[0])
			for _, p := range push {
				if !alwaysFollowedBy(p.Ins, eh[0].Ins) {
					okk = false
				}
			}
			// the heap entry is the queue element just pushed
			okk = okk && strings.Contains(eh[0].Str, "phi((*internal/list.List).PushBack(") || strings.Contains(eh[0].Str, "PushFront(")
		}
		r.check(okk, "C23.R2", "add:queue+heap+owned+size", w.rel(add.Pos()), "", "insertion does not push to the queue, add to the expiry heap, count the sponsor and add the size together")

		// R3: guards
		if len(eh) == 1 {
			cs := eh[0].Conds()
			want := map[string]string{
				"duplicate":     "!(*internal/eheap.ExpiryHeap).Has(p0.eh, *)",
				"sponsor-limit": "p0.maxSponsorSize != p0.owned[*]",
				"size-limit":    "(*internal/list.List).Size(p0.queue) != p0.maxSize",
			}
			for label, pat := range want {
				r.check(hasMatch(cs, pat), "C23.R3", "add:"+label, r.at(w, eh[0].Ins), pat, "an item can be inserted without the "+label+" check having passed (it does not control the insertion on every path): {"+strings.Join(cs, " ; ")+"}")
			}
			// streamed items: from the edge on which streamedItems.Contains(id) is true the insertion is not reachable within the iteration
			okS := false
			h, _ := innermostLoop(eh[0].Ins.Block())
			for _, b := range add.Blocks {
				ifi, ok := b.Instrs[len(b.Instrs)-1].(*ssa.If)
				if !ok || !glob("(*ago/utils/set.Set).Contains(p0.streamedItems, *)", predString(ifi.Cond, true)) {
					continue
				}
				tgt := b.Succs[0]
				found, _ := pathExists(point{tgt, 0}, isInstr(eh[0].Ins), func(i ssa.Instruction) bool { return h != nil && i.Block() == h && instrIndex(i) == 0 }, nil)
				okS = !found && dominatesI(ifi, eh[0].Ins) || !found && hasMatch(condStrings(ctrlConds(b)), "*p0.streamedItems*")
				if !found {
					okS = true
				}
			}
			r.check(okS, "C23.R3", "add:streamed-skipped", r.at(w, eh[0].Ins), "", "an item handed out in the current stream can be re-added before the stream finishes")
			// the ID tested is the item's ID
			sameItem := false
		for _, hc := range callsNamed(add, "(*"+H+"/internal/eheap.ExpiryHeap).Has") {
			if gid, ok := strip(hc.Common().Args[1]).(*ssa.Call); ok && strings.HasSuffix(calleeName(gid), ".GetID") {
				for _, pb := range callsTo(add, func(n string) bool { return strings.HasSuffix(n, "internal/list.List).PushBack") || strings.HasSuffix(n, "internal/list.List).PushFront") }) {
					if sameValue(callArgs(gid)[0], pb.Common().Args[1]) {
						sameItem = true
					}
				}
			}
		}
		r.check(sameItem && hasMatch(cs, "!(*internal/eheap.ExpiryHeap).Has(p0.eh, (*).GetID(*))"), "C23.R3", "add:duplicate-check-on-item-id", r.at(w, eh[0].Ins), "", "the duplicate check is not applied to the item's own ID")
		}
	}
	type rm struct{ fn, q, h string }
	for _, x := range []rm{
		{"popNext", "call (*internal/list.List).Remove(p0.queue, (*internal/list.List).First(p0.queue))", "call (*internal/eheap.ExpiryHeap).Remove(p0.eh, *)"},
		{"Remove", "call (*internal/list.List).Remove(p0.queue, (*internal/eheap.ExpiryHeap).Remove(p0.eh, *)#0)", "call (*internal/eheap.ExpiryHeap).Remove(p0.eh, *)"},
		{"SetMinTimestamp", "call (*internal/list.List).Remove(p0.queue, (*internal/eheap.ExpiryHeap).SetMin(p0.eh, p2)[*])", "call (*internal/eheap.ExpiryHeap).SetMin(p0.eh, p2)"},
	} {
		f := r.fn(w, "C23.R2", MP+x.fn)
		if f == nil {
			continue
		}
		q := findEffects(f, x.q)
		hp := findEffects(f, x.h)
		ow := findEffects(f, "call (*internal/mempool.Mempool).removeFromOwned(p0, *)")
		sz := findEffects(f, "store p0.pendingSize = (p0.pendingSize - *)")
		okk := len(q) == 1 && len(hp) == 1 && len(ow) == 1 && len(sz) == 1
		if okk {
			okk = sameConds(q[0], ow[0]) && sameConds(q[0], sz[0])
			if x.fn == "popNext" {
				okk = okk && sameConds(q[0], hp[0])
			}
		}
		r.check(okk, "C23.R2", x.fn+":queue+heap+owned+size", w.rel(f.Pos()), "", x.fn+" does not remove from queue and heap, uncount the sponsor and subtract the size together")
	}

	// R4
	r.streamMarks("C23.R4")
}

// streamMarks: every item handed out by the mempool during a stream is marked as streamed (so it cannot be re-added and
// handed out again before the stream finishes), and every hand-out path goes through the marking helper.
func (r *Run) streamMarks(rule string) {
	w := r.W
	MP := "(*" + pkgMempool + ".Mempool)."
	si := r.fn(w, rule, MP+"streamItems")
	if si != nil {
		mk := findEffects(si, "call (*ago/utils/set.Set).Add(p0.streamedItems, [(*).GetID((*internal/mempool.Mempool).popNext(p0)#0)])")
		ap := findEffects(si, "call builtin.append(*, [(*internal/mempool.Mempool).popNext(p0)#0])")
		okk := len(mk) == 1 && len(ap) == 1
		if okk {
			cs := mk[0].Conds()
			okk = sameConds(mk[0], ap[0]) && len(cs) == 2 && hasStr(cs, "(*internal/mempool.Mempool).popNext(p0)#1")
		}
		detail := "streamItems does not mark every popped item as streamed"
		if len(mk) == 1 {
			detail += ": marking is controlled by {" + strings.Join(mk[0].Conds(), " ; ") + "}"
		}
		r.check(okk, rule, "streamItems:mark-every-popped", w.rel(si.Pos()), "every popped item is marked and returned, unconditionally", detail)
	}
	// every hand-out path goes through streamItems: Stream and PrepareStream
	for _, nm := range []string{"Stream", "PrepareStream"} {
		f := r.fn(w, rule, MP+nm)
		if f == nil {
			continue
		}
		r.check(len(callsNamed(f, MP+"streamItems")) == 1 && len(callsNamed(f, MP+"popNext")) == 0, rule, nm+":hands-out-through-streamItems", w.rel(f.Pos()), "", nm+" hands out items without going through streamItems")
	}
	fs := r.fn(w, rule, MP+"FinishStreaming")
	if fs != nil {
		clr := findEffects(fs, "store p0.streamedItems = nil*")
		adds := findEffects(fs, "call (*internal/mempool.Mempool).add(p0, *, true)")
		ul := findEffects(fs, "call (*sync.Mutex).Unlock(p0.streamLock)")
		okk := len(clr) == 1 && len(adds) == 2 && len(ul) == 1
		if okk {
			for _, a := range adds {
				okk = okk && dominatesI(clr[0].Ins, a.Ins)
			}
			okp, _ := mustPass(entry(fs), isReturn, isInstr(ul[0].Ins))
			okk = okk && okp
			// the prefetched batch is restored too
			var pre, given *effect
			for _, a := range adds {
				if strings.Contains(a.Str, "p0.nextStream") {
					pre = a
				} else if strings.Contains(a.Str, "add(p0, p2, true)") {
					given = a
				}
			}
			okk = okk && pre != nil && given != nil && hasStr(pre.Conds(), "p0.nextStreamFetched") && len(given.Conds()) == 0
			if pre != nil && given != nil {
				// front insertion: what is restored last ends up first. The given-back items must be handed out first,
				// so the prefetched (later arrived) batch is restored before them
				found, _ := pathExists(after(given.Ins), isInstr(pre.Ins), nil, nil)
				r.check(!found, rule, "FinishStreaming:prefetched-restored-before-given-back", r.at(w, given.Ins), "", "the prefetched batch is pushed to the front after the given-back items: later arrivals are handed out before the items given back after the build")
			}
		}
		r.check(okk, rule, "FinishStreaming:clear-then-restore-then-unlock", w.rel(fs.Pos()), "", "FinishStreaming does not clear the streamed marks before restoring (given and prefetched items) and release the stream lock on every exit")
	}
	ss := r.fn(w, rule, MP+"StartStreaming")
	if ss != nil {
		lk := findEffects(ss, "call (*sync.Mutex).Lock(p0.streamLock)")
		nw := findEffects(ss, "store p0.streamedItems = ago/utils/set.NewSet(*)")
		r.check(len(lk) == 1 && len(nw) == 1, rule, "StartStreaming:lock+fresh-marks", w.rel(ss.Pos()), "", "StartStreaming does not take the stream lock and start with an empty mark set")
		// lock order: FinishStreaming releases the stream lock while holding mu, so waiting for the stream lock with mu held deadlocks
		mul := findEffects(ss, "call (*sync.RWMutex).Lock(p0.mu)")
		if len(lk) == 1 && len(mul) == 1 {
			found, _ := pathExists(after(mul[0].Ins), isInstr(lk[0].Ins), nil, nil)
			r.check(!found, rule, "StartStreaming:stream-lock-before-mu", r.at(w, lk[0].Ins), "", "StartStreaming waits for the stream lock while holding mu; FinishStreaming needs mu to release the stream lock: a second StartStreaming before the previous FinishStreaming blocks the mempool forever")
		}
	}
	// a prefetch outside a stream takes nothing out of the mempool
	if ps := r.fn(w, rule, MP+"PrepareStream"); ps != nil {
		es := findEffects(ps, "call (*internal/mempool.Mempool).streamItems(p0, p2*")
		r.check(len(es) == 1 && (hasStr(es[0].Conds(), "nil != p0.streamedItems") || hasStr(es[0].Conds(), "p0.streamedItems != nil")), rule, "PrepareStream:only-during-a-stream", w.rel(ps.Pos()), "", "PrepareStream pops items although no stream is active: they are neither held nor handed out and cannot be re-added")
	}
	// front insertion keeps the order of the restored block
	if ad := r.fn(w, rule, MP+"add"); ad != nil {
		pf := findEffects(ad, "call (*internal/list.List).PushFront(p0.queue, *)")
		okk := len(pf) == 1
		if okk {
			okk = false
			item := pf[0].Ins.(ssa.CallInstruction).Common().Args[1]
			if mi, ok := item.(*ssa.MakeInterface); ok {
				item = mi.X
			}
			if phi, ok := item.(*ssa.Phi); ok {
				// the value chosen under "front" is the element counted from the end of the block
				for i, e := range phi.Edges {
					pred := phi.Block().Preds[i]
					si := 0
					for k, s := range pred.Succs {
						if s == phi.Block() {
							si = k
						}
					}
					pc := condStrings(ctrlCondsEdge(pred, si))
					if hasStr(pc, "p2") && strings.HasPrefix(term(e), "p1[((builtin.len(p1) - 1) - ") {
						okk = true
					}
				}
			} else if t := term(item); strings.HasPrefix(t, "p1[((builtin.len(p1) - 1) - ") {
				okk = true
			}
		}
		r.check(okk, rule, "add:front-insertion-keeps-block-order", w.rel(ad.Pos()), "", "items restored to the front are pushed one by one in forward order, which reverses them: given-back items are no longer handed out in arrival order")
	}
}

func c25(r *Run) {
	w := r.W
	EM := "(*" + pkgEmap + ".EMap)."
	r.rule("C25.R1", "K6", "admission/eviction predicates", 4)
	r.rule("C25.R2", "K7", "index pairing in emap and inner heap", 6)
	r.rule("C25.R3", "K4", "EMap fields under mu", 8)
	r.rule("C25.R4", "K5", "ExpiryHeap.Remove uses the entry's maintained index", 2)

	// R4 (producer side): Remove deletes the position recorded in the entry, so Add has to record the position the
	// entry is pushed at (Swap only repairs entries that move)
	if ea := r.fn(w, "C25.R4", "(*"+H+"/internal/eheap.ExpiryHeap).Add"); ea != nil {
		ix := findEffects(ea, "store alloc(complit).Index = (*internal/heap.Heap).Len(p0.minHeap)")
		ps := findEffects(ea, "call (*internal/heap.Heap).Push(p0.minHeap, alloc(complit))")
		r.check(len(ix) == 1 && len(ps) == 1 && dominatesI(ix[0].Ins, ps[0].Ins) && len(ix[0].Conds()) == 0, "C25.R4", "ExpiryHeap.Add:entry-records-its-position", w.rel(ea.Pos()), "", "ExpiryHeap.Add does not record the position the entry is pushed at (Index = heap length before the push): Remove of an entry that never moved deletes position 0, the minimum, instead")
	}
	ad := r.fn(w, "C25.R1", EM+"add")
	if ad != nil {
		sa := findEffects(ad, "call (*ago/utils/set.Set).Add(p0.seen, [p1])")
		okk := len(sa) == 1
		if okk {
			cs := sa[0].Conds()
			okk = hasStr(cs, "0 != p2") && hasStr(cs, "!(*ago/utils/set.Set).Contains(p0.seen, p1)") && len(cs) == 2
		}
		r.check(okk, "C25.R1", "emap.add:skip-zero-and-seen", w.rel(ad.Pos()), "", "emap.add does not skip exactly zero expiries and already-seen IDs")
		// pairing: after seen.Add either the bucket append, or new bucket + times + heap push
		ap := findEffects(ad, "store p0.times[p2]#0.items = builtin.append(p0.times[p2]#0.items, [p1])")
		tm := findEffects(ad, "mapupdate p0.times[p2] = alloc(complit)")
		ps := findEffects(ad, "call (*internal/heap.Heap).Push(p0.bh, alloc(complit))")
		okk = len(sa) == 1 && len(ap) == 1 && len(tm) == 1 && len(ps) == 1
		if okk {
			okk = hasStr(ap[0].Conds(), "p0.times[p2]#1") && hasStr(tm[0].Conds(), "!p0.times[p2]#1") && sameConds(tm[0], ps[0]) && dominatesI(sa[0].Ins, ap[0].Ins) && dominatesI(sa[0].Ins, tm[0].Ins)
			// every path after seen.Add reaches one of the two
			found, _ := pathExists(after(sa[0].Ins), isReturn, isAnyInstr(ap[0].Ins, ps[0].Ins), nil)
			okk = okk && !found
		}
		r.check(okk, "C25.R2", "emap.add:seen<->bucket<->times<->heap", w.rel(ad.Pos()), "", "emap.add does not record the ID in the seen set together with its bucket (existing bucket append, or new bucket + times entry + heap push)")
		// bucket fields: t and items=[id], heap entry Val = t
		r.requireEffect(w, "C25.R2", "emap.add:heap-entry-value-is-expiry", ad, "store alloc(complit).Val = p2")
	}
	sm := r.fn(w, "C25.R1", EM+"SetMin")
	if sm != nil {
		pop := findEffects(sm, "call (*internal/heap.Heap).Pop(p0.bh)")
		okk := len(pop) == 1
		if okk {
			cs := pop[0].Conds()
			okk = hasMatch(cs, "(*internal/heap.Heap).First(p0.bh).Val < p1") && hasMatch(cs, "nil != (*internal/heap.Heap).First(p0.bh)") || hasMatch(cs, "(*internal/heap.Heap).First(p0.bh).Val < p1") && hasMatch(cs, "(*internal/heap.Heap).First(p0.bh) != nil")
		}
		detail := ""
		if len(pop) == 1 {
			detail = strings.Join(pop[0].Conds(), " ; ")
		}
		r.check(okk, "C25.R1", "EMap.SetMin:evict-iff-below", w.rel(sm.Pos()), "", "EMap.SetMin does not evict exactly the buckets whose value is < t: {"+detail+"}")
		rm := findEffects(sm, "call (*ago/utils/set.Set).Remove(p0.seen, [(*internal/heap.Heap).First(p0.bh).Item.items[*]])")
		dl := findEffects(sm, "call builtin.delete(p0.times, (*internal/heap.Heap).First(p0.bh).Val)")
		okk = len(pop) == 1 && len(rm) == 1 && len(dl) == 1
		if okk {
			okk = alwaysFollowedBy(pop[0].Ins, dl[0].Ins)
			h, _ := innermostLoop(rm[0].Ins.Block())
			okk = okk && h != nil && loopExitsOnlyAtHeader(h)
			// evicted list gets every id
			okk = okk && len(findEffects(sm, "call builtin.append(*, [(*internal/heap.Heap).First(p0.bh).Item.items[*]])")) == 1
		}
		r.check(okk, "C25.R2", "EMap.SetMin:bucket-ids<->seen<->times", w.rel(sm.Pos()), "", "evicting a bucket does not remove every ID from the seen set, report it, and delete the times entry")
	}
	es := r.fn(w, "C25.R1", "(*"+pkgEheap+".ExpiryHeap).SetMin")
	if es != nil {
		pm := findEffects(es, "call (*internal/eheap.ExpiryHeap).PopMin(p0)")
		okk := len(pm) == 1 && hasMatch(pm[0].Conds(), "(*).GetExpiry((*internal/eheap.ExpiryHeap).PeekMin(p0)#0) < p1") && hasStr(pm[0].Conds(), "(*internal/eheap.ExpiryHeap).PeekMin(p0)#1")
		r.check(okk, "C25.R1", "ExpiryHeap.SetMin:pop-iff-below", w.rel(es.Pos()), "", "ExpiryHeap.SetMin does not pop exactly the entries whose expiry is < val")
		ap := findEffects(es, "call builtin.append(*, [(*internal/eheap.ExpiryHeap).PeekMin(p0)#0])")
		r.check(len(ap) == 1 && len(pm) == 1 && sameConds(ap[0], pm[0]), "C25.R1", "ExpiryHeap.SetMin:returns-every-popped", w.rel(es.Pos()), "", "ExpiryHeap.SetMin does not return every popped entry")
	}
	// inner heap pairing
	IH := "(*" + pkgHeap + ".innerHeap)."
	if f := r.fn(w, "C25.R2", IH+"Push"); f != nil {
		a := findEffects(f, "store p0.items = builtin.append(p0.items, [*])")
		l := findEffects(f, "mapupdate p0.lookup[*.ID] = *")
		okk := len(a) == 1 && len(l) == 1 && sameConds(a[0], l[0]) && hasMatch(a[0].Conds(), "!(*internal/heap.innerHeap).Has(p0, *.ID)")
		r.check(okk, "C25.R2", "innerHeap.Push:items<->lookup", w.rel(f.Pos()), "", "innerHeap.Push does not append to items and register in lookup together, skipping known IDs")
	}
	if f := r.fn(w, "C25.R2", IH+"Pop"); f != nil {
		tr := findEffects(f, "store p0.items = p0.items[0:(builtin.len(p0.items) - 1)]")
		if len(tr) == 0 {
			tr = findEffects(f, "store p0.items = p0.items[:(builtin.len(p0.items) - 1)]") // the same slice with the zero bound left out
		}
		dl := findEffects(f, "call builtin.delete(p0.lookup, p0.items[(builtin.len(p0.items) - 1)].ID)")
		r.check(len(tr) == 1 && len(dl) == 1 && sameConds(tr[0], dl[0]), "C25.R2", "innerHeap.Pop:truncate<->delete-lookup", w.rel(f.Pos()), "", "innerHeap.Pop does not truncate items and delete the lookup entry together")
	}
	if f := r.fn(w, "C25.R2", IH+"Swap"); f != nil {
		i1 := findEffects(f, "store p0.items[p1].Index = p1")
		i2 := findEffects(f, "store p0.items[p2].Index = p2")
		r.check(len(i1) == 1 && len(i2) == 1, "C25.R2", "innerHeap.Swap:maintains-both-indices", w.rel(f.Pos()), "", "innerHeap.Swap does not rewrite the Index field of both swapped entries")
	}
	// R3
	r.guardedBy(w, lockSpec{Rule: "C25.R3", Owner: pkgEmap + ".EMap", Fields: []string{"bh", "seen", "times"}, Mutex: "mu", Pkgs: []string{pkgEmap},
		HeldByCaller: map[string]int{EM + "add": 2}, MinSites: 8})
	// R4
	if f := r.fn(w, "C25.R4", "(*"+pkgEheap+".ExpiryHeap).Remove"); f != nil {
		es := findEffects(f, "call (*internal/heap.Heap).Remove(p0.minHeap, (*internal/heap.Heap).Get(p0.minHeap, p1)#0.Index)")
		r.check(len(es) == 1 && hasStr(es[0].Conds(), "(*internal/heap.Heap).Get(p0.minHeap, p1)#1"), "C25.R4", "ExpiryHeap.Remove:by-maintained-index", w.rel(f.Pos()), "", "ExpiryHeap.Remove does not remove the entry at its maintained Index after a successful lookup")
	}
	if f := r.fn(w, "C25.R4", "(*"+pkgEheap+".ExpiryHeap).Add"); f != nil {
		es := findEffects(f, "store alloc(complit).Val = (*).GetExpiry(p1)")
		es2 := findEffects(f, "store alloc(complit).ID = (*).GetID(p1)")
		r.check(len(es) == 1 && len(es2) == 1, "C25.R4", "ExpiryHeap.Add:entry=(id,expiry)", w.rel(f.Pos()), "", fmt.Sprintf("ExpiryHeap.Add does not key the entry by the item's ID and prioritise by its expiry (%d/%d)", len(es), len(es2)))
	}
	// R5: heap order is maintained only by container/heap: nobody else calls the raw interface methods or writes the item slice
	r.rule("C25.R5", "K3", "innerHeap's Swap/Push/Pop are called only through container/heap; its item slice and lookup map are written only by those methods", 4)
	const pkgHeap = H + "/internal/heap"
	raw := map[string]bool{"(*" + pkgHeap + ".innerHeap).Swap": true, "(*" + pkgHeap + ".innerHeap).Push": true, "(*" + pkgHeap + ".innerHeap).Pop": true}
	nDirect := 0
	for _, fn := range w.srcFns {
		for _, c := range callsTo(fn, func(n string) bool { return raw[n] }) {
			nDirect++
			r.bad("C25.R5", short(fnName(fn))+":direct-"+short(calleeName(c)), r.at(w, c), "the heap's raw "+short(calleeName(c))+" is called outside container/heap: the moved element is not sifted, the minimum is no longer at the root")
		}
	}
	if nDirect == 0 {
		r.ok("C25.R5", "no-direct-raw-heap-calls", pkgHeap, "no call of innerHeap.Swap/Push/Pop in the module")
	}
	for _, nm := range []string{"Push", "Pop", "Remove"} {
		f := r.fn(w, "C25.R5", "(*"+pkgHeap+".Heap)."+nm)
		if f == nil {
			continue
		}
		cs := callsTo(f, func(n string) bool { return n == "container/heap."+nm })
		okk := len(cs) == 1
		if okk {
			// every non-nil result comes from the container/heap call
			for _, o := range returnOutcomes(f) {
				if len(o.Vals) == 1 && term(o.Vals[0]) != "nil" && !derivesFrom(o.Vals[0], func(v ssa.Value) bool { return v == ssa.Value(cs[0].Value()) }) {
					okk = false
				}
			}
		}
		r.check(okk, "C25.R5", "Heap."+nm+":through-container/heap", w.rel(f.Pos()), "container/heap."+nm, "Heap."+nm+" does not go through container/heap."+nm+" on every path that changes the heap")
	}
	for _, fn := range w.FnsInPkg(pkgHeap) {
		name := fnName(fn)
		if raw[name] || name == pkgHeap+".newInnerHeap" {
			continue
		}
		for _, fld := range []string{"items", "lookup"} {
			if n := len(fieldStores(fn, pkgHeap+".innerHeap", fld)); n > 0 {
				r.bad("C25.R5", short(name)+":writes-"+fld, w.rel(fn.Pos()), "innerHeap."+fld+" is written outside Swap/Push/Pop")
			}
		}
		for _, e := range effectsOf(fn) {
			if strings.HasPrefix(e.Str, "mapupdate p0.lookup[") || strings.HasPrefix(e.Str, "call builtin.delete(p0.lookup") || strings.HasPrefix(e.Str, "mapupdate p0.ih.lookup[") {
				r.bad("C25.R5", short(name)+":writes-lookup", r.at(w, e.Ins), "innerHeap.lookup is written outside Swap/Push/Pop")
			}
		}
	}
}
