package main

import (
	"fmt"
	"go/types"
	"strings"

	"golang.org/x/tools/go/ssa"
)

const (
	pkgCodec = H + "/codec"
	pkgAuth  = H + "/auth"
)

func init() {
	register(&propDef{
		ID: "C14",
		Explain: "Decides that the fee estimator budgets the encoder's per-element overhead (each action and the auth are counted with their tag and length prefix, " +
			"not only their payload length), that estimator and meter use the same rule getters and compute-unit calls per dimension, that the generated maximum fee " +
			"is MulSum(unit prices, estimate), and that every auth factory reports the scheme's encoded size and compute units. Not decided: numeric comparison of " +
			"estimate and actual units for concrete transactions.",
		Run: c14,
	})
	register(&propDef{
		ID: "C15",
		Explain: "Decides that every decoder registered with a TypeParser (root module, test support package and reference VM) accepts only input it consumes entirely " +
			"(fixed-size check, whole-input comparison, or an offset == length test after a streaming decode), that transaction and block IDs are the hash of exactly " +
			"the bytes kept as their encoding, that the signed message is the encoding minus the auth suffix (auth has the highest field number, bounds checked), " +
			"that nil list elements are rejected and that decoding contexts carry the parser. Not decided: canonicity of the third-party canoto wire format.",
		Run: c15,
	})
	register(&propDef{
		ID: "C17",
		Explain: "Decides the address-binding and encoding clauses for every auth scheme (one type-ID constant used by GetTypeID, the encoder's first byte, the decoder's " +
			"check and the address constructor; address = CreateAddress(ID, hash(public key)); Actor and Sponsor return it; encoder and decoder use the same offsets and " +
			"the decoder requires the exact size) and that secp256r1 verification rejects non-normalised S and undecodable keys before ecdsa.Verify. NOT decided: " +
			"cryptographic non-malleability of the signature schemes themselves (curve arithmetic in third-party libraries).",
		Run: c17,
	})
	register(&propDef{
		ID: "C28",
		Explain: "Decides that every copy into a fixed-size Address from a slice of unknown length is guarded by a length == AddressLen test (so parsing accepts exactly one " +
			"full-length address), that the checksum decoder returns a payload only when the recomputed checksum matched and the input was long enough, and that encoder " +
			"and decoder agree on checksum length and prefix handling. Not decided: hex codec behaviour (standard library).",
		Run: c28,
	})
}

// ----------------------------------------------------------------------------- C28

func isAddressArray(t types.Type) bool {
	if p, ok := t.Underlying().(*types.Pointer); ok {
		t = p.Elem()
	}
	n, ok := t.(*types.Named)
	return ok && n.Obj().Pkg() != nil && n.Obj().Pkg().Path() == pkgCodec && n.Obj().Name() == "Address"
}

func c28(r *Run) {
	w := r.W
	r.rule("C28.R1", "K13", "copies into an Address from a slice are guarded by len == AddressLen", 2)
	r.rule("C28.R2", "K1", "fromChecksum returns the payload only after length and checksum checks", 2)
	r.rule("C28.R3", "K12", "encoder/decoder agree on checksum length and prefix", 2)
	n := 0
	for _, fn := range w.srcFns {
		if fn.Pkg == nil || fn.Pkg.Pkg.Path() != pkgCodec {
			continue
		}
		for _, c := range callsNamed(fn, "builtin.copy") {
			a := c.Common().Args
			sl, ok := a[0].(*ssa.Slice)
			if !ok || !isAddressArray(sl.X.Type()) {
				continue
			}
			if _, isSlice := a[1].Type().Underlying().(*types.Slice); !isSlice {
				continue
			}
			n++
			r.saw(fn)
			src := term(a[1])
			cs := condStrings(ctrlConds(c.Block()))
			okk := hasStr(cs, "33 == builtin.len("+src+")") || hasStr(cs, "builtin.len("+src+") == 33")
			if glob("(*ago/utils/wrappers.Packer).UnpackFixedBytes(*, 33)", src) {
				okk = true // the callee returns exactly the requested number of bytes (or sets the packer's error and nil)
			}
			r.check(okk, "C28.R1", short(fnName(fn))+":copy-into-Address", r.at(w, c), "guarded by len("+src+") == AddressLen",
				"copy into a fixed-size Address from "+src+" without a length == AddressLen guard: a shorter payload yields a partly zero address, a longer one is truncated")
		}
	}
	ut := r.fn(w, "C28.R1", "(*"+pkgCodec+".Address).UnmarshalText")
	if ut != nil {
		// the address assigned derives from ToAddress on the decoded payload (or from a guarded copy counted above)
		ta := callsNamed(ut, pkgCodec+".ToAddress")
		fc := callsNamed(ut, pkgCodec+".fromChecksum")
		okk := len(fc) == 1
		if okk && len(ta) == 1 {
			okk = glob("codec.fromChecksum(string(p1))#0", term(ta[0].Common().Args[0]))
			st := findEffects(ut, "store p0 = codec.ToAddress(*)#0")
			okk = okk && len(st) == 1 && onlyViaSuccess(ta[0], st[0].Ins, true) && onlyViaSuccess(fc[0], ta[0], true)
		} else if okk {
			// direct copy variant: must have been counted and discharged above
			okk = len(callsNamed(ut, "builtin.copy")) > 0
		}
		r.check(okk, "C28.R1", "UnmarshalText:address-from-length-checked-payload", w.rel(ut.Pos()), "", "UnmarshalText does not assign the address from the checksum-verified, length-checked payload")
		n++
	}
	if n < 2 {
		r.missing("C28.R1", "sites", "expected at least ToAddress and UnmarshalText")
	}
	fcf := r.fn(w, "C28.R2", pkgCodec+".fromChecksum")
	if fcf != nil {
		var okRet, short_, bad bool
		for _, o := range returnOutcomes(fcf) {
			if hasStr(o.Sentinels, "nil") {
				okRet = hasMatch(o.Conds, "bytes.Equal(*[(builtin.len(*) - 4):], ago/utils/hashing.Checksum(*[:(builtin.len(*) - 4)], 4))") && hasMatch(o.Conds, "4 <= builtin.len(*)") &&
					len(o.Vals) == 2 && glob("*[:(builtin.len(*) - 4)]", term(o.Vals[0]))
			}
			if hasStr(o.Sentinels, "codec.ErrMissingChecksum") && hasMatch(o.Conds, "builtin.len(*) < 4") {
				short_ = true
			}
			if hasStr(o.Sentinels, "codec.ErrBadChecksum") && hasMatch(o.Conds, "!bytes.Equal(*") {
				bad = true
			}
		}
		r.check(okRet, "C28.R2", "fromChecksum:payload-only-after-checks", w.rel(fcf.Pos()), "", "fromChecksum can return a payload whose checksum was not compared (or without the length check)")
		r.check(short_ && bad, "C28.R2", "fromChecksum:error-cases", w.rel(fcf.Pos()), "", "fromChecksum does not reject short input and checksum mismatch")
		// the hex decoding may be delegated to the package's LoadHex helper (with no size expectation)
		decFn := fcf
		if lh := callsNamed(fcf, pkgCodec+".LoadHex"); len(lh) == 1 && len(callsNamed(fcf, "encoding/hex.DecodeString")) == 0 {
			r.failureLeadsToErrorReturn(w, "C28.R2", "fromChecksum:LoadHex-error-returned", lh[0])
			r.check(term(lh[0].Common().Args[0]) == "p0" && term(lh[0].Common().Args[1]) == "-1", "C28.R2", "fromChecksum:LoadHex(input, any size)", r.at(w, lh[0]), "", "fromChecksum does not decode its whole input")
			if f := w.Fn(pkgCodec + ".LoadHex"); f != nil {
				decFn = f
				r.saw(f)
			}
		}
		dcs := callsNamed(decFn, "encoding/hex.DecodeString")
		if len(dcs) == 1 {
			r.failureLeadsToErrorReturn(w, "C28.R2", "fromChecksum:invalid-hex-rejected", dcs[0])
			// the digits decoded are the input's digits: the input itself or the input without its two-character prefix,
			// never padded, trimmed or otherwise rewritten (hex.DecodeString then rejects odd lengths and non-hex digits)
			okD, strips := true, false
			var walk func(v ssa.Value, seen map[ssa.Value]bool)
			walk = func(v ssa.Value, seen map[ssa.Value]bool) {
				if seen[v] {
					return
				}
				seen[v] = true
				switch x := v.(type) {
				case *ssa.Parameter:
					if x != decFn.Params[0] {
						okD = false
					}
				case *ssa.Phi:
					for _, e := range x.Edges {
						walk(e, seen)
					}
				case *ssa.Slice:
					if x.X == ssa.Value(decFn.Params[0]) && x.Low != nil && term(x.Low) == "2" && x.High == nil {
						strips = true
					} else {
						okD = false
					}
				default:
					okD = false
				}
			}
			walk(dcs[0].Common().Args[0], map[ssa.Value]bool{})
			r.check(okD, "C28.R2", "fromChecksum:digits-decoded-unaltered", r.at(w, dcs[0]), "input or input[2:]", "the text handed to hex.DecodeString is not the input (minus its 0x prefix): padded or rewritten digits let strings that are not an address's encoding parse")
			r.check(strips, "C28.R3", "fromChecksum:strips-0x", r.at(w, dcs[0]), "", "the decoder does not handle the 0x prefix the encoder writes")
		} else {
			r.missing("C28.R2", "fromChecksum:hex-decode", "expected one hex.DecodeString call in fromChecksum or codec.LoadHex")
		}
	}
	enc := r.fn(w, "C28.R3", pkgCodec+".encodeWithChecksum")
	if enc != nil {
		cs := findEffects(enc, "call ago/utils/hashing.Checksum(p0, 4)")
		pre := false
		for _, o := range returnOutcomes(enc) {
			if len(o.Vals) == 1 && strings.HasPrefix(term(o.Vals[0]), "(\"0x\" + encoding/hex.EncodeToString(") {
				pre = true
			}
		}
		r.check(len(cs) == 1 && pre, "C28.R3", "encodeWithChecksum:checksum(payload,4)+0x", w.rel(enc.Pos()), "", "the encoder does not append the 4-byte checksum of the payload and prefix 0x")
	}
}

// ----------------------------------------------------------------------------- C17

func c17(r *Run) {
	w := r.W
	r.rule("C17.R1", "K12", "one type-ID constant per scheme; address = CreateAddress(ID, hash(pk)); Actor/Sponsor return it", 13)
	r.rule("C17.R2", "K12", "encoder/decoder offsets agree; decoder requires exact size", 6)
	r.rule("C17.R3", "K1", "secp256r1: normalised-S and key decoding checked before ecdsa.Verify", 2)
	consts := map[string]string{}
	if p := w.Pkgs[pkgAuth]; p != nil {
		for _, n := range []string{"ED25519ID", "SECP256R1ID", "BLSID", "ED25519Size", "SECP256R1Size", "BLSSize"} {
			if c, ok := p.Types.Scope().Lookup(n).(*types.Const); ok {
				consts[n] = c.Val().ExactString()
			}
		}
	}
	for _, s := range []struct{ typ, id, size, pkBytes, ctor string }{
		{"ED25519", "ED25519ID", "ED25519Size", "p0[:]", "NewED25519Address"},
		{"SECP256R1", "SECP256R1ID", "SECP256R1Size", "p0[:]", "NewSECP256R1Address"},
		{"BLS", "BLSID", "BLSSize", "crypto/bls.PublicKeyToBytes(p0)", "NewBLSAddress"},
	} {
		id, size := consts[s.id], consts[s.size]
		if id == "" || size == "" {
			r.missing("C17.R1", s.typ+":constants", "type ID / size constants not found")
			continue
		}
		T := "(*" + pkgAuth + "." + s.typ + ")."
		if f := r.fn(w, "C17.R1", T+"GetTypeID"); f != nil {
			o := returnOutcomes(f)
			r.check(len(o) == 1 && term(o[0].Vals[0]) == id, "C17.R1", s.typ+":GetTypeID", w.rel(f.Pos()), id, s.typ+".GetTypeID does not return "+s.id)
		}
		if f := r.fn(w, "C17.R1", pkgAuth+"."+s.ctor); f != nil {
			o := returnOutcomes(f)
			want := "codec.CreateAddress(" + id + ", utils.ToID(" + s.pkBytes + "))"
			r.check(len(o) == 1 && term(o[0].Vals[0]) == want, "C17.R1", s.typ+":address=CreateAddress(ID,hash(pk))", w.rel(f.Pos()), want, s.ctor+" is not "+want+": "+term(o[0].Vals[0]))
		}
		if f := r.fn(w, "C17.R1", T+"address"); f != nil {
			es := findEffects(f, "store p0.addr = auth."+s.ctor+"(p0.Signer)")
			r.check(len(es) == 1, "C17.R1", s.typ+":address()-from-own-signer", w.rel(f.Pos()), "", s.typ+".address does not derive the address from the auth's own signer")
		}
		for _, m := range []string{"Actor", "Sponsor"} {
			if f := r.fn(w, "C17.R1", T+m); f != nil {
				o := returnOutcomes(f)
				r.check(len(o) == 1 && term(o[0].Vals[0]) == "(*auth."+s.typ+").address(p0)", "C17.R1", s.typ+":"+m, w.rel(f.Pos()), "", s.typ+"."+m+" does not return the auth's own address")
			}
		}
		// encoder
		enc := r.fn(w, "C17.R2", T+"Bytes")
		dec := r.fn(w, "C17.R2", pkgAuth+".Unmarshal"+s.typ)
		if enc != nil {
			first := findEffects(enc, "store alloc(makeslice)[:"+size+"][0] = *")
			okk := len(first) == 1 && (strings.HasSuffix(first[0].Str, "= "+id) || strings.HasSuffix(first[0].Str, "GetTypeID(p0)"))
			r.check(okk, "C17.R2", s.typ+":Bytes:size+type-byte", w.rel(enc.Pos()), "", s.typ+".Bytes does not build a "+s.size+"-byte slice starting with the type ID")
		}
		if dec != nil {
			var sizeOK, idOK bool
			for _, o := range returnOutcomes(dec) {
				if !o.isPotentialSuccess() && hasStr(o.Conds, size+" != builtin.len(p0)") {
					sizeOK = true
				}
				if !o.isPotentialSuccess() && hasStr(o.Conds, id+" != p0[0]") {
					idOK = true
				}
			}
			for _, o := range returnOutcomes(dec) {
				if hasStr(o.Sentinels, "nil") && !(hasStr(o.Conds, size+" == builtin.len(p0)") && hasStr(o.Conds, id+" == p0[0]")) {
					sizeOK = false
				}
			}
			r.check(sizeOK && idOK, "C17.R2", s.typ+":Unmarshal:exact-size+type-byte", w.rel(dec.Pos()), "", "Unmarshal"+s.typ+" does not require len == "+s.size+" and the scheme's type byte on every successful path")
			// offsets: decoder slices at the same offsets the encoder copies to
			if enc != nil {
				offs := func(f *ssa.Function, base string) []string {
					var out []string
					eachInstr(f, func(i ssa.Instruction) {
						if sl, ok := i.(*ssa.Slice); ok && sl.Low != nil && strings.HasPrefix(term(sl.X), base) {
							out = append(out, term(sl.Low))
						}
					})
					return out
				}
				eo := offs(enc, "alloc(makeslice)[:"+size+"]")
				do := offs(dec, "p0")
				r.check(len(eo) == 2 && len(do) == 2 && eo[0] == do[0] && eo[1] == do[1] && eo[0] == "1", "C17.R2", s.typ+":offsets-agree", w.rel(dec.Pos()), strings.Join(eo, ",")+" / "+strings.Join(do, ","), "encoder and decoder of "+s.typ+" use different offsets: "+strings.Join(eo, ",")+" vs "+strings.Join(do, ","))
			}
		}
	}
	ca := r.fn(w, "C17.R1", pkgCodec+".CreateAddress")
	if ca != nil {
		r.check(len(findEffects(ca, "store alloc(makeslice)[:33][0] = p0")) == 1 && len(findEffects(ca, "call builtin.copy(alloc(makeslice)[:33][1:], p1[:])")) == 1, "C17.R1", "CreateAddress:type-byte+id", w.rel(ca.Pos()), "", "CreateAddress does not place the type ID at index 0 followed by the ID")
	}
	// R3
	sv := r.fn(w, "C17.R3", H+"/crypto/secp256r1.Verify")
	if sv != nil {
		ev := callsNamed(sv, "crypto/ecdsa.Verify")
		if len(ev) == 1 {
			cs := condStrings(ctrlConds(ev[0].Block()))
			r.check(hasMatch(cs, "crypto/secp256r1.normalizedS(*)"), "C17.R3", "secp256r1.Verify:normalised-S-before-ecdsa", r.at(w, ev[0]), "", "ecdsa.Verify is reachable for a signature whose S is not normalised (malleable encoding accepted)")
			r.check(hasMatch(cs, "33 == builtin.len(*)") || hasMatch(cs, "builtin.len(*) == 33") || len(cs) >= 3, "C17.R3", "secp256r1.Verify:key-and-lengths-checked", r.at(w, ev[0]), "", "ecdsa.Verify is reachable without the key/signature sanity checks")
			// the S tested is the S verified
			ns := callsNamed(sv, H+"/crypto/secp256r1.normalizedS")
			r.check(len(ns) == 1 && sameValue(ns[0].Common().Args[0], ev[0].Common().Args[3]), "C17.R3", "secp256r1.Verify:same-S", r.at(w, ev[0]), "", "the S value tested for normalisation is not the one verified")
		} else {
			r.missing("C17.R3", "secp256r1.Verify:ecdsa.Verify", "ecdsa.Verify call not found")
		}
	}
	// R4: ZIP-215 verification accepts public keys of small order: for such a key [k]A vanishes and s = 0 with a
	// small-order R verifies every message, without any private key and in many encodings. The scheme wrapper has to
	// screen the key before handing it to the consensus verifier (single and batch).
	r.rule("C17.R4", "K1", "ed25519: the public key is screened (small-order points rejected) before ZIP-215 verification, single and batch", 2)
	for _, p := range [][2]string{{H + "/crypto/ed25519.Verify", "github.com/hdevalence/ed25519consensus.Verify"}, {"(*" + H + "/crypto/ed25519.Batch).Add", "(*github.com/hdevalence/ed25519consensus.BatchVerifier).Add"}} {
		f := r.fn(w, "C17.R4", p[0])
		if f == nil {
			continue
		}
		cs := callsNamed(f, p[1])
		okk := len(cs) == 1
		if okk {
			// some controlling condition of the consensus call depends on the public key parameter
			okk = false
			var key ssa.Value
			for _, prm := range f.Params {
				if strings.HasSuffix(prm.Type().String(), "crypto/ed25519.PublicKey") {
					key = prm
				}
			}
			for _, cc := range ctrlConds(cs[0].Block()) {
				if key != nil && derivesFrom(cc.If.Cond, func(v ssa.Value) bool { return v == key }) {
					okk = true
				}
			}
		}
		r.check(okk, "C17.R4", short(p[0])+":public-key-screened", w.rel(f.Pos()), "", "the public key reaches the ZIP-215 verifier unscreened: keys of small order verify any message with s = 0 (no private key), in many encodings")
	}
}

// ----------------------------------------------------------------------------- C15

// classifyDecoder decides whether a registered decoder accepts only fully consumed input.
func classifyDecoder(fn *ssa.Function) (string, bool) {
	if fn == nil || len(fn.Params) == 0 {
		return "not analysable", false
	}
	outs := returnOutcomes(fn)
	// (a) exact-size check on every successful path
	fixed := false
	for _, o := range outs {
		if hasStr(o.Sentinels, "nil") {
			f := false
			for _, c := range o.Conds {
				if glob("builtin.len(p0) == *", c) || glob("* == builtin.len(p0)", c) {
					f = true
				}
			}
			if !f {
				fixed = false
				break
			}
			fixed = true
		}
	}
	if fixed {
		return "fixed-size: len(input) == const on every successful path", true
	}
	// (c) whole input compared with a constant
	whole := false
	for _, o := range outs {
		if hasStr(o.Sentinels, "nil") {
			w := false
			for _, c := range o.Conds {
				if glob("bytes.Equal(*, p0)", c) || glob("bytes.Equal(p0, *)", c) {
					w = true
				}
			}
			if !w {
				whole = false
				break
			}
			whole = true
		}
	}
	if whole {
		return "whole input compared with a constant", true
	}
	// (b) streaming decode followed by offset == len
	uf := callsTo(fn, func(n string) bool { return strings.HasSuffix(n, "codec.Codec).UnmarshalFrom") })
	if len(uf) == 1 {
		pk := uf[0].Common().Args
		var packer ssa.Value
		if len(pk) >= 1 {
			packer = callArgs(uf[0])[1]
		}
		pt := term(packer)
		okAll := true
		any := false
		for _, o := range outs {
			if hasStr(o.Sentinels, "nil") {
				any = true
				f := false
				for _, c := range o.Conds {
					if glob(pt+".Offset == builtin.len("+pt+".Bytes)", c) || glob("builtin.len("+pt+".Bytes) == "+pt+".Offset", c) {
						f = true
					}
				}
				if !f {
					okAll = false
				}
			}
		}
		if any && okAll {
			return "streaming decode with offset == len(input) on every successful path", true
		}
		return "LinearCodec.UnmarshalFrom does not reject unconsumed input and no offset == length test follows: a valid encoding followed by extra bytes is accepted (and kept as the transaction's bytes) although it re-encodes differently", false
	}
	return "decoder shape not recognised (neither fixed-size, whole-input comparison nor streaming decode with a consumption check)", false
}

func (r *Run) registeredDecoders(w *World, rule string) int {
	n := 0
	for _, fn := range w.srcFns {
		for _, c := range callsTo(fn, func(n string) bool { return n == "(*"+pkgCodec+".TypeParser).Register" }) {
			a := c.Common().Args
			if len(a) < 3 {
				continue
			}
			var dec *ssa.Function
			switch x := a[2].(type) {
			case *ssa.Function:
				dec = x
			case *ssa.MakeClosure:
				dec, _ = x.Fn.(*ssa.Function)
			case *ssa.ChangeType:
				dec, _ = x.X.(*ssa.Function)
			}
			if dec == nil {
				r.bad(rule, short(fnName(fn))+":Register:dynamic-decoder", r.at(w, c), "the registered decoder is not a statically known function")
				continue
			}
			// the decoder may live in another world (root module types loaded from export data): look it up by name
			name := fnName(dec)
			body := dec
			if body.Blocks == nil {
				body = w.Fn(name)
				if body == nil {
					body = r.W.Fn(name)
				}
			}
			n++
			if body == nil || body.Blocks == nil {
				r.missing(rule, "decoder:"+short(name), "decoder body not available for analysis")
				continue
			}
			r.saw(body)
			why, ok := classifyDecoder(body)
			r.check(ok, rule, "decoder:"+short(name), r.W.rel(body.Pos()), why, why)
		}
	}
	return n
}

func c15(r *Run) {
	w := r.W
	r.rule("C15.R1", "K1", "registered decoders accept only fully consumed input", 8)
	r.rule("C15.R2", "K5", "id = hash(bytes kept as the encoding)", 3)
	r.rule("C15.R3", "K10/K5", "auth is the last field; unsigned bytes = encoding minus auth suffix, bounds checked", 4)
	r.rule("C15.R4", "K1", "nil list elements rejected after decoding", 2)
	r.rule("C15.R5", "K5", "decoding contexts carry the parser", 3)

	n := r.registeredDecoders(w, "C15.R1")
	n += r.registeredDecoders(r.MW(), "C15.R1")
	if n < 8 {
		r.missing("C15.R1", "registrations", fmt.Sprintf("only %d TypeParser registrations found, 8 were confirmed (3 in chaintest, 5 in the reference VM)", n))
	}

	// R2
	ids := 0
	for _, fn := range w.FnsInPkg(pkgChain) {
		for _, owner := range []string{pkgChain + ".Transaction", pkgChain + ".StatelessBlock"} {
			for _, st := range fieldStores(fn, owner, "id") {
				ids++
				r.saw(fn)
				v := term(st.Val)
				base := term(st.Addr.(*ssa.FieldAddr).X)
				// the bytes field of the same object, as stored in this function
				var bt string
				for _, bs := range fieldStores(fn, owner, "bytes") {
					if term(bs.Addr.(*ssa.FieldAddr).X) == base {
						bt = term(bs.Val)
					}
				}
				okk := v == "utils.ToID("+base+".bytes)" || (bt != "" && v == "utils.ToID("+bt+")")
				r.check(okk && bt != "", "C15.R2", short(fnName(fn))+":id=hash(bytes)", w.rel(st.Pos()), v, "the ID is not the hash of the bytes stored as the encoding: id = "+v+", bytes = "+bt)
			}
		}
	}
	if ids < 3 {
		r.missing("C15.R2", "id-sites", fmt.Sprintf("only %d id assignments found", ids))
	}
	// decode side keeps the reader's input as bytes
	uc := r.fn(w, "C15.R2", "(*"+pkgChain+".Transaction).UnmarshalCanotoFrom")
	if uc != nil {
		r.requireEffect(w, "C15.R2", "Transaction.UnmarshalCanotoFrom:bytes=input", uc, "store alloc(complit).bytes = p1.B")
		// R3
		var authNo, maxNo int
		if p := w.Pkgs[pkgChain]; p != nil {
			if tn, ok := p.Types.Scope().Lookup("SerializeTx").(*types.TypeName); ok {
				if st, ok := tn.Type().Underlying().(*types.Struct); ok {
					for i := 0; i < st.NumFields(); i++ {
						tag := st.Tag(i)
						if j := strings.Index(tag, `canoto:"`); j >= 0 {
							spec := tag[j+8:]
							spec = spec[:strings.Index(spec, `"`)]
							parts := strings.Split(spec, ",")
							var no int
							fmt.Sscan(parts[len(parts)-1], &no)
							if no > maxNo {
								maxNo = no
							}
							if st.Field(i).Name() == "Auth" {
								authNo = no
							}
						}
					}
				}
			}
		}
		r.check(authNo > 0 && authNo == maxNo, "C15.R3", "SerializeTx:auth-is-last-field", "", fmt.Sprintf("auth field number %d is the highest", authNo), "the auth is not the highest-numbered (last encoded) field of the transaction encoding")
		sfx := "(1 + int(github.com/StephenButtolph/canoto.SizeBytes(alloc(complit).Auth)))"
		es := findEffects(uc, "store alloc(complit).TransactionData.unsignedBytes = phi(*)")
		okk := len(es) == 1 && strings.Contains(es[0].Str, "p1.B[:(builtin.len(p1.B) - ") && strings.Contains(es[0].Str, "canoto.SizeBytes(") && strings.Contains(es[0].Str, ".Auth)")
		r.check(okk, "C15.R3", "UnmarshalCanotoFrom:unsigned=input-minus-auth-suffix", w.rel(uc.Pos()), sfx, "the unsigned bytes are not the input minus (tag + size of the auth field)")
		// bounds check precedes slicing
		var sl *ssa.Slice
		eachInstr(uc, func(i ssa.Instruction) {
			if s, ok := i.(*ssa.Slice); ok && term(s.X) == "p1.B" && s.High != nil && strings.Contains(term(s.High), "SizeBytes(") {
				sl = s
			}
		})
		okk = sl != nil
		if okk {
			cs := condStrings(ctrlConds(sl.Block()))
			okk = hasMatch(cs, "0 <= (builtin.len(p1.B) - *)") && hasMatch(cs, "(builtin.len(p1.B) - *) <= builtin.len(p1.B)")
		}
		r.check(okk, "C15.R3", "UnmarshalCanotoFrom:bounds-before-slicing", w.rel(uc.Pos()), "", "the auth suffix is sliced off without a preceding bounds check")
		// sign side: unsigned bytes are the encoding of the same struct with Auth empty
		nt := r.fn(w, "C15.R3", pkgChain+".NewTxData")
		if nt != nil {
			okk := len(findEffects(nt, "store alloc(txData).unsignedBytes = (*chain.SerializeTx).MarshalCanoto(alloc(complit))")) == 1 && len(findEffects(nt, "store alloc(complit).Auth = *")) == 0
			if !okk {
				okk = len(findEffects(nt, "store *.unsignedBytes = (*chain.SerializeTx).MarshalCanoto(*)")) == 1 && len(findEffects(nt, "store *.Auth = *")) == 0
			}
			r.check(okk, "C15.R3", "NewTxData:unsigned=encoding-without-auth", w.rel(nt.Pos()), "", "NewTxData does not build the unsigned bytes from the transaction encoding with an empty auth")
		}
	}
	// R4
	for _, nm := range []string{"(*" + pkgChain + ".BatchedTransactionSerializer).Unmarshal", "(*" + pkgChain + ".StatelessBlock).UnmarshalCanotoFrom"} {
		f := r.fn(w, "C15.R4", nm)
		if f == nil {
			continue
		}
		okk := false
		for _, o := range returnOutcomes(f) {
			if (hasStr(o.Sentinels, "chain.ErrNilTxInBlock") || !o.isPotentialSuccess()) && (hasMatch(o.Conds, "nil == *[*]") || hasMatch(o.Conds, "*[*] == nil")) {
				okk = true
			}
		}
		r.check(okk, "C15.R4", short(nm)+":nil-element-rejected", w.rel(f.Pos()), "", "a nil element of the decoded transaction list is not rejected")
	}
	// R5
	for _, nm := range []string{pkgChain + ".UnmarshalTx", pkgChain + ".UnmarshalBlock", "(*" + pkgChain + ".BatchedTransactionSerializer).Unmarshal"} {
		f := w.Fn(nm)
		if f == nil {
			continue
		}
		r.saw(f)
		es := findEffects(f, "store alloc(*).Context = *")
		okk := len(es) >= 1
		for _, e := range es {
			if !(strings.HasSuffix(e.Str, "= p1") || strings.HasSuffix(e.Str, ".Parser")) {
				okk = false
			}
		}
		r.check(okk, "C15.R5", short(nm)+":context=parser", w.rel(f.Pos()), "", "the decoding context is not set to the parser")
	}
}

// ----------------------------------------------------------------------------- C14

func c14(r *Run) {
	w := r.W
	r.rule("C14.R1", "K12", "the bandwidth estimate counts each action and the auth with tag and length prefix", 2)
	r.rule("C14.R2", "K12", "estimator and meter use the same rule getters / compute calls", 3)
	r.rule("C14.R3", "K5", "generated MaxFee = MulSum(unit prices, estimate)", 2)
	// R5: the estimator meters every declared key: Keys.ChunkSizes yields one entry per key (the meter charges per-key
	// costs for every declared key, also for keys that allow no value chunks)
	r.rule("C14.R5", "K7", "Keys.ChunkSizes returns the chunk count of every key, failing only on an undecodable key", 1)
	if cs := r.fn(w, "C14.R5", "("+H+"/state.Keys).ChunkSizes"); cs != nil {
		ap := findEffects(cs, "call builtin.append(phi(*), [keys.DecodeChunks([]byte(next(range(p0))#1))#0])")
		okk := len(ap) == 1
		if okk {
			for _, c := range ap[0].Conds() {
				if !(isLoopCond(c) || c == "keys.DecodeChunks([]byte(next(range(p0))#1))#1") {
					okk = false
				}
			}
			if h, _ := innermostLoop(ap[0].Ins.Block()); h != nil && len(h.Succs) == 2 {
				hdr := func(i ssa.Instruction) bool { return i.Block() == h && instrIndex(i) == 0 }
				if skip, _ := pathExists(point{h.Succs[0], 0}, hdr, isInstr(ap[0].Ins), nil); skip {
					okk = false
				}
			} else {
				okk = false
			}
		}
		r.check(okk, "C14.R5", "Keys.ChunkSizes:one-entry-per-key", w.rel(cs.Pos()), "", "Keys.ChunkSizes leaves some declared keys out: the estimate misses their per-key read/allocate/write units, which the meter charges")
	}
	r.rule("C14.R4", "K12", "auth factories report the scheme's size and compute units", 3)
	eu := r.fn(w, "C14.R1", pkgChain+".EstimateUnits")
	un := w.Fn(nmUnits)
	if eu != nil {
		// the bandwidth value returned
		var bw string
		for _, o := range returnOutcomes(eu) {
			if hasStr(o.Sentinels, "nil") && len(o.Vals) == 2 {
				if ld, ok := o.Vals[0].(*ssa.UnOp); ok {
					if al, ok := ld.X.(*ssa.Alloc); ok {
						for _, ref := range *al.Referrers() {
							if ia, ok := ref.(*ssa.IndexAddr); ok {
								if c, ok := ia.Index.(*ssa.Const); ok && c.Int64() == 0 {
									for _, rr := range *ia.Referrers() {
										if st, ok := rr.(*ssa.Store); ok {
											bw = term(st.Val)
										}
									}
								}
							}
						}
					}
				}
			}
		}
		perAction := strings.Contains(bw, "canoto.SizeBytes((chain.Action).Bytes(p1[") && strings.Contains(bw, "+ 1)") || strings.Contains(bw, "canoto.SizeBytes((chain.Action).Bytes(p1[") && strings.Contains(bw, "(1 + ")
		onlyLen := strings.Contains(bw, "uint64(builtin.len((chain.Action).Bytes(p1[")
		r.check(perAction && !onlyLen, "C14.R1", "EstimateUnits:per-action-prefix", w.rel(eu.Pos()), "each action counted as tag + length prefix + payload",
			"the bandwidth estimate adds only len(action.Bytes()) per action, not the tag and length prefix each element of the repeated field carries: the fixed slack is used up at 2-4 bytes per action and the estimate falls below the actual size for transactions with many actions")
		auth := strings.Contains(bw, "canoto.SizeUint((chain.AuthFactory).MaxUnits(p2)#0)")
		r.check(auth, "C14.R1", "EstimateUnits:auth-prefix", w.rel(eu.Pos()), "auth counted with tag + length prefix", "the bandwidth estimate does not count the auth field's tag and length prefix")
		// R2: same getters
		if un != nil {
			getters := func(f *ssa.Function) map[string]bool {
				out := map[string]bool{}
				eachInstr(f, func(i ssa.Instruction) {
					if ci, ok := i.(ssa.CallInstruction); ok {
						n := calleeName(ci)
						if strings.HasPrefix(n, "("+pkgChain+".Rules).Get") || strings.HasSuffix(n, ").ComputeUnits") {
							out[short(n)] = true
						}
					}
				})
				return out
			}
			ge, gu := getters(eu), getters(un)
			var miss []string
			for g := range gu {
				if g == "(chain.Auth).ComputeUnits" {
					continue // estimator uses the factory's MaxUnits (checked in R4)
				}
				if !ge[g] {
					miss = append(miss, g)
				}
			}
			r.check(len(miss) == 0 && len(gu) >= 8, "C14.R2", "EstimateUnits:same-getters-as-Units", w.rel(eu.Pos()), fmt.Sprintf("%d getters shared", len(gu)), "the estimator does not use rule getters the meter uses: "+strings.Join(miss, ", "))
			r.check(ge["(chain.Rules).GetSponsorStateKeysMaxChunks"], "C14.R2", "EstimateUnits:sponsor-keys-budgeted", w.rel(eu.Pos()), "", "the estimator does not budget the sponsor's state keys")
			// estimator does not deduplicate keys: appends every action's chunk sizes
			r.check(len(findEffects(eu, "call builtin.append(*, (state.Keys).ChunkSizes((chain.Action).StateKeys(*))#0)")) == 1 || len(findEffects(eu, "call builtin.append(phi(*), (state.Keys).ChunkSizes(*)#0)")) == 1, "C14.R2", "EstimateUnits:per-action-keys-not-deduplicated", w.rel(eu.Pos()), "", "the estimator does not budget every action's key list")
		}
	}
	gt := r.fn(w, "C14.R3", pkgChain+".GenerateTransaction")
	if gt != nil {
		ms := findEffects(gt, "call fees.MulSum(p1, chain.EstimateUnits((chain.RuleFactory).GetRules(p0, p2), p3, p4)#0)")
		gm := findEffects(gt, "call chain.GenerateTransactionManual(*, p2, p3, p4, fees.MulSum(*)#0)")
		r.check(len(ms) == 1 && len(gm) == 1, "C14.R3", "GenerateTransaction:maxFee=MulSum(prices,estimate)", w.rel(gt.Pos()), "", "the generated transaction's maximum fee is not MulSum(unit prices, EstimateUnits(...))")
	}
	gmf := r.fn(w, "C14.R3", pkgChain+".GenerateTransactionManual")
	if gmf != nil {
		r.check(len(findEffects(gmf, "store alloc(complit).MaxFee = p4")) == 1, "C14.R3", "GenerateTransactionManual:Base.MaxFee=maxFee", w.rel(gmf.Pos()), "", "the maximum fee passed is not stored in Base.MaxFee")
	}
	for _, s := range []struct{ typ, size, cu string }{{"ED25519", "ED25519Size", "ED25519ComputeUnits"}, {"SECP256R1", "SECP256R1Size", "SECP256R1ComputeUnits"}, {"BLS", "BLSSize", "BLSComputeUnits"}} {
		f := r.fn(w, "C14.R4", "(*"+pkgAuth+"."+s.typ+"Factory).MaxUnits")
		if f == nil {
			continue
		}
		var sv, cv string
		if p := w.Pkgs[pkgAuth]; p != nil {
			if c, ok := p.Types.Scope().Lookup(s.size).(*types.Const); ok {
				sv = c.Val().ExactString()
			}
			if c, ok := p.Types.Scope().Lookup(s.cu).(*types.Const); ok {
				cv = c.Val().ExactString()
			}
		}
		o := returnOutcomes(f)
		okk := len(o) == 1 && len(o[0].Vals) == 2 && term(o[0].Vals[0]) == sv && term(o[0].Vals[1]) == cv
		// and ComputeUnits of the auth type returns the same constant
		if cf := w.Fn("(*" + pkgAuth + "." + s.typ + ").ComputeUnits"); cf != nil {
			co := returnOutcomes(cf)
			okk = okk && len(co) == 1 && term(co[0].Vals[0]) == cv
		}
		r.check(okk && sv != "", "C14.R4", s.typ+"Factory.MaxUnits", w.rel(f.Pos()), sv+","+cv, s.typ+"Factory.MaxUnits does not report ("+s.size+", "+s.cu+") consistently with the auth's own ComputeUnits")
	}
}
