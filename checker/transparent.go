package main

import (
	_ "embed"
	"strings"

	"golang.org/x/tools/go/ssa"
)

// Functions that exist on the reference tree (the tree the rule tables were confirmed against) are named by the rules
// and stay opaque. A module function that is NOT in this list did not exist when the rules were written: it is a
// refactoring artefact (an extracted helper) and the analyses look through it:
//   - term rendering inlines the result of a single-return helper (predicates, getters),
//   - effectsOf lifts the helper's effects to its call site (with the arguments substituted for the parameters and the
//     call site's controlling conditions added),
//   - returnOutcomes splices the helper's error outcomes into a caller that propagates its error.
// Regenerate with: hsdkcheck -list ALL (both worlds) > known_funcs.txt, only when the reference tree moves.
//
//go:embed known_funcs.txt
var knownFuncsText string

var knownFuncs = func() map[string]bool {
	m := map[string]bool{}
	for _, l := range strings.Split(knownFuncsText, "\n") {
		if l = strings.TrimSpace(l); l != "" {
			m[l] = true
		}
	}
	return m
}()

// transparency can be switched off for debugging (HSDK_OPAQUE=1)
var opaqueAll = false

const maxLiftDepth = 3

// transparentCallee returns the static callee of ci if the analyses may look through it.
func transparentCallee(ci ssa.CallInstruction) *ssa.Function {
	if opaqueAll || ci == nil {
		return nil
	}
	if _, isGo := ci.(*ssa.Go); isGo {
		return nil
	}
	if _, isDefer := ci.(*ssa.Defer); isDefer {
		return nil
	}
	f := ci.Common().StaticCallee()
	if f == nil {
		return nil
	}
	if o := f.Origin(); o != nil {
		f = o
	}
	if f.Blocks == nil || f.Parent() != nil || f.Pkg == nil || f.Synthetic != "" {
		return nil
	}
	p := f.Pkg.Pkg.Path()
	if !strings.HasPrefix(p, H) {
		return nil
	}
	if knownFuncs[fnName(f)] {
		return nil
	}
	return f
}

// paramEnv maps parameters (and free variables) of helpers being looked through to the rendering of the caller's arguments.
var paramEnv map[ssa.Value]string

var liftDepth int

// withCallEnv runs f with the callee's parameters bound to the rendering of ci's arguments (rendered in the current environment).
func withCallEnv(ci ssa.CallInstruction, callee *ssa.Function, f func()) {
	old := paramEnv
	env := map[ssa.Value]string{}
	for k, v := range old {
		env[k] = v
	}
	// the arguments are rendered one level down already: an argument that is itself the (looked-through) result of
	// the same helper, e.g. acc = helper(x, acc) in a loop, must run into the depth bound instead of recursing
	liftDepth++
	defer func() { paramEnv = old; liftDepth-- }()
	args := callArgs(ci)
	for i, p := range callee.Params {
		if i < len(args) {
			env[p] = term(args[i])
		}
	}
	paramEnv = env
	f()
}

// singleReturn returns the only Return instruction of f, or nil.
func singleReturn(f *ssa.Function) *ssa.Return {
	var ret *ssa.Return
	for _, b := range f.Blocks {
		if len(b.Instrs) == 0 || b == f.Recover {
			continue
		}
		if r, ok := b.Instrs[len(b.Instrs)-1].(*ssa.Return); ok {
			if ret != nil {
				return nil
			}
			ret = r
		}
	}
	return ret
}

// inlinedResult returns, for a call to a transparent single-return helper, the helper's returned value number idx
// (to be rendered / analysed inside withCallEnv), or nil.
func inlinedResult(c *ssa.Call, idx int) (ssa.Value, *ssa.Function) {
	if liftDepth >= maxLiftDepth {
		return nil, nil
	}
	callee := transparentCallee(c)
	if callee == nil {
		return nil, nil
	}
	ret := singleReturn(callee)
	if ret == nil {
		// the usual (values..., error) helper: the values a caller goes on to use are those of the one return that
		// reports success (every other return carries an error, which the outcome analysis follows)
		ret = successReturn(callee)
		if ret == nil || idx >= len(ret.Results)-1 {
			return nil, nil
		}
	}
	if idx >= len(ret.Results) {
		return nil, nil
	}
	rs := unspill(ret)
	return rs[idx], callee
}

// successReturn: f's last result is an error and exactly one return statement returns a nil error.
func successReturn(f *ssa.Function) *ssa.Return {
	res := f.Signature.Results()
	if res.Len() < 2 || !isErrorType(res.At(res.Len()-1).Type()) {
		return nil
	}
	var ret *ssa.Return
	for _, b := range f.Blocks {
		if len(b.Instrs) == 0 || b == f.Recover {
			continue
		}
		r, ok := b.Instrs[len(b.Instrs)-1].(*ssa.Return)
		if !ok {
			continue
		}
		rs := unspill(r)
		if len(rs) != res.Len() || !isNilConst(rs[len(rs)-1]) {
			continue
		}
		if ret != nil {
			return nil
		}
		ret = r
	}
	return ret
}
