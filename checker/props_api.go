package main

import (
	"fmt"
	"strings"

	"golang.org/x/tools/go/ssa"
)

const (
	pkgRPC   = H + "/api/jsonrpc"
	pkgState = H + "/state"
	nmRPC  = "(*" + pkgRPC + ".JSONRPCServer)."
)

func init() {
	register(&propDef{
		ID: "C30",
		Explain: "Decides the structural agreement of the read-only action APIs with transaction execution: ExecuteActions runs each action on a view scoped by exactly that " +
			"action's declared keys (same actor and action ID as the Execute call), over storage filled from the VM state for every declared key (read errors other than " +
			"not-found returned), commits the view after each successful action so later actions see earlier writes, appends outputs in order and enforces the action " +
			"limit; SimulateActions runs on the VM's current state with a recording scope whose Has records the requested permission (union) and grants it, reports a " +
			"copy of the recorded keys taken after the action executed and before the scope is cleared, and clears it for every action. Not decided: equality of " +
			"outputs with on-chain execution for concrete actions (action code, action IDs derived from the transaction ID, block time).",
		Run: c30,
	})
}

func oneCallTo(fn *ssa.Function, suffix string) ssa.CallInstruction {
	cs := callsTo(fn, func(n string) bool { return strings.HasSuffix(short(n), suffix) })
	if len(cs) == 1 {
		return cs[0]
	}
	return nil
}

func c30(r *Run) {
	w := r.W
	r.rule("C30.R1", "K12", "ExecuteActions: every view = (union of all declared keys as in a transaction, storage filled from VM state by read error), same actor/action ID/time/rules as declared", 10)
	r.rule("C30.R2", "K1", "ExecuteActions: commit after each successful action; outputs appended in order; read errors returned; action limit enforced", 5)
	r.rule("C30.R3", "K1", "SimulateActions: recording scope given to the view over current state; keys copied after Execute and before clear; cleared per action", 7)
	r.rule("C30.R4", "K6", "SimulatedKeys.Has records (union) and grants exactly what it recorded; Keys.Add unions permissions", 3)

	ex := r.fn(w, "C30.R1", nmRPC+"ExecuteActions")
	if ex != nil {
		sk := oneCallTo(ex, "(chain.Action).StateKeys")
		nv := oneCallTo(ex, ".TState).NewView")
		ec := oneCallTo(ex, "(chain.Action).Execute")
		rs := oneCallTo(ex, "(api.VM).ReadState")
		gr := oneCallTo(ex, "(chain.RuleFactory).GetRules")
		cm := oneCallTo(ex, ".TStateView).Commit")
		if sk == nil || nv == nil || ec == nil || rs == nil || gr == nil || cm == nil {
			r.missing("C30.R1", "ExecuteActions:shape", "StateKeys / NewView / Execute / ReadState / GetRules / Commit not found exactly once")
		} else {
			ska, nva, eca := callArgs(sk), callArgs(nv), callArgs(ec)
			at := r.at(w, ec)
			// NewView(ts, scope, storage, n); Execute(action, ctx, rules, mu, time, actor, actionID)
			// The scope of every action's view is the scope a transaction gives all of its actions: the union of the
			// keys declared by every action of the list (Keys.Add over every entry of every action's StateKeys).
			var scope ssa.Value
			if len(nva) == 4 {
				scope = strip(nva[1])
			}
			ad := oneCallTo(ex, "(state.Keys).Add")
			okU := scope != nil && ad != nil
			why := "the view's scope is not built with Keys.Add from the actions' declared StateKeys"
			if okU {
				ada := callArgs(ad)
				_, isMap := scope.(*ssa.MakeMap)
				okU = isMap && len(ada) == 3 && sameValue(strip(ada[0]), scope) &&
					rangeElem(ada[1], sk.Value(), 1) && rangeElem(ada[2], sk.Value(), 2)
				if okU {
					// every entry of every action: the only conditions on the Add are the two loops'
					for _, c := range condStrings(ctrlConds(ad.Block())) {
						if !isLoopCond(c) {
							okU, why = false, "an entry of an action's declared keys can be left out of the scope: "+c
						}
					}
					// complete before any action runs
					if reachableFrom(nv, ad) {
						okU, why = false, "the scope is still being extended after the first view was created"
					}
				}
			}
			r.check(okU, "C30.R1", "ExecuteActions:view-scope=union-of-declared-keys", r.at(w, nv), "scope = Keys.Add over every entry of every action's StateKeys, complete before the first view", why)
			if ad != nil {
				okF := false
				for _, o := range returnOutcomes(ex) {
					if o.NonNil && hasMatch(o.Conds, "!(state.Keys).Add(*") {
						okF = true
					}
				}
				r.check(okF, "C30.R1", "ExecuteActions:invalid-key-rejected", r.at(w, ad), "", "a declared key that Keys.Add refuses (a transaction with it is rejected) does not fail the request")
			}
			r.check(len(eca) == 7 && sameValue(eca[3], nv.Value()), "C30.R1", "ExecuteActions:execute-on-that-view", at, "", "the action does not execute on the view scoped by the declared keys")
			r.check(len(eca) == 7 && len(ska) == 3 && term(eca[0]) == term(ska[0]), "C30.R1", "ExecuteActions:same-action", at, "", "StateKeys and Execute do not range over the same action list")
			r.check(len(eca) == 7 && len(ska) == 3 && term(eca[5]) == term(ska[1]) && term(eca[5]) == "p2.Actor", "C30.R1", "ExecuteActions:same-actor", at, "", "StateKeys and Execute do not both receive the request's actor")
			// the action ID is derived from the action's own position in both calls
			ownID := func(a []ssa.Value, idArg int) bool {
				t := term(a[idArg])
				const pre = "chain.CreateActionID(ago/ids.Empty, uint8("
				if !strings.HasPrefix(t, pre) || !strings.HasSuffix(t, "))") {
					return false
				}
				idx := strings.TrimSuffix(strings.TrimPrefix(t, pre), "))")
				return strings.HasSuffix(term(a[0]), "["+idx+"]")
			}
			r.check(len(eca) == 7 && len(ska) == 3 && ownID(ska, 2) && ownID(eca, 6), "C30.R1", "ExecuteActions:same-action-id", at, "",
				"StateKeys and Execute receive different action IDs: keys derived from the action ID are declared for one ID and used with another ("+term(ska[2])+" vs "+term(eca[6])+")")
			gra := callArgs(gr)
			r.check(len(eca) == 7 && sameValue(eca[2], gr.Value()) && len(gra) == 2 && sameValue(eca[4], gra[1]), "C30.R1", "ExecuteActions:rules-of-the-execution-time", at, "", "the rules passed to Execute are not the rules of the timestamp passed to Execute")
			// storage: ImmutableStorage(m) where m receives values[i] under string(keys[i]) for the keys passed to ReadState
			var stor ssa.Value
			if len(nva) == 4 {
				stor = strip(nva[2])
			}
			mus := findEffects(ex, "mapupdate makemap(map[string][]byte)[string(*)] = (api.VM).ReadState(*)#0[*]")
			okS := stor != nil && len(mus) == 1
			absentByErr := false
			if okS {
				mu := mus[0].Ins.(*ssa.MapUpdate)
				okS = sameValue(mu.Map, stor) || term(mu.Map) == term(stor)
				// the only filter is 'this key was not found'
				for _, c := range mus[0].Conds() {
					if !(strings.Contains(c, "ReadState(") || strings.Contains(c, "builtin.len(") || strings.Contains(c, "range(")) {
						okS = false
					}
					if glob("(api.VM).ReadState(*)#1[*] == nil", c) {
						absentByErr = true
					}
					if glob("(api.VM).ReadState(*)#0[*] != nil", c) {
						absentByErr = false
						break
					}
				}
			}
			r.check(okS, "C30.R1", "ExecuteActions:storage-filled-from-VM-state", r.at(w, rs), "storage[key_i] = value_i for every value read", "the view's storage is not the map filled with every value read from the VM state")
			r.check(okS && absentByErr, "C30.R1", "ExecuteActions:absent-iff-read-error", r.at(w, rs), "", "a key is left out of the action's storage because its value is nil rather than because the read reported it not found: an existing key with an empty value looks absent to the action but not to the chain")
			// the keys read are all declared keys
			rsa := callArgs(rs)
			okK := false
			if len(rsa) == 3 && scope != nil {
				t := term(rsa[2])
				okK = strings.Contains(t, "[]byte(next(range("+term(scope)+"))#1)")
				for _, e := range findEffects(ex, "call builtin.append(*[[]byte(next(range(*") {
					for _, c := range e.Conds() {
						if !isLoopCond(c) {
							okK = false
						}
					}
				}
			}
			r.check(okK, "C30.R1", "ExecuteActions:reads-every-declared-key", r.at(w, rs), "", "the keys read from the VM state are not all keys of the scope")

			// R2
			r.successGuards(w, "C30.R2", "ExecuteActions:commit-after-success", ec, cm)
			r.check(len(callArgs(cm)) == 1 && sameValue(callArgs(cm)[0], nv.Value()), "C30.R2", "ExecuteActions:commit-that-view", r.at(w, cm), "", "the committed view is not the view the action executed on")
			h, _ := innermostLoop(ec.Block())
			okC := h != nil
			if okC {
				hdr := func(i ssa.Instruction) bool { return i.Block() == h && instrIndex(i) == 0 }
				if found, _ := pathExists(after(ec), hdr, isInstr(cm), nil); found {
					okC = false
				}
			}
			r.check(okC, "C30.R2", "ExecuteActions:next-action-sees-earlier-writes", r.at(w, cm), "every path to the next action passes Commit", "the next action can start without the previous action's writes having been committed to the shared transaction state")
			outs := findEffects(ex, "store p3.Outputs = builtin.append(p3.Outputs, [(chain.Action).Execute(*)#0])")
			if len(outs) == 1 {
				r.successGuards(w, "C30.R2", "ExecuteActions:output-appended-on-success", ec, outs[0].Ins)
			} else {
				r.missing("C30.R2", "ExecuteActions:output-appended-on-success", "append of the action output to reply.Outputs not found")
			}
			// read errors
			okE := false
			for _, o := range returnOutcomes(ex) {
				if o.NonNil && hasMatch(o.Conds, "!errors.Is(*, ago/database.ErrNotFound)") && hasMatch(o.Conds, "* != nil") {
					okE = true
				}
			}
			r.check(okE, "C30.R2", "ExecuteActions:read-errors-returned", r.at(w, rs), "", "a state read error other than not-found does not fail the request (the action would run on missing state)")
		}
		r.guardTable(w, "C30.R2", ex, []guardRow{{Preds: []string{"int((chain.Rules).GetMaxActionsPerTx(*)) < builtin.len(p2.Actions)"}, Sentinel: "", Global: true, Label: "action-limit"}})
	}

	sim := r.fn(w, "C30.R3", nmRPC+"SimulateActions")
	if sim != nil {
		nv := oneCallTo(sim, ".TState).NewView")
		ec := oneCallTo(sim, "(chain.Action).Execute")
		is := oneCallTo(sim, "(api.VM).ImmutableState")
		gr := oneCallTo(sim, "(chain.RuleFactory).GetRules")
		cl := oneCallTo(sim, "maps.Clone")
		clr := oneCallTo(sim, "builtin.clear")
		if nv == nil || ec == nil || is == nil || gr == nil || cl == nil || clr == nil {
			r.missing("C30.R3", "SimulateActions:shape", "NewView / Execute / ImmutableState / GetRules / maps.Clone / clear not found exactly once")
		} else {
			nva, eca := callArgs(nv), callArgs(ec)
			scope := strip(nva[1])
			r.check(strings.HasSuffix(short(scope.Type().String()), "state.SimulatedKeys"), "C30.R3", "SimulateActions:recording-scope", r.at(w, nv), "", "the simulation view's scope is not the recording scope")
			r.check(len(nva) == 4 && sameValue(nva[2], resultOf(is, 0)), "C30.R3", "SimulateActions:over-current-state", r.at(w, nv), "", "the simulation view does not read the VM's current state")
			r.check(len(eca) == 7 && sameValue(eca[3], nv.Value()) && term(eca[5]) == "p2.Actor", "C30.R3", "SimulateActions:execute-on-that-view", r.at(w, ec), "", "actions do not execute on the recording view with the request's actor")
			gra := callArgs(gr)
			r.check(len(eca) == 7 && sameValue(eca[2], gr.Value()) && len(gra) == 2 && sameValue(eca[4], gra[1]), "C30.R3", "SimulateActions:rules-of-the-execution-time", r.at(w, ec), "", "the rules passed to Execute are not the rules of the timestamp passed to Execute")
			// reported keys: Clone(scope.StateKeys()) stored into the result after a successful Execute
			cla := callArgs(cl)
			okCl := false
			if len(cla) == 1 {
				if skc, ok := strip(cla[0]).(*ssa.Call); ok && strings.HasSuffix(short(calleeName(skc)), "(state.SimulatedKeys).StateKeys") {
					okCl = sameValue(callArgs(skc)[0], scope)
				} else {
					okCl = sameValue(cla[0], scope)
				}
			}
			r.check(okCl, "C30.R3", "SimulateActions:reports-copy-of-recorded-keys", r.at(w, cl), "", "the reported key set is not a copy of the recording scope (a shared map is emptied by the per-action clear)")
			st := findEffects(sim, "store alloc(*).StateKeys = maps.Clone(*)")
			r.check(len(st) == 1, "C30.R3", "SimulateActions:copy-is-reported", r.at(w, cl), "", "the copy of the recorded keys is not what the result reports")
			r.successGuards(w, "C30.R3", "SimulateActions:keys-copied-after-execution", ec, cl)
			// between Execute and the copy the scope is not cleared; every iteration clears after the copy
			okO := sameValue(callArgs(clr)[0], scope)
			if found, _ := pathExists(after(ec), isInstr(cl), isInstr(clr), nil); !found {
				okO = false
			}
			h, _ := innermostLoop(ec.Block())
			if h == nil {
				okO = false
			} else {
				hdr := func(i ssa.Instruction) bool { return i.Block() == h && instrIndex(i) == 0 }
				if found, _ := pathExists(after(cl), hdr, isInstr(clr), nil); found {
					okO = false
				}
				if found, _ := pathExists(after(ec), isInstr(clr), isInstr(cl), nil); found {
					okO = false
				}
			}
			r.check(okO, "C30.R3", "SimulateActions:clear-after-copy-every-action", r.at(w, clr), "Execute -> copy -> clear on every iteration", "the recording scope is not cleared after (and only after) its copy for every action: keys of one action leak into or vanish from another's report")
			r.failureLeadsToErrorReturn(w, "C30.R3", "SimulateActions:execute-error-returned", ec)
		}
	}

	has := r.fn(w, "C30.R4", "("+pkgState+".SimulatedKeys).Has")
	if has != nil {
		// grants exactly the accesses it recorded: what is reported is then sufficient, and a key no transaction
		// could declare is refused as the transaction's scope would refuse it
		rec, grants := simulatedHasShape(has)
		r.check(rec, "C30.R4", "SimulatedKeys.Has:records-requested-permission", w.rel(has.Pos()), "", "the recording scope does not record (union) the requested permission for the key")
		r.check(grants, "C30.R4", "SimulatedKeys.Has:grants-iff-recorded", w.rel(has.Pos()), "", "the recording scope does not grant exactly the accesses it records (granting an access it cannot record makes the reported key set insufficient; refusing a recorded one fails a valid simulation)")
	}
	add := r.fn(w, "C30.R4", "("+pkgState+".Keys).Add")
	if add != nil {
		es := findEffects(add, "mapupdate p0[p1] = (p0[p1] | p2)")
		r.check(len(es) == 1 && len(es[0].Conds()) == 1 && es[0].Conds()[0] == "keys.Valid(p1)", "C30.R4", "Keys.Add:union", w.rel(add.Pos()), "", fmt.Sprintf("Keys.Add does not union the permission into the entry for every valid key (%d)", len(es)))
	}
}

// simulatedHasShape decides the two clauses of SimulatedKeys.Has: recorded = the requested permission is unioned into
// the entry of every valid key; grants = the result is true exactly when the key was recorded. Accepted forms:
// `return Keys(d).Add(string(key), perm)` and the same thing written out (Valid test, |= on the map, true / false).
func simulatedHasShape(has *ssa.Function) (recorded, grants bool) {
	outs := returnOutcomes(has)
	if len(outs) == 1 && len(outs[0].Vals) == 1 && term(outs[0].Vals[0]) == "(state.Keys).Add(p0, string(p1), p2)" {
		return true, true
	}
	mu := findEffects(has, "mapupdate p0[string(p1)] = (p0[string(p1)] | p2)")
	if len(mu) != 1 || !hasStr(mu[0].Conds(), "keys.Valid(string(p1))") || len(mu[0].Conds()) != 1 {
		return false, false
	}
	recorded, grants = true, len(outs) > 0
	for _, o := range outs {
		if len(o.Vals) != 1 {
			return recorded, false
		}
		switch term(o.Vals[0]) {
		case "true":
			// only after the update
			if !hasStr(o.Conds, "keys.Valid(string(p1))") || !dominatesI(mu[0].Ins, o.Ret) {
				grants = false
			}
		case "false":
			if !hasStr(o.Conds, "!keys.Valid(string(p1))") {
				grants = false
			}
		default:
			grants = false
		}
	}
	return recorded, grants
}

// isLoopCond: the condition only says that a range / index loop is (or has finished) iterating.
func isLoopCond(c string) bool {
	c = strings.TrimPrefix(c, "!")
	if strings.HasPrefix(c, "next(range(") && strings.HasSuffix(c, ")#0") && balanced(c[:len(c)-2]) {
		// only the iterator's 'ok' component, never a test of the element
		return true
	}
	if strings.Contains(c, ")#1") || strings.Contains(c, ")#2") {
		return false // a test of an iteration element (or of a second result)
	}
	return strings.Contains(c, "builtin.len(")
}

// rangeElem reports whether v is component idx (1 key, 2 value) of a range iteration over src.
func rangeElem(v, src ssa.Value, idx int) bool {
	for {
		switch x := v.(type) {
		case *ssa.ChangeType:
			v = x.X
			continue
		case *ssa.Convert:
			v = x.X
			continue
		}
		break
	}
	ex, ok := v.(*ssa.Extract)
	if !ok || ex.Index != idx {
		return false
	}
	nx, ok := ex.Tuple.(*ssa.Next)
	if !ok {
		return false
	}
	rg, ok := nx.Iter.(*ssa.Range)
	return ok && sameValue(rg.X, src)
}

// resultOf returns the Extract of result n of a multi-value call, or the call itself.
func resultOf(c ssa.CallInstruction, n int) ssa.Value {
	for _, v := range resultN(c, n) {
		return v
	}
	return c.Value()
}

// ----------------------------------------------------------------------------- C31

const (
	pkgIdx = H + "/api/indexer"
	nmIdx  = "(*" + pkgIdx + ".Indexer)."
)

func init() {
	register(&propDef{
		ID: "C31",
		Explain: "Decides the window bookkeeping of the indexer: the three caches and the last height are accessed only under the indexer's mutex; inserting a block " +
			"records ID->height, height->block, every transaction->(height, position) and the last height; eviction removes the block's ID, height and every " +
			"transaction, covers every cached height at or below (new height - window) unless the block is the direct successor of the last one (then exactly that " +
			"height), and is skipped only when the subtraction would wrap; the store writes the block and deletes the height leaving the window in one batch whose " +
			"Write is the only success exit; start-up re-inserts every stored block through the same cache insertion and returns decode and iterator errors; a " +
			"transaction is reported found only with the transaction, result and timestamp of the block at its cached height and position. Not decided: pebble " +
			"iteration order and durability.",
		Run: c31,
	})
}

func c31(r *Run) {
	w := r.W
	r.rule("C31.R1", "K4", "caches and lastHeight accessed only under Indexer.mu (cache insertion/eviction run with the caller's write lock)", 8)
	r.rule("C31.R2", "K7", "insert records ID, height, every transaction and last height; eviction removes ID, height and every transaction", 7)
	r.rule("C31.R3", "K6", "eviction covers every cached height <= new height - window (exact height only for the direct successor); skipped only on wrap", 4)
	r.rule("C31.R4", "K1", "Notify: cache then store, store error returned; storeBlock: Put(h) and Delete(h - window) in one batch, Write is the only success exit", 5)
	r.rule("C31.R5", "K1", "initBlocks re-inserts every stored block; decode and iterator errors returned; range trim ends at last - window", 4)
	r.rule("C31.R7", "K6", "a block below the last height never moves the window (last height, evictions) and is admitted only while still inside it", 2)
	r.rule("C31.R6", "K6", "getters: found only with data of the block at the cached height/position; latest not found only before any block", 5)

	r.guardedBy(w, lockSpec{Rule: "C31.R1", Owner: pkgIdx + ".Indexer", Fields: []string{"blockIDToHeight", "blockHeightToBlock", "txCache", "lastHeight"}, Mutex: "mu", Pkgs: []string{pkgIdx},
		HeldByCaller: map[string]int{nmIdx + "insertBlockIntoCache": 2, nmIdx + "evictBlockFromCache": 2, nmIdx + "cacheBlock": 2, nmIdx + "getBlockByHeight": 1},
		ExemptFn:     map[string]string{nmIdx + "initBlocks": "runs inside NewIndexer before the indexer is published", pkgIdx + ".NewIndexer": "constructor"},
		MinSites:     8})

	ins := r.fn(w, "C31.R2", nmIdx+"insertBlockIntoCache")
	H := "p1.Block.Block.Hght"
	if ins != nil {
		// the three map updates are either inline or in the helper every admitting path calls
		cb := w.Fn(nmIdx + "cacheBlock")
		isCache := func(i ssa.Instruction) bool { return false }
		var cacheCalls []ssa.Instruction
		if cb == nil {
			cb = ins
		} else {
			r.saw(cb)
			for _, c := range callsNamed(ins, nmIdx+"cacheBlock") {
				if a := callArgs(c); len(a) == 2 && term(a[0]) == "p0" && term(a[1]) == "p1" {
					cacheCalls = append(cacheCalls, c)
				}
			}
			isCache = isAnyInstr(cacheCalls...)
		}
		// a block that already left the window (repeated delivery of an old block) is the only one not admitted
		leftWindow := predTrueEdges(ins, []string{"p0.blockWindow <= (p0.lastHeight - " + H + ")"})
		older := predTrueEdges(ins, []string{H + " < p0.lastHeight"})
		blockedLeft := map[edgeKey]bool{}
		for _, e := range leftWindow {
			blockedLeft[e] = true
		}
		blockedOlder := map[edgeKey]bool{}
		for _, e := range older {
			blockedOlder[e] = true
		}
		uncond := func(rule, cons, pat string) {
			es := findEffects(cb, pat)
			okk := len(es) == 1
			if okk {
				// recorded for every admitted block: reached on every path from entry to return
				if found, _ := pathExists(entry(cb), isReturn, isInstr(es[0].Ins), nil); found {
					okk = false
				}
				if okk && cb != ins {
					if found, _ := pathExists(entry(ins), isReturn, isCache, blockedLeft); found {
						okk = false
					}
				} else if okk && len(blockedLeft) > 0 {
					if found, _ := pathExists(entry(ins), isReturn, isInstr(es[0].Ins), blockedLeft); found {
						okk = false
					}
				}
			}
			r.check(okk, rule, cons, w.rel(cb.Pos()), pat, "not recorded for every admitted block: "+pat)
		}
		uncond("C31.R2", "insert:id->height", "mapupdate p0.blockIDToHeight[(*chain.StatelessBlock).GetID(p1.Block)] = "+H)
		uncond("C31.R2", "insert:height->block", "mapupdate p0.blockHeightToBlock["+H+"] = p1")
		// the last height follows every block that is not below it
		lh := findEffects(ins, "store p0.lastHeight = "+H)
		okL := len(lh) == 1
		if okL {
			if found, _ := pathExists(entry(ins), isReturn, isInstr(lh[0].Ins), blockedOlder); found {
				okL = false
			}
		}
		r.check(okL, "C31.R2", "insert:lastHeight", w.rel(ins.Pos()), "store p0.lastHeight = "+H, "the last height is not recorded for every block at or above it: store p0.lastHeight = "+H)
		txs := findEffects(cb, "mapupdate p0.txCache[(*chain.Transaction).GetID(p1.Block.Block.Txs[*])] = alloc(complit)")
		okk := len(txs) == 1 && len(findEffects(cb, "store alloc(complit).blkHeight = "+H)) == 1
		if okk {
			idx := findEffects(cb, "store alloc(complit).index = *")
			okk = len(idx) == 1 && strings.Contains(txs[0].Str, "Txs["+strings.TrimPrefix(idx[0].Str, "store alloc(complit).index = ")+"]")
			for _, c := range txs[0].Conds() {
				if !strings.Contains(c, "builtin.len(p1.Block.Block.Txs)") {
					okk = false // a filter on the transactions
				}
			}
		}
		r.check(okk, "C31.R2", "insert:every-tx->(height,position)", w.rel(cb.Pos()), "", "not every transaction of the block is recorded with the block's height and its own position")

		// R7: repeated delivery of a block below the latest one never moves the window
		var moves []ssa.Instruction
		for _, e := range effectsOf(ins) {
			if strings.HasPrefix(e.Str, "store p0.lastHeight = ") || strings.HasPrefix(e.Str, "call (*api/indexer.Indexer).evictBlockFromCache(p0, ") || strings.HasPrefix(e.Str, "call builtin.delete(p0.") {
				moves = append(moves, e.Ins)
			}
		}
		if len(older) == 0 {
			r.bad("C31.R7", "insert:window-never-moves-back", w.rel(ins.Pos()), "insertBlockIntoCache has no test for a block below the last height: a repeated delivery of an older block lowers lastHeight (GetLatestBlock regresses) and evicts relative to the older block")
		} else {
			okM := len(moves) > 0
			why := ""
			for _, e := range older {
				for _, m := range moves {
					if found, _ := pathExists(point{ins.Blocks[e[0]].Succs[e[1]], 0}, isInstr(m), nil, nil); found {
						okM = false
						why = describe(m)
					}
				}
			}
			r.check(okM, "C31.R7", "insert:window-never-moves-back", w.rel(ins.Pos()), fmt.Sprintf("%d window-moving effects, none reachable once %s < p0.lastHeight", len(moves), H), "for a block below the last height the window is still moved: "+why)
		}
		if len(leftWindow) == 0 {
			r.bad("C31.R7", "insert:left-window-not-readmitted", w.rel(ins.Pos()), "a repeated delivery of a block that already left the window is admitted again: blocks and transactions older than the window are served until the next restart")
		} else {
			okA := true
			for _, e := range leftWindow {
				isAdmit := isCache
				if cb == ins {
					isAdmit = func(i ssa.Instruction) bool { _, ok := i.(*ssa.MapUpdate); return ok }
				}
				if found, _ := pathExists(point{ins.Blocks[e[0]].Succs[e[1]], 0}, isAdmit, nil, nil); found {
					okA = false
				}
			}
			r.check(okA, "C31.R7", "insert:left-window-not-readmitted", w.rel(ins.Pos()), "no admission reachable once p0.blockWindow <= (p0.lastHeight - "+H+")", "a block that already left the window can still be admitted")
		}

		// R3: eviction calls
		var evs []*effect
		for _, e := range effectsOf(ins) {
			if strings.HasPrefix(e.Str, "call (*api/indexer.Indexer).evictBlockFromCache(p0, ") || strings.HasPrefix(e.Str, "call builtin.delete(p0.blockHeightToBlock, ") {
				evs = append(evs, e)
			}
		}
		low := "(" + H + " - p0.blockWindow)"
		var exact, ranged *effect
		for _, e := range evs {
			switch {
			case strings.Contains(e.Str, low+")"):
				exact = e
			case strings.Contains(e.Str, "next(range(p0.blockHeightToBlock))#1"):
				ranged = e
			}
		}
		if ranged == nil {
			r.bad("C31.R3", "insert:evicts-every-height-below-window", w.rel(ins.Pos()), "only the block exactly one window below the new block is evicted: after a height gap older blocks and their transactions stay served, and a later restart changes the answers")
		} else {
			cs := ranged.Conds()
			r.check(hasMatch(cs, "next(range(p0.blockHeightToBlock))#1 <= "+low), "C31.R3", "insert:evicts-every-height-below-window", r.at(w, ranged.Ins), "every cached height <= h - window", "the ranged eviction does not select every cached height <= new height - window: "+strings.Join(cs, " ; "))
			extra := ""
			for _, c := range cs {
				if !(strings.Contains(c, "next(range(p0.blockHeightToBlock))") || c == "p0.blockWindow <= "+H) {
					// conditions that route to the exact branch instead are allowed only in their negated successor form
					if !(strings.Contains(c, "p0.lastHeight")) {
						extra = c
					}
				}
			}
			r.check(extra == "", "C31.R3", "insert:ranged-eviction-not-otherwise-restricted", r.at(w, ranged.Ins), "", "the ranged eviction is restricted by "+extra)
		}
		if exact != nil {
			cs := exact.Conds()
			r.check(ranged == nil || hasMatch(cs, "(1 + p0.lastHeight) == "+H), "C31.R3", "insert:exact-eviction-only-for-direct-successor", r.at(w, exact.Ins), "", "the single-height eviction is used although the block is not the direct successor of the last one: "+strings.Join(cs, " ; "))
		}
		// skipped only on wrap
		okW := len(evs) > 0
		for _, e := range evs {
			for _, c := range e.Conds() {
				if strings.Contains(c, "p0.blockWindow") && !strings.Contains(c, "next(range(") && c != "p0.blockWindow <= "+H {
					okW = false
				}
			}
		}
		r.check(okW, "C31.R3", "insert:eviction-skipped-only-on-wrap", w.rel(ins.Pos()), "", "eviction is skipped for heights where height - window does not wrap")
		// eviction precedes the insertion of the new block (the new block is never evicted by its own insertion)
		if hb := findEffects(ins, "mapupdate p0.blockHeightToBlock["+H+"] = p1"); len(hb) == 1 {
			okO := true
			for _, e := range evs {
				if found, _ := pathExists(after(hb[0].Ins), isInstr(e.Ins), nil, nil); found {
					okO = false
				}
			}
			r.check(okO, "C31.R3", "insert:evict-before-insert", r.at(w, hb[0].Ins), "", "eviction can run after the new block was inserted")
		}
	}
	ev := w.Fn(nmIdx + "evictBlockFromCache")
	evName := "evictBlockFromCache"
	blk := "p0.blockHeightToBlock[p1]#0"
	if ev == nil {
		ev, evName = ins, "insertBlockIntoCache"
		blk = "p0.blockHeightToBlock[" + "(" + H + " - p0.blockWindow)" + "]#0"
	}
	if ev != nil {
		r.saw(ev)
		d1 := findEffects(ev, "call builtin.delete(p0.blockIDToHeight, (*chain.StatelessBlock).GetID("+blk+".Block))")
		d2 := findEffects(ev, "call builtin.delete(p0.blockHeightToBlock, *)")
		d3 := findEffects(ev, "call builtin.delete(p0.txCache, (*chain.Transaction).GetID("+blk+".Block.Block.Txs[*]))")
		r.check(len(d1) == 1, "C31.R2", evName+":evict:id", w.rel(ev.Pos()), "", "eviction does not remove the evicted block's ID")
		okH := len(d2) == 1
		if okH {
			a := term(d2[0].Ins.(ssa.CallInstruction).Common().Args[1])
			okH = a == "p1" && evName == "evictBlockFromCache" || strings.Contains(a, "GetHeight("+blk) || a == "("+H+" - p0.blockWindow)"
		}
		r.check(okH, "C31.R2", evName+":evict:height", w.rel(ev.Pos()), "", "eviction does not remove the evicted block's height entry")
		okT := len(d3) == 1
		if okT {
			for _, c := range d3[0].Conds() {
				if !(strings.Contains(c, "builtin.len(") || strings.HasSuffix(c, "]#1")) {
					okT = false
				}
			}
		}
		r.check(okT, "C31.R2", evName+":evict:every-tx", w.rel(ev.Pos()), "", "eviction does not remove every transaction of the evicted block")
	}

	// R4
	nt := r.fn(w, "C31.R4", nmIdx+"Notify")
	if nt != nil {
		ic := oneCallTo(nt, "Indexer).insertBlockIntoCache")
		sc := oneCallTo(nt, "Indexer).storeBlock")
		if ic != nil && sc != nil {
			r.requireOrder(w, "C31.R4", "Notify:cache-then-store", ic, sc)
			outs := returnOutcomes(nt)
			okk := len(outs) > 0
			for _, o := range outs {
				stored := len(o.Vals) == 1 && sameValue(o.Vals[0], sc.Value())
				// the store is skipped only for a block the cache refused (it already left the window)
				refused := len(o.Vals) == 1 && isNilConst(o.Vals[0]) && ic.Value() != nil && hasStr(o.Conds, "!"+term(ic.Value()))
				if !stored && !refused {
					okk = false
				}
			}
			r.check(okk && term(callArgs(ic)[1]) == "p2" && term(callArgs(sc)[1]) == "p2", "C31.R4", "Notify:store-result-returned", r.at(w, sc), "", "Notify does not cache and store the notified block and return the store's result")
		} else {
			r.missing("C31.R4", "Notify:shape", "insertBlockIntoCache / storeBlock not called exactly once")
		}
	}
	sb := r.fn(w, "C31.R4", nmIdx+"storeBlock")
	if sb != nil {
		put := findEffects(sb, "call (ago/database.KeyValueWriter).Put((*internal/pebble.Database).NewBatch(p0.blockDB), api/indexer.blockEntryKey("+H+"), (*chain.ExecutedBlock).Marshal(p1)#0)")
		del := findEffects(sb, "call (ago/database.KeyValueDeleter).Delete((*internal/pebble.Database).NewBatch(p0.blockDB), api/indexer.blockEntryKey(("+H+" - p0.blockWindow)))")
		wr := findEffects(sb, "call (ago/database.Batch).Write((*internal/pebble.Database).NewBatch(p0.blockDB))")
		// two NewBatch calls render alike: the three operations must also be on the same batch value
		sameBatch := len(put) == 1 && len(del) == 1 && len(wr) == 1
		if sameBatch {
			b0 := strip(callArgs(put[0].Ins.(ssa.CallInstruction))[0])
			sameBatch = strip(callArgs(del[0].Ins.(ssa.CallInstruction))[0]) == b0 && strip(callArgs(wr[0].Ins.(ssa.CallInstruction))[0]) == b0
		}
		r.check(len(put) == 1 && len(del) == 1 && len(wr) == 1 && sameBatch, "C31.R4", "storeBlock:put+delete-in-one-batch", w.rel(sb.Pos()), "Put(key(h), bytes), Delete(key(h - window)), Write on one batch",
			fmt.Sprintf("storeBlock does not put the block at its height and delete height - window in one batch (%d/%d/%d)", len(put), len(del), len(wr)))
		if len(put) == 1 && len(del) == 1 && len(wr) == 1 {
			r.successGuards(w, "C31.R4", "storeBlock:write-after-put", put[0].Ins.(ssa.CallInstruction), wr[0].Ins)
			r.successGuards(w, "C31.R4", "storeBlock:write-after-delete", del[0].Ins.(ssa.CallInstruction), wr[0].Ins)
			okk := true
			for _, o := range returnOutcomes(sb) {
				if o.isPotentialSuccess() && !(len(o.Vals) == 1 && sameValue(o.Vals[0], wr[0].Ins.(ssa.Value))) {
					okk = false
				}
			}
			r.check(okk, "C31.R4", "storeBlock:write-is-only-success-exit", r.at(w, wr[0].Ins), "", "storeBlock can report success without the batch having been written")
		}
	}

	// R5
	ib := r.fn(w, "C31.R5", nmIdx+"initBlocks")
	if ib != nil {
		um := oneCallTo(ib, "chain.UnmarshalExecutedBlock")
		ic := oneCallTo(ib, "Indexer).insertBlockIntoCache")
		ie := oneCallTo(ib, "(ago/database.Iterator).Error")
		if um != nil && ic != nil && ie != nil {
			r.successGuards(w, "C31.R5", "initBlocks:insert-decoded-block", um, ic)
			r.check(sameValue(callArgs(ic)[1], resultOf(um, 0)), "C31.R5", "initBlocks:insert-what-was-decoded", r.at(w, ic), "", "the block inserted at start-up is not the block decoded from the store")
			r.failureLeadsToErrorReturn(w, "C31.R5", "initBlocks:decode-error-returned", um)
			r.failureLeadsToErrorReturn(w, "C31.R5", "initBlocks:iterator-error-returned", ie)
			// no stored block is skipped: between Next()==true and the insertion the only exit is the decode error
			okk := true
			for _, c := range condStrings(ctrlConds(ic.Block())) {
				if !(strings.Contains(c, "Iterator).Next(") || strings.Contains(c, "UnmarshalExecutedBlock(")) {
					okk = false
				}
			}
			r.check(okk, "C31.R5", "initBlocks:every-stored-block", r.at(w, ic), "", "a stored block can be skipped at start-up")
		} else {
			r.missing("C31.R5", "initBlocks:shape", "UnmarshalExecutedBlock / insertBlockIntoCache / Iterator.Error not found exactly once")
		}
		// the block reloaded at start-up equals the one that was notified: the encoding drops an empty results
		// field (genesis), so the decoder must restore the empty value on every success path
		if ud := w.Fn(pkgChain + ".UnmarshalExecutedBlock"); ud != nil {
			r.saw(ud)
			nilEdges := predTrueEdges(ud, []string{"*.ExecutionResults == nil"})
			st := findEffects(ud, "store *.ExecutionResults = alloc(complit)")
			okk := len(nilEdges) > 0 && len(st) == 1
			if okk {
				for _, e := range nilEdges {
					if found, _ := pathExists(point{ud.Blocks[e[0]].Succs[e[1]], 0}, isReturn, isInstr(st[0].Ins), nil); found {
						okk = false
					}
				}
			}
			r.check(okk, "C31.R5", "UnmarshalExecutedBlock:empty-results-restored", w.rel(ud.Pos()), "", "a stored block whose execution results encode to nothing (the genesis block) is reloaded with nil results: the answer for that height changes across a restart")
		} else {
			r.missing("C31.R5", "UnmarshalExecutedBlock", "decoder not found")
		}
		dr := findEffects(ib, "call (*internal/pebble.Database).DeleteRange(p0.blockDB, api/indexer.blockEntryKey(0), api/indexer.blockEntryKey(*))")
		if len(dr) == 1 {
			end := dr[0].Str[strings.LastIndex(dr[0].Str, "blockEntryKey(")+len("blockEntryKey("):]
			end = strings.TrimSuffix(end, "))")
			r.check(end == "(p0.lastHeight - p0.blockWindow)" || end == "(1 + (p0.lastHeight - p0.blockWindow))", "C31.R5", "initBlocks:trim-below-window-only", r.at(w, dr[0].Ins), "", "the start-up trim deletes stored blocks inside the window (end key "+end+")")
			r.check(hasMatch(dr[0].Conds(), "p0.blockWindow < p0.lastHeight") || hasMatch(dr[0].Conds(), "p0.blockWindow <= p0.lastHeight"), "C31.R5", "initBlocks:trim-only-without-wrap", r.at(w, dr[0].Ins), "", "the start-up trim runs although lastHeight - window wraps")
		}
	}

	// R6
	gt := r.fn(w, "C31.R6", nmIdx+"GetTransaction")
	if gt != nil {
		B := "p0.blockHeightToBlock[p0.txCache[p1]#0.blkHeight]#0"
		I := "p0.txCache[p1]#0.index"
		n := 0
		okk := true
		for _, o := range returnOutcomes(gt) {
			if len(o.Vals) != 5 || term(o.Vals[0]) != "true" {
				continue
			}
			n++
			okk = okk && glob("p0.blockHeightToBlock[*.txCache[p1]#0.blkHeight]#0.Block.Block.Txs["+I+"]", term(o.Vals[1])) && term(o.Vals[2]) == B+".Block.Block.Tmstmp" && term(o.Vals[3]) == B+".ExecutionResults.Results["+I+"]" &&
				hasStr(o.Conds, "p0.txCache[p1]#1") && hasStr(o.Conds, "p0.blockHeightToBlock[p0.txCache[p1]#0.blkHeight]#1")
		}
		r.check(okk && n == 1, "C31.R6", "GetTransaction:found=>tx,timestamp,result-of-cached-position", w.rel(gt.Pos()), "", "a transaction is reported found with data that is not the transaction, timestamp and result at its cached height and position")
	}
	gb := r.fn(w, "C31.R6", nmIdx+"GetBlock")
	if gb != nil {
		r.requireEffect(w, "C31.R6", "GetBlock:height-from-id-map", gb, "call (*api/indexer.Indexer).getBlockByHeight(p0, p0.blockIDToHeight[p1]#0)", "p0.blockIDToHeight[p1]#1")
	}
	gh := r.fn(w, "C31.R6", nmIdx+"getBlockByHeight")
	if gh != nil {
		okk := false
		for _, o := range returnOutcomes(gh) {
			if len(o.Vals) == 2 && o.isPotentialSuccess() {
				okk = term(o.Vals[0]) == "p0.blockHeightToBlock[p1]#0" && hasStr(o.Conds, "p0.blockHeightToBlock[p1]#1")
			}
		}
		r.check(okk, "C31.R6", "getBlockByHeight:cached-block-or-error", w.rel(gh.Pos()), "", "getBlockByHeight does not return exactly the cached block of that height")
		r.guardTable(w, "C31.R6", gh, []guardRow{{Preds: []string{"!p0.blockHeightToBlock[p1]#1"}, Sentinel: "api/indexer.errBlockNotFound", Global: true, Label: "unknown-height"}})
	}
	gl := r.fn(w, "C31.R6", nmIdx+"GetLatestBlock")
	if gl != nil {
		r.requireEffect(w, "C31.R6", "GetLatestBlock:lastHeight", gl, "call (*api/indexer.Indexer).getBlockByHeight(p0, p0.lastHeight)", "18446744073709551615 != p0.lastHeight")
	}
}
