package main

import (
	"encoding/json"
	"flag"
	"fmt"
	"os"
	"sort"
	"strconv"
	"strings"
	"time"

	"golang.org/x/tools/go/ssa"
)

type propDef struct {
	ID        string
	Explain   string   // which clause is decided, which is not
	Assume    []string // assumptions
	Technique string   // a few words naming the deciding method
	Run       func(r *Run)
}

var morpheusPatterns = []string{"./actions", "./storage", "./vm", "./consts"}

var props = map[string]*propDef{}

func register(p *propDef) { props[p.ID] = p }

func main() {
	var (
		prop    = flag.String("property", "", "property id (C01..C40) or 'all'")
		tier    = flag.String("tier", "", "quick|thorough (default: $VERIF_TIER or quick)")
		replay  = flag.String("replay", "", "print a recorded violation file and re-run its property")
		dump    = flag.String("dump", "", "debug: dump SSA of the named function (normalised name or suffix)")
		listPkg = flag.String("list", "", "debug: list functions of a package path suffix")
		morph   = flag.Bool("morpheus", false, "debug: use the morpheusvm world for -dump/-list")
		mutant  = flag.String("mutant", "", "internal: run with the named mutant overlay applied (thorough tier)")
		noEv    = flag.Bool("no-evidence", false, "do not write evidence files")
		patch   = flag.String("with-patch", "", "analyse the tree with a unified diff applied in memory (overlay)")
	)
	listProps := flag.Bool("props", false, "print the registered properties as JSON")
	flag.Parse()
	if *listProps {
		var out []map[string]any
		var ids []string
		for id := range props {
			ids = append(ids, id)
		}
		sort.Strings(ids)
		for _, id := range ids {
			out = append(out, map[string]any{"id": id, "explain": props[id].Explain, "assume": props[id].Assume, "technique": props[id].Technique})
		}
		b, _ := json.MarshalIndent(out, "", " ")
		fmt.Println(string(b))
		return
	}
	if os.Getenv("GOWORK") != "" && os.Getenv("GOWORK") != "off" {
		fatal2("GOWORK is set (%s); unset it", os.Getenv("GOWORK"))
	}
	if *tier == "" {
		*tier = os.Getenv("VERIF_TIER")
	}
	if *tier == "" {
		*tier = "quick"
	}
	if *tier != "quick" && *tier != "thorough" {
		fatal2("unknown tier %q", *tier)
	}
	seed := int64(0)
	if s := os.Getenv("VERIF_SEED"); s != "" {
		if v, err := strconv.ParseInt(s, 10, 64); err == nil {
			seed = v
		}
	}

	if *replay != "" {
		b, err := os.ReadFile(*replay)
		if err != nil {
			fatal2("replay: %v", err)
		}
		fmt.Printf("recorded violation:\n%s\n", b)
		var o Obligation
		if err := json.Unmarshal(b, &o); err != nil {
			fatal2("replay: %v", err)
		}
		*prop = o.Property
		*noEv = true
	}

	var overlay map[string][]byte
	if *patch != "" {
		var err error
		overlay, err = overlayFromPatch(*patch)
		if err != nil {
			fatal2("with-patch: %v", err)
		}
		*noEv = true
	}
	if *mutant != "" {
		m := findMutant(*mutant)
		if m == nil {
			fatal2("unknown mutant %s", *mutant)
		}
		ov, err := m.overlay()
		if err != nil {
			fmt.Printf("MUTANT-SKIPPED %s: %v\n", m.Name, err)
			os.Exit(3)
		}
		overlay = ov
		*prop = m.Prop
		*noEv = true
	}

	if *dump != "" || *listPkg != "" {
		debugMain(*dump, *listPkg, *morph, overlay)
		return
	}

	if *prop == "" {
		fmt.Fprintln(os.Stderr, "usage: hsdkcheck -property Cxx [-tier quick|thorough]")
		os.Exit(2)
	}
	ids := []string{*prop}
	if *prop == "all" {
		ids = nil
		for id := range props {
			ids = append(ids, id)
		}
		sort.Strings(ids)
	}
	start := time.Now()
	w, err := loadWorld(repoDir(), []string{"./..."}, 70, overlay)
	if err != nil {
		fatal2("%v", err)
	}
	exit := 0
	var mw *World
	for _, id := range ids {
		pd := props[id]
		if pd == nil {
			fatal2("property %s is not claimed by this checker (see MANIFEST.json not_applicable)", id)
		}
		pstart := time.Now()
		if len(ids) == 1 {
			pstart = start
		}
		r := &Run{Prop: id, Tier: *tier, Seed: seed, W: w, mw: mw, overlay: overlay, explain: pd.Explain, assume: pd.Assume}
		func() {
			defer func() {
				if e := recover(); e != nil {
					// a shape the rules cannot interpret (e.g. after a refactoring): undecided, which fails
					fmt.Fprintf(os.Stderr, "hsdkcheck: internal error while checking %s: %v\n", id, e)
					if os.Getenv("HSDK_PANIC") != "" {
						panic(e)
					}
					r.rule(id+".engine", "engine", "every rule of the property could be evaluated on this tree", 0)
					r.missing(id+".engine", "rules-evaluated", fmt.Sprintf("the analysis aborted: %v", e))
				}
			}()
			pd.Run(r)
		}()
		mw = r.mw
		extra := map[string]any{}
		if *tier == "thorough" && *mutant == "" && *patch == "" {
			res, broken := runThorough(r)
			for k, v := range res {
				extra[k] = v
			}
			if broken {
				code := r.finish(pstart, extra, !*noEv)
				fmt.Printf("hsdkcheck: machinery self-test failed for %s (see evidence: mutants)\n", id)
				if code == 0 {
					code = 2
				}
				if code > exit {
					exit = code
				}
				continue
			}
		}
		code := r.finish(pstart, extra, !*noEv)
		if code > exit {
			exit = code
		}
	}
	os.Exit(exit)
}

func debugMain(dump, listPkg string, morph bool, overlay map[string][]byte) {
	var w *World
	var err error
	if morph {
		w, err = loadWorld(repoDir()+"/examples/morpheusvm", morpheusPatterns, 4, overlay)
	} else {
		w, err = loadWorld(repoDir(), []string{"./..."}, 70, overlay)
	}
	if err != nil {
		fatal2("%v", err)
	}
	if listPkg != "" {
		for _, f := range w.srcFns {
			if f.Pkg != nil && (listPkg == "ALL" || strings.HasSuffix(f.Pkg.Pkg.Path(), listPkg)) {
				fmt.Println(fnName(f))
			}
		}
	}
	if dump != "" {
		for _, f := range w.srcFns {
			n := fnName(f)
			if n == dump || strings.HasSuffix(n, dump) {
				fmt.Printf("=== %s (%s)\n", n, w.rel(f.Pos()))
				if pat := os.Getenv("HSDK_EFF"); pat != "" {
					// compact mode: only matching effects / returns, one condition per line, truncated
					tr := func(s string) string {
						if len(s) > 230 {
							return s[:230] + "…"
						}
						return s
					}
					for _, e := range effectsOf(f) {
						if glob(pat, e.Str) {
							fmt.Printf("EFF %s b%d %s\n", w.rel(instrPos(e.Ins)), e.Ins.Block().Index, tr(e.Str))
							for _, c := range e.Conds() {
								fmt.Printf("      | %s\n", tr(c))
							}
						}
					}
					if pat == "RET" {
						for _, o := range returnOutcomes(f) {
							var vs []string
							for _, v := range o.Vals {
								vs = append(vs, tr(term(v)))
							}
							fmt.Printf("RET %s %v success?=%v vals=%v\n", w.rel(instrPos(o.Ret)), o.Sentinels, o.isPotentialSuccess(), vs)
							for _, c := range o.Conds {
								fmt.Printf("      | %s\n", tr(c))
							}
						}
					}
					continue
				}
				dumpFn(w, f)
				for _, e := range effectsOf(f) {
					if strings.HasPrefix(e.Str, "return") {
						continue
					}
					fmt.Printf("  EFF %s b%d %s   {%s}\n", w.rel(instrPos(e.Ins)), e.Ins.Block().Index, e.Str, strings.Join(e.Conds(), " ; "))
				}
				for _, o := range returnOutcomes(f) {
					fmt.Printf("  RET %s sentinels=%v success?=%v conds={%s}\n", w.rel(instrPos(o.Ret)), o.Sentinels, o.isPotentialSuccess(), strings.Join(o.Conds, " ; "))
				}
			}
		}
	}
}

func dumpFn(w *World, f *ssa.Function) {
	for _, b := range f.Blocks {
		var succ []string
		for _, s := range b.Succs {
			succ = append(succ, fmt.Sprint(s.Index))
		}
		fmt.Printf("b%d: (%s) -> %s\n", b.Index, b.Comment, strings.Join(succ, ","))
		for _, ins := range b.Instrs {
			s := ins.String()
			if v, ok := ins.(ssa.Value); ok {
				s = v.Name() + " = " + s + "     ; " + term(v)
			}
			if ifi, ok := ins.(*ssa.If); ok {
				s += "     ; " + predString(ifi.Cond, true)
			}
			fmt.Printf("   %-8s %s\n", lineOf(w, ins), s)
		}
	}
}

func lineOf(w *World, ins ssa.Instruction) string {
	if !ins.Pos().IsValid() {
		return ""
	}
	return fmt.Sprint(w.Fset.Position(ins.Pos()).Line)
}
