package main

import (
	"fmt"
	"go/token"
	"sort"
	"strings"

	"golang.org/x/tools/go/ssa"
)

// ---------------------------------------------------------------- K6 guard tables

type guardRow struct {
	Preds    []string // normalised conjuncts that must all hold on the failing edge
	Sentinel string   // error global returned, e.g. "chain.ErrInvalidChainID"; "" = any non-nil error
	Global   bool     // not inside a loop: every potential-success return requires the negation of a conjunct
	Label    string
}

func negPred(p string) string {
	for _, pr := range [][2]string{{" <= ", " < "}, {" < ", " <= "}} {
		if i := strings.Index(p, pr[0]); i >= 0 && balanced(p[:i]) {
			// a < b  negated  b <= a
			return p[i+len(pr[0]):] + pr[1] + p[:i]
		}
	}
	if i := strings.Index(p, " == "); i >= 0 && balanced(p[:i]) {
		return p[:i] + " != " + p[i+4:]
	}
	if i := strings.Index(p, " != "); i >= 0 && balanced(p[:i]) {
		return p[:i] + " == " + p[i+4:]
	}
	if strings.HasPrefix(p, "!") {
		return p[1:]
	}
	return "!" + p
}

func balanced(s string) bool {
	d := 0
	for _, c := range s {
		switch c {
		case '(', '[':
			d++
		case ')', ']':
			d--
		}
	}
	return d == 0
}

func containsAll(have []string, want []string) bool {
	for _, w := range want {
		if !hasMatch(have, w) {
			return false
		}
	}
	return true
}

// glob matches s against a pattern in which '*' stands for any (possibly empty) substring.
func glob(pattern, s string) bool {
	if !strings.Contains(pattern, "*") {
		return pattern == s
	}
	// a '*' directly after '(' and before a letter is Go's pointer-receiver syntax "(*pkg.T)", not a wildcard
	var parts []string
	cur := strings.Builder{}
	for i := 0; i < len(pattern); i++ {
		c := pattern[i]
		if c == '*' {
			lit := i > 0 && pattern[i-1] == '(' && i+1 < len(pattern) && (pattern[i+1] >= 'a' && pattern[i+1] <= 'z' || pattern[i+1] >= 'A' && pattern[i+1] <= 'Z')
			if !lit {
				parts = append(parts, cur.String())
				cur.Reset()
				continue
			}
		}
		cur.WriteByte(c)
	}
	parts = append(parts, cur.String())
	if len(parts) == 1 {
		return parts[0] == s
	}
	if !strings.HasPrefix(s, parts[0]) {
		return false
	}
	s = s[len(parts[0]):]
	for i := 1; i < len(parts)-1; i++ {
		j := strings.Index(s, parts[i])
		if j < 0 {
			return false
		}
		s = s[j+len(parts[i]):]
	}
	return strings.HasSuffix(s, parts[len(parts)-1])
}

func hasMatch(list []string, pattern string) bool {
	for _, x := range list {
		if glob(pattern, x) {
			return true
		}
	}
	return false
}

// isPotentialSuccess: the outcome may return a nil error (literal nil, or an unconditionally propagated call result).
func (o retOutcome) isPotentialSuccess() bool {
	if len(o.Sentinels) == 0 {
		return true
	}
	if o.NonNil {
		return false
	}
	for _, s := range o.Sentinels {
		if s == "nil" {
			return true
		}
		if strings.HasPrefix(s, "err:") {
			// propagated: an error return only if a controlling condition establishes non-nil
			nonNil := false
			for _, c := range o.Conds {
				if c == "nil != "+o.ErrTerm || c == o.ErrTerm+" != nil" || strings.HasPrefix(c, "errors.Is("+o.ErrTerm+",") {
					nonNil = true
				}
			}
			if !nonNil {
				return true
			}
		}
	}
	return false
}

// guardTable checks, for each row, that (1) some return carrying the sentinel is controlled by exactly the
// row's predicates, (2) from every edge on which all the predicates hold only returns carrying the sentinel
// are reachable, and (3) for Global rows, every potential-success return is controlled by the negation of a conjunct.
func (r *Run) guardTable(w *World, rule string, fn *ssa.Function, rows []guardRow) {
	if fn == nil {
		return
	}
	outs := returnOutcomes(fn)
	fname := short(fnName(fn))
	for _, row := range rows {
		label := row.Label
		if label == "" {
			label = strings.Join(row.Preds, " && ") + " => " + row.Sentinel
		}
		cons := fname + ":" + label
		// (1)
		var found *retOutcome
		for i := range outs {
			o := &outs[i]
			if (row.Sentinel == "" && !o.isPotentialSuccess() || hasStr(o.Sentinels, row.Sentinel)) && containsAll(o.Conds, row.Preds) {
				found = o
				break
			}
		}
		if found == nil {
			var have []string
			for _, o := range outs {
				if hasStr(o.Sentinels, row.Sentinel) {
					have = append(have, "{"+strings.Join(o.Conds, " ; ")+"}")
				}
			}
			r.bad(rule, cons, w.rel(fn.Pos()), fmt.Sprintf("no return of %s is controlled by [%s]; returns of that error are controlled by %v", row.Sentinel, strings.Join(row.Preds, " && "), have))
			continue
		}
		// (2)
		edges := predTrueEdges(fn, row.Preds)
		if len(edges) == 0 {
			// the guard may have been moved into a helper that did not exist on the reference tree
			if why, ok := r.guardInHelper(w, fn, row, outs); ok {
				r.ok(rule, cons, w.rel(instrPos(found.Ret)), "guard found in a looked-through helper: "+why)
			} else {
				r.bad(rule, cons, w.rel(fn.Pos()), "no branch edge on which all of ["+strings.Join(row.Preds, " && ")+"] hold"+why)
			}
			continue
		}
		escaped := ""
		for _, e := range edges {
			tgt := fn.Blocks[e[0]].Succs[e[1]]
			for _, o := range outs {
				if row.Sentinel != "" && len(o.Sentinels) == 1 && o.Sentinels[0] == row.Sentinel {
					continue
				}
				if row.Sentinel == "" && !o.isPotentialSuccess() {
					continue
				}
				// reachable from tgt?
				blk := o.Ret.Block()
				if o.Pred != nil {
					blk = o.Pred
				}
				if blk == tgt || blockReachable(tgt, blk) {
					// for a phi-expanded return sharing the block, make sure this outcome's conds are compatible (contain preds)
					if o.Pred != nil && !containsAll(o.Conds, row.Preds) {
						continue
					}
					escaped = fmt.Sprintf("return at %s with outcome %v reachable although [%s] holds", w.rel(instrPos(o.Ret)), o.Sentinels, strings.Join(row.Preds, " && "))
				}
			}
		}
		if escaped != "" {
			r.bad(rule, cons, w.rel(instrPos(found.Ret)), escaped)
			continue
		}
		// (3)
		if row.Global {
			var negs []string
			for _, p := range row.Preds {
				negs = append(negs, negPred(p))
			}
			miss := ""
			for _, o := range outs {
				if !o.isPotentialSuccess() {
					continue
				}
				okk := false
				for _, n := range negs {
					if hasMatch(o.Conds, n) {
						okk = true
					}
				}
				if !okk {
					miss = fmt.Sprintf("return at %s (outcome %v) can succeed without [%s] having been excluded; its controlling conditions are {%s}", w.rel(instrPos(o.Ret)), o.Sentinels, strings.Join(row.Preds, " && "), strings.Join(o.Conds, " ; "))
					break
				}
			}
			if miss != "" {
				r.bad(rule, cons, w.rel(instrPos(found.Ret)), miss)
				continue
			}
		}
		r.ok(rule, cons, w.rel(instrPos(found.Ret)), "controlled by {"+strings.Join(found.Conds, " ; ")+"}")
	}
}

func blockReachable(from, to *ssa.BasicBlock) bool {
	seen := map[*ssa.BasicBlock]bool{from: true}
	q := []*ssa.BasicBlock{from}
	for len(q) > 0 {
		b := q[0]
		q = q[1:]
		for _, s := range b.Succs {
			if s == to {
				return true
			}
			if !seen[s] {
				seen[s] = true
				q = append(q, s)
			}
		}
	}
	return false
}

// predTrueEdges returns the branch edges whose own condition is one of preds and on which all preds hold.
// guardInHelper looks for a guard row's branch inside helpers called by fn that did not exist on the reference tree:
// in the helper (with the caller's arguments substituted) the edge on which the predicates hold must lead only to
// returns of the sentinel, the helper's success returns must exclude the predicates (Global rows), and in fn an error
// from the helper must always be returned while fn's success returns lie behind the helper's success.
func (r *Run) guardInHelper(w *World, fn *ssa.Function, row guardRow, outs []retOutcome) (string, bool) {
	why := ""
	for _, b := range fn.Blocks {
		for _, ins := range b.Instrs {
			ci, ok := ins.(*ssa.Call)
			if !ok {
				continue
			}
			callee := transparentCallee(ci)
			if callee == nil || callee == fn {
				continue
			}
			okHelper := false
			withCallEnv(ci, callee, func() {
				edges := predTrueEdges(callee, row.Preds)
				if len(edges) == 0 {
					return
				}
				couts := returnOutcomes(callee)
				okHelper = true
				for _, e := range edges {
					tgt := callee.Blocks[e[0]].Succs[e[1]]
					for _, o := range couts {
						if row.Sentinel != "" && len(o.Sentinels) == 1 && o.Sentinels[0] == row.Sentinel || row.Sentinel == "" && !o.isPotentialSuccess() {
							continue
						}
						blk := o.Ret.Block()
						if o.Pred != nil {
							blk = o.Pred
						}
						if (blk == tgt || blockReachable(tgt, blk)) && !(o.Pred != nil && !containsAll(o.Conds, row.Preds)) {
							okHelper = false
							why = fmt.Sprintf("; in helper %s a return with outcome %v is reachable although the predicates hold", short(fnName(callee)), o.Sentinels)
						}
					}
				}
				if row.Global {
					for _, o := range couts {
						if !o.isPotentialSuccess() {
							continue
						}
						excl := false
						for _, p := range row.Preds {
							if hasMatch(o.Conds, negPred(p)) {
								excl = true
							}
						}
						if !excl {
							okHelper = false
							why = fmt.Sprintf("; helper %s can succeed without the predicates having been excluded", short(fnName(callee)))
						}
					}
				}
			})
			if !okHelper {
				continue
			}
			// in fn: the helper's error is returned, and success is reachable only after the helper succeeded
			if !failureReturnsError(ci) {
				why = fmt.Sprintf("; the error of helper %s is not returned by %s", short(fnName(callee)), short(fnName(fn)))
				continue
			}
			okS := true
			if row.Global {
				for _, o := range outs {
					if o.isPotentialSuccess() && !onlyViaSuccess(ci, o.Ret, true) {
						okS = false
						why = fmt.Sprintf("; %s can succeed without helper %s having succeeded", short(fnName(fn)), short(fnName(callee)))
					}
				}
			}
			if okS {
				return short(fnName(callee)), true
			}
		}
	}
	return why, false
}

// failureReturnsError: on every edge where ci's error result is known to be non-nil only error returns are reachable.
func failureReturnsError(ci ssa.CallInstruction) bool {
	fn := ci.Parent()
	succRet := map[*ssa.Return]bool{}
	for _, o := range returnOutcomes(fn) {
		if o.isPotentialSuccess() {
			succRet[o.Ret] = true
		}
	}
	okk, tested := failEdgeAvoids(ci, func(i ssa.Instruction) bool {
		ret, ok := i.(*ssa.Return)
		return ok && succRet[ret]
	})
	return okk && tested
}

func predTrueEdges(fn *ssa.Function, preds []string) []edgeKey {
	var out []edgeKey
	for _, b := range fn.Blocks {
		if len(b.Instrs) == 0 {
			continue
		}
		ifi, ok := b.Instrs[len(b.Instrs)-1].(*ssa.If)
		if !ok || b.Succs[0] == b.Succs[1] {
			continue
		}
		for s := 0; s < 2; s++ {
			own := predString(ifi.Cond, s == 0)
			isOwn := false
			for _, p := range preds {
				if glob(p, own) {
					isOwn = true
				}
			}
			if !isOwn {
				continue
			}
			if containsAll(condStrings(ctrlCondsEdge(b, s)), preds) {
				out = append(out, edgeKey{b.Index, s})
			}
		}
	}
	return out
}

// ---------------------------------------------------------------- argument / value terms

func argTerms(ci ssa.CallInstruction) []string {
	var out []string
	for _, a := range callArgs(ci) {
		out = append(out, term(a))
	}
	return out
}

// requireArgs checks that call's argument terms equal want ("" = don't care).
func (r *Run) requireArgs(w *World, rule, construct string, ci ssa.CallInstruction, want []string) bool {
	got := argTerms(ci)
	okk := len(got) >= len(want)
	if okk {
		for i, wv := range want {
			if wv != "" && got[i] != wv {
				okk = false
			}
		}
	}
	return r.check(okk, rule, construct, r.at(w, ci), "args "+strings.Join(got, " | "), fmt.Sprintf("arguments are [%s], required [%s]", strings.Join(got, " | "), strings.Join(want, " | ")))
}

// oneCall returns the single call to one of names in fn, recording mechanism-missing otherwise.
func (r *Run) oneCall(w *World, rule string, fn *ssa.Function, names ...string) ssa.CallInstruction {
	if fn == nil {
		return nil
	}
	cs := callsNamed(fn, names...)
	if len(cs) == 0 {
		r.missing(rule, short(fnName(fn))+":call:"+short(names[0]), "no call of "+short(names[0])+" in "+short(fnName(fn)))
		return nil
	}
	return cs[0]
}

// errorReturnsOnFailure: on the failing edge of call (its error non-nil) the function returns a non-nil error
// (the potential-success returns are unreachable from the failing edge without re-executing the call).
func (r *Run) failureLeadsToErrorReturn(w *World, rule, construct string, call ssa.CallInstruction) bool {
	fn := call.Parent()
	outs := returnOutcomes(fn)
	tested := false
	for _, ev := range errResults(call) {
		pos, _ := truthEdges(ev)
		for k := range pos {
			tested = true
			tgt := fn.Blocks[k[0]].Succs[k[1]]
			for _, o := range outs {
				if !o.isPotentialSuccess() {
					continue
				}
				blk := o.Ret.Block()
				if o.Pred != nil {
					blk = o.Pred
				}
				found, _ := pathExists(point{tgt, 0}, func(i ssa.Instruction) bool { return i.Block() == blk }, isInstr(call), nil)
				if found {
					return r.check(false, rule, construct, r.at(w, call), "", fmt.Sprintf("after %s fails, the return at %s (outcome %v) is reachable", short(calleeName(call)), w.rel(instrPos(o.Ret)), o.Sentinels))
				}
			}
		}
	}
	if !tested {
		// direct propagation "return f()" counts as tested
		if cv, ok := call.(*ssa.Call); ok {
			for _, ref := range *cv.Referrers() {
				if _, ok := ref.(*ssa.Return); ok {
					return r.check(true, rule, construct, r.at(w, call), "error propagated by return", "")
				}
			}
			// "return f()" with several results: the extracted error is the last operand of the return(s) and has
			// no other use
			evs := errResults(call)
			prop := len(evs) > 0
			for _, ev := range evs {
				refs := ev.Referrers()
				if refs == nil || len(*refs) == 0 {
					prop = false
					continue
				}
				for _, ref := range *refs {
					ret, isRet := ref.(*ssa.Return)
					if _, isDbg := ref.(*ssa.DebugRef); isDbg {
						continue
					}
					if !isRet || len(ret.Results) == 0 || ret.Results[len(ret.Results)-1] != ev {
						prop = false
					}
				}
			}
			if prop {
				return r.check(true, rule, construct, r.at(w, call), "error propagated by return", "")
			}
		}
		return r.check(false, rule, construct, r.at(w, call), "", "error result of "+short(calleeName(call))+" is never tested")
	}
	return r.check(true, rule, construct, r.at(w, call), "failing edge reaches only error returns", "")
}

// guards: target is reachable only after call succeeded (dominance + nil edge).
func (r *Run) successGuards(w *World, rule, construct string, call ssa.CallInstruction, target ssa.Instruction) bool {
	if call == nil || target == nil {
		return false
	}
	okk := onlyViaSuccess(call, target, true)
	return r.check(okk, rule, construct, r.at(w, target),
		short(calleeName(call))+" success edge dominates",
		fmt.Sprintf("%s at %s is reachable without a successful %s (at %s)", describe(target), w.rel(instrPos(target)), short(calleeName(call)), w.rel(instrPos(call))))
}

func describe(ins ssa.Instruction) string {
	if ci, ok := ins.(ssa.CallInstruction); ok {
		n := short(calleeName(ci))
		if n == "" {
			n = "dynamic call"
		}
		return "call " + n
	}
	switch v := ins.(type) {
	case *ssa.Store:
		return "store to " + term(v.Addr)
	case *ssa.MapUpdate:
		return "map update " + term(v.Map)
	case *ssa.Return:
		return "return"
	case *ssa.Send:
		return "send on " + term(v.Chan)
	case *ssa.If:
		return "branch " + predString(v.Cond, true)
	}
	if v, ok := ins.(ssa.Value); ok {
		return term(v)
	}
	return ins.String()
}

// ---------------------------------------------------------------- loops

// loopBlocks returns the set of blocks in the natural loop with the given header (blocks that can reach a
// back edge to header without leaving through header).
func naturalLoop(header *ssa.BasicBlock) map[*ssa.BasicBlock]bool {
	loop := map[*ssa.BasicBlock]bool{header: true}
	var stack []*ssa.BasicBlock
	for _, p := range header.Preds {
		if header.Dominates(p) && !loop[p] {
			loop[p] = true
			stack = append(stack, p)
		}
	}
	for len(stack) > 0 {
		b := stack[len(stack)-1]
		stack = stack[:len(stack)-1]
		for _, p := range b.Preds {
			if !loop[p] {
				loop[p] = true
				stack = append(stack, p)
			}
		}
	}
	if len(loop) == 1 {
		// self loop?
		for _, p := range header.Preds {
			if p == header {
				return loop
			}
		}
		return nil
	}
	return loop
}

func loopHeaders(fn *ssa.Function) []*ssa.BasicBlock {
	var out []*ssa.BasicBlock
	for _, b := range fn.Blocks {
		for _, p := range b.Preds {
			if b.Dominates(p) {
				out = append(out, b)
				break
			}
		}
	}
	return out
}

// inLoopOf returns the innermost loop header whose natural loop contains b, or nil.
func innermostLoop(b *ssa.BasicBlock) (*ssa.BasicBlock, map[*ssa.BasicBlock]bool) {
	var best *ssa.BasicBlock
	var bestSet map[*ssa.BasicBlock]bool
	for _, h := range loopHeaders(b.Parent()) {
		l := naturalLoop(h)
		if l[b] && (bestSet == nil || len(l) < len(bestSet)) {
			best, bestSet = h, l
		}
	}
	return best, bestSet
}

// earlyLoopExits lists the blocks inside the loop (other than its header) that leave it towards the code
// following the loop, i.e. break-like exits; exits that never reach the loop's normal continuation (returns, panics)
// are not listed.
func earlyLoopExits(h *ssa.BasicBlock, loop map[*ssa.BasicBlock]bool) []*ssa.BasicBlock {
	var done []*ssa.BasicBlock
	for _, s := range h.Succs {
		if !loop[s] {
			done = append(done, s)
		}
	}
	isDone := func(i ssa.Instruction) bool {
		if instrIndex(i) != 0 {
			return false
		}
		for _, d := range done {
			if i.Block() == d {
				return true
			}
		}
		return false
	}
	var out []*ssa.BasicBlock
	for _, b := range h.Parent().Blocks {
		if !loop[b] || b == h {
			continue
		}
		for _, s := range b.Succs {
			if loop[s] {
				continue
			}
			if found, _ := pathExists(point{s, 0}, isDone, nil, nil); found {
				out = append(out, b)
				break
			}
		}
	}
	return out
}

// ---------------------------------------------------------------- misc

func posLess(a, b ssa.Instruction) bool { return instrPos(a) < instrPos(b) }

func sortCalls(cs []ssa.CallInstruction) {
	sort.SliceStable(cs, func(i, j int) bool { return instrPos(cs[i]) < instrPos(cs[j]) })
}

// binops returns BinOp instructions in fn with the given operators.
func binops(fn *ssa.Function, ops ...token.Token) []*ssa.BinOp {
	var out []*ssa.BinOp
	eachInstr(fn, func(ins ssa.Instruction) {
		if b, ok := ins.(*ssa.BinOp); ok {
			for _, o := range ops {
				if b.Op == o {
					out = append(out, b)
				}
			}
		}
	})
	return out
}
