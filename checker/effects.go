package main

import (
	"fmt"
	"sort"
	"strings"

	"golang.org/x/tools/go/ssa"
)

// An effect is an instruction with an observable side effect, rendered canonically:
//   mapupdate M[K] = V | store A = V | send C <- V | call name(args) | go name(args) | defer name(args) | return V...
func effectString(ins ssa.Instruction) string {
	switch v := ins.(type) {
	case *ssa.MapUpdate:
		return "mapupdate " + term(v.Map) + "[" + term(v.Key) + "] = " + term(v.Value)
	case *ssa.Store:
		return "store " + term(v.Addr) + " = " + term(v.Val)
	case *ssa.Send:
		return "send " + term(v.Chan) + " <- " + term(v.X)
	case *ssa.Call:
		return "call " + callString(v)
	case *ssa.Go:
		return "go " + callString(v)
	case *ssa.Defer:
		return "defer " + callString(v)
	case *ssa.Return:
		var rs []string
		for _, x := range v.Results {
			rs = append(rs, term(x))
		}
		return "return " + strings.Join(rs, ", ")
	case *ssa.Panic:
		return "panic " + term(v.X)
	}
	return ""
}

func callString(ci ssa.CallInstruction) string {
	name := short(calleeName(ci))
	if name == "" {
		name = "dyn:" + term(ci.Common().Value)
	}
	return name + "(" + strings.Join(argTerms(ci), ", ") + ")"
}

type effect struct {
	Ins   ssa.Instruction // where it happens in the analysed function (the call site for lifted effects)
	Str   string
	conds []string
	have  bool
	Inner ssa.Instruction // for an effect lifted out of a helper: the instruction inside the helper
	Locks map[string]int  // for a lifted effect: locks the helper itself holds at that point (1 read, 2 write)
}

// effBefore: a happens before b on every path reaching b. Effects lifted out of one helper call are ordered inside the helper.
func effBefore(a, b *effect) bool {
	if a.Ins != b.Ins {
		return dominatesI(a.Ins, b.Ins)
	}
	if a.Inner != nil && b.Inner != nil && a.Inner.Parent() == b.Inner.Parent() && a.Inner != b.Inner {
		return dominatesI(a.Inner, b.Inner)
	}
	return false
}

// heldAt returns how the lock named key is held where e happens: by the analysed function at e.Ins, or by the
// looked-through helper around the effect itself.
func heldAt(ls map[*ssa.BasicBlock][]lockState, e *effect, key string) int {
	h := 0
	if rec := ls[e.Ins.Block()]; rec != nil && instrIndex(e.Ins) < len(rec) {
		h = rec[instrIndex(e.Ins)][key]
	}
	if v := e.Locks[key]; v > h {
		h = v
	}
	return h
}

func (e *effect) Conds() []string {
	if !e.have {
		e.conds = condStrings(ctrlConds(e.Ins.Block()))
		e.have = true
	}
	return e.conds
}

func effectsOf(fn *ssa.Function) []*effect {
	var out []*effect
	eachInstr(fn, func(ins ssa.Instruction) {
		if s := effectString(ins); s != "" {
			out = append(out, &effect{Ins: ins, Str: s})
		}
		// look through helpers that did not exist on the reference tree: their effects happen at the call site
		ci, ok := ins.(*ssa.Call)
		if !ok || liftDepth >= maxLiftDepth {
			return
		}
		callee := transparentCallee(ci)
		if callee == nil || callee == fn {
			return
		}
		outer := condStrings(ctrlConds(ins.Block()))
		withCallEnv(ci, callee, func() {
			ls := locksets(callee, lockState{}) // lock names are rendered in the caller's terms
			for _, e := range effectsOf(callee) {
				if strings.HasPrefix(e.Str, "return ") {
					continue
				}
				conds := append(append([]string{}, outer...), e.Conds()...)
				sort.Strings(conds)
				locks := map[string]int{}
				if rec := ls[e.Ins.Block()]; rec != nil && instrIndex(e.Ins) < len(rec) {
					for k, v := range rec[instrIndex(e.Ins)] {
						locks[k] = v
					}
				}
				for k, v := range e.Locks {
					if v > locks[k] {
						locks[k] = v
					}
				}
				out = append(out, &effect{Ins: ins, Str: e.Str, conds: conds, have: true, Inner: e.Ins, Locks: locks})
			}
		})
	})
	return out
}

// findEffects returns the effects of fn whose rendering matches the glob.
func findEffects(fn *ssa.Function, pattern string) []*effect {
	var out []*effect
	for _, e := range effectsOf(fn) {
		if glob(pattern, e.Str) {
			out = append(out, e)
		}
	}
	return out
}

// requireEffect: at least min effects match pattern, and every match is controlled by all of conds (globs).
// Returns the matches (nil on failure to find).
func (r *Run) requireEffect(w *World, rule, construct string, fn *ssa.Function, pattern string, conds ...string) []*effect {
	if fn == nil {
		return nil
	}
	es := findEffects(fn, pattern)
	if len(es) == 0 {
		r.missing(rule, construct, fmt.Sprintf("no effect matching %q in %s", pattern, short(fnName(fn))))
		return nil
	}
	okAll := true
	for _, e := range es {
		if !containsAll(e.Conds(), conds) {
			okAll = false
			r.bad(rule, construct, r.at(w, e.Ins), fmt.Sprintf("%s is not controlled by [%s]; controlling conditions: {%s}", e.Str, strings.Join(conds, " && "), strings.Join(e.Conds(), " ; ")))
		}
	}
	if okAll {
		r.ok(rule, construct, r.at(w, es[0].Ins), fmt.Sprintf("%d site(s), e.g. %s, controlled by [%s]", len(es), es[0].Str, strings.Join(conds, " && ")))
		return es
	}
	return nil
}

// forbidEffect: no effect of fn matches pattern.
func (r *Run) forbidEffect(w *World, rule, construct string, fn *ssa.Function, pattern string, why string) bool {
	if fn == nil {
		return false
	}
	es := findEffects(fn, pattern)
	if len(es) > 0 {
		r.bad(rule, construct, r.at(w, es[0].Ins), fmt.Sprintf("%s: %s", why, es[0].Str))
		return false
	}
	r.ok(rule, construct, w.rel(fn.Pos()), "no effect matching "+pattern)
	return true
}

// sameBlockOrDominated: b executes whenever a does and after it (same block later, or a's block dominates b's and b post-dominates...):
// here: a dominates b and every path from a to a function exit or back to a passes through b.
func alwaysFollowedBy(a, b ssa.Instruction) bool {
	found, _ := pathExists(after(a), func(i ssa.Instruction) bool {
		if isReturn(i) {
			return true
		}
		if _, ok := i.(*ssa.Panic); ok {
			return false
		}
		return i == a
	}, isInstr(b), nil)
	return !found
}

// order: a before b on every path reaching b (a dominates b).
func (r *Run) requireOrder(w *World, rule, construct string, a, b ssa.Instruction) bool {
	if a == nil || b == nil {
		r.missing(rule, construct, "site not found")
		return false
	}
	return r.check(dominatesI(a, b), rule, construct, r.at(w, b),
		describe(a)+" precedes "+describe(b)+" on every path",
		fmt.Sprintf("%s (at %s) does not precede %s (at %s) on every path", describe(a), w.rel(instrPos(a)), describe(b), w.rel(instrPos(b))))
}

func firstIns(es []*effect) ssa.Instruction {
	if len(es) == 0 {
		return nil
	}
	return es[0].Ins
}
