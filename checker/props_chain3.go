package main

import (
	"fmt"
	"go/token"
	"go/types"
	"strings"

	"golang.org/x/tools/go/ssa"
)

const (
	pkgWorkers = H + "/internal/workers"
	pkgFetcher = H + "/internal/fetcher"
)

func init() {
	register(&propDef{
		ID: "C16",
		Explain: "Decides that every transaction's (unsigned bytes, auth) pair is submitted for verification (no filter in the submission loop, job sized by the " +
			"number of transactions, completion always scheduled), that block verification can only succeed through a nil result of the signature job that was " +
			"created for this block, that both branches of AuthBatch.Add submit the verification and Done drains every batch worker before closing the job, and " +
			"that every Auth.Verify implementation passes the message with its own signer and signature to its scheme's verify function and maps failure to " +
			"ErrInvalidSignature. Imports the worker-pool rules of C26. Not decided: that batch verifiers cover each added signature exactly once for all counts " +
			"(semantic) and third-party batch verification.",
		Run: c16,
	})
	register(&propDef{
		ID: "C24",
		Explain: "Decides that the key list handed to the prefetcher contains only the declared keys (no padding elements), that the fetch worker maps only " +
			"ErrNotFound to absence while any other read error stops the fetcher and fails the block, that blocking channel operations of Fetch/Get are select " +
			"cases alongside the stop channel, that the fetcher's maps and error are accessed under its lock (with three ordered exceptions), that package chain " +
			"reads parent state only at the enumerated sites (three metadata keys, fetcher, builder cache miss, admission), and that a transaction's view reads " +
			"from the map fetched for that transaction. Not decided: the values observed under every overlap/concurrency (needs C01, C08).",
		Run: c24,
	})
	register(&propDef{
		ID: "C26",
		Explain: "Decides the pairing and acknowledgement structure of the verification worker pool: a worker goroutine can terminate only through the stop case that " +
			"acknowledges Stop (Stop waits for exactly count acknowledgements); every task hand-off is preceded by sg.Add(1) and every handled task passes exactly " +
			"one sg.Done(); the first error is kept (set only when nil, under the lock) and reset after the job's result is sent, which happens after all tasks of the " +
			"job finished; queued and new jobs report ErrShutdown after Stop; SerialJob skips after the first error. Not decided: exact task multiset over all schedules.",
		Run: c26,
	})
}

// ----------------------------------------------------------------------------- C16

func c16(r *Run) {
	w := r.W
	defer r.importRules(c26, "C26.R3", "C26.R4", "C26.R6")
	r.rule("C16.R1", "K1", "every transaction's (unsigned bytes, auth) is added; job sized len(Txs); Done always scheduled", 4)
	r.rule("C16.R2", "K2", "Execute succeeds only through waitSignatures==nil on the job created by verifySignatures; waitSignatures propagates Job.Wait's error", 3)
	r.rule("C16.R3", "K7", "AuthBatch.Add submits on both branches; Done drains every worker, forwards leftovers, then closes the job; worker forwards early batches", 6)
	r.rule("C16.R4", "K12", "every Auth.Verify passes (msg, own signer, own signature) to its scheme and maps false to ErrInvalidSignature", 3)
	r.rule("C16.R5", "K6", "ED25519Batch: Add returns a verification on the full-batch edge; Done returns one whenever a batch exists", 2)

	vs := r.fn(w, "C16.R1", "(*"+pkgChain+".Processor).verifySignatures")
	if vs != nil {
		adds := findEffects(vs, "call (*chain.AuthBatch).Add(chain.NewAuthBatch(*), (*chain.TransactionData).UnsignedBytes(p2.StatelessBlock.Block.Txs[*].TransactionData), p2.StatelessBlock.Block.Txs[*].Auth)")
		if len(adds) == 1 {
			h, _ := innermostLoop(adds[0].Ins.Block())
			okk := h != nil && loopExitsOnlyAtHeader(h)
			// unconditional inside the loop body: only the loop bound controls it
			cs := adds[0].Conds()
			okk = okk && len(cs) == 2 // job creation succeeded ; index < len
			if h != nil {
				if ifi, ok := h.Instrs[len(h.Instrs)-1].(*ssa.If); ok {
					okk = okk && glob("* < builtin.len(p2.StatelessBlock.Block.Txs)", predString(ifi.Cond, true))
				}
			}
			// the same index selects bytes and auth
			a := adds[0].Ins.(ssa.CallInstruction).Common().Args
			okk = okk && strings.Contains(term(a[1]), "Txs[(1 + phi(-1, ↺))]") && strings.Contains(term(a[2]), "Txs[(1 + phi(-1, ↺))]")
			r.check(okk, "C16.R1", "verifySignatures:every-tx-added", r.at(w, adds[0].Ins), "Add(tx.UnsignedBytes(), tx.Auth) for every element, unfiltered", "not every transaction's (unsigned bytes, auth) pair is submitted: controlled by {"+strings.Join(cs, " ; ")+"}")
		} else {
			r.missing("C16.R1", "verifySignatures:every-tx-added", "batchVerifier.Add(tx.UnsignedBytes(), tx.Auth) over block.Txs not found")
		}
		r.requireEffect(w, "C16.R1", "verifySignatures:job-sized-by-txs", vs, "call (internal/workers.Workers).NewJob(p0.authVerificationWorkers, builtin.len(p2.StatelessBlock.Block.Txs))")
		// the batch is built on that job with the block's auth counts
		r.requireEffect(w, "C16.R1", "verifySignatures:batch-on-job", vs, "call chain.NewAuthBatch(p0.log, p0.authEngines, (internal/workers.Workers).NewJob(*)#0, p2.authCounts)")
		// Done is scheduled by a deferred literal registered before the loop
		defs := findEffects(vs, "defer (*chain.Processor).verifySignatures$1()")
		okk := len(defs) == 1 && len(adds) == 1 && dominatesI(defs[0].Ins, adds[0].Ins)
		if d1 := w.Fn("(*" + pkgChain + ".Processor).verifySignatures$1"); okk && d1 != nil {
			r.saw(d1)
			dg := findEffects(d1, "go (*chain.AuthBatch).Done(fv:batchVerifier, *")
			okk = len(dg) == 1 && len(dg[0].Conds()) == 0
		} else {
			okk = false
		}
		r.check(okk, "C16.R1", "verifySignatures:Done-always-scheduled", w.rel(vs.Pos()), "deferred go batchVerifier.Done(...)", "batchVerifier.Done is not scheduled on every exit (the job would never complete)")
		// returns the job
		for _, o := range returnOutcomes(vs) {
			if hasStr(o.Sentinels, "nil") {
				r.check(glob("(internal/workers.Workers).NewJob(*)#0", term(o.Vals[0])), "C16.R1", "verifySignatures:returns-job", w.rel(instrPos(o.Ret)), "", "verifySignatures does not return the job it submitted to")
			}
		}
	}
	pe := r.fn(w, "C16.R2", nmProcExecute)
	if pe != nil {
		vsc := callsNamed(pe, "(*"+pkgChain+".Processor).verifySignatures")
		wsc := callsNamed(pe, "(*"+pkgChain+".Processor).waitSignatures")
		if len(vsc) == 1 && len(wsc) == 1 {
			j := resultN(vsc[0], 0)
			r.check(len(j) == 1 && sameValue(wsc[0].Common().Args[2], j[0]) && term(vsc[0].Common().Args[2]) == "p3", "C16.R2", "Execute:waits-on-this-block's-job", r.at(w, wsc[0]), "", "waitSignatures is not applied to the job verifySignatures created for this block")
			for _, o := range returnOutcomes(pe) {
				if hasStr(o.Sentinels, "nil") {
					r.check(onlyViaSuccess(wsc[0], o.Ret, true) && onlyViaSuccess(vsc[0], o.Ret, true), "C16.R2", "Execute:success-only-after-signatures", w.rel(instrPos(o.Ret)), "", "Execute can succeed without the signature job having returned nil")
				}
			}
		} else {
			r.missing("C16.R2", "Execute:signature-calls", "verifySignatures / waitSignatures call not found in Execute")
		}
	}
	ws := r.fn(w, "C16.R2", "(*"+pkgChain+".Processor).waitSignatures")
	if ws != nil {
		jw := callsNamed(ws, "("+pkgWorkers+".Job).Wait")
		if len(jw) == 1 {
			r.check(term(callArgs(jw[0])[0]) == "p2", "C16.R2", "waitSignatures:waits-on-given-job", r.at(w, jw[0]), "", "waitSignatures waits on something other than the job it was given")
			r.failureLeadsToErrorReturn(w, "C16.R2", "waitSignatures:error-propagated", jw[0])
		} else {
			r.missing("C16.R2", "waitSignatures:Job.Wait", "Job.Wait not called")
		}
	}

	// R3
	ab := r.fn(w, "C16.R3", "(*"+pkgChain+".AuthBatch).Add")
	if ab != nil {
		r.requireEffect(w, "C16.R3", "AuthBatch.Add:no-batch=>job.Go(verify)", ab, "call (internal/workers.Job).Go(p0.job, closure:(*chain.AuthBatch).Add$1)", "!p0.bvs[(chain.Auth).GetTypeID(p2)]#1")
		r.requireEffect(w, "C16.R3", "AuthBatch.Add:batch=>enqueue", ab, "send p0.bvs[(chain.Auth).GetTypeID(p2)]#0.items <- alloc(complit)", "p0.bvs[(chain.Auth).GetTypeID(p2)]#1")
		if lit := w.Fn("(*" + pkgChain + ".AuthBatch).Add$1"); lit != nil {
			r.saw(lit)
			es := findEffects(lit, "call (chain.Auth).Verify(fv:auth, *, fv:digest)")
			outs := returnOutcomes(lit)
			r.check(len(es) == 1 && len(outs) == 1 && hasStr(outs[0].Sentinels, "err:(chain.Auth).Verify"), "C16.R3", "AuthBatch.Add$1:verifies-(digest)-and-returns-result", w.rel(lit.Pos()), "", "the directly submitted task does not return auth.Verify(ctx, digest)")
		}
		// the enqueued object carries this digest and auth
		r.requireEffect(w, "C16.R3", "AuthBatch.Add:object.digest", ab, "store alloc(complit).digest = p1")
		r.requireEffect(w, "C16.R3", "AuthBatch.Add:object.auth", ab, "store alloc(complit).auth = p2")
	}
	ad := r.fn(w, "C16.R3", "(*"+pkgChain+".AuthBatch).Done")
	if ad != nil {
		cl := findEffects(ad, "call builtin.close(next(range(p0.bvs))#2.items)")
		jd := findEffects(ad, "call (internal/workers.Job).Done(p0.job, p1)")
		fw := findEffects(ad, "call (internal/workers.Job).Go(p0.job, (chain.AuthBatchVerifier).Done(next(range(p0.bvs))#2.bv)[*])")
		var recv ssa.Instruction
		eachInstr(ad, func(i ssa.Instruction) {
			if u, ok := i.(*ssa.UnOp); ok && u.Op == token.ARROW && term(u.X) == "next(range(p0.bvs))#2.done" {
				recv = i
			}
		})
		okk := len(cl) == 1 && len(jd) == 1 && len(fw) == 1 && recv != nil
		if okk {
			okk = dominatesI(cl[0].Ins, recv) && dominatesI(recv, fw[0].Ins) && len(jd[0].Conds()) == 1 && jd[0].Conds()[0] == "!next(range(p0.bvs))#0"
			h := findLoopOver(ad, "p0.bvs")
			okk = okk && h != nil
			hl := findLoopOverPrefix(ad, "(chain.AuthBatchVerifier).Done(")
			okk = okk && hl != nil && loopExitsOnlyAtHeader(hl)
		}
		r.check(okk, "C16.R3", "AuthBatch.Done:drain-forward-close", w.rel(ad.Pos()), "for every worker: close(items); <-done; forward every leftover; then job.Done(f) once", "AuthBatch.Done does not close and drain every batch worker, forward every leftover verification and then close the job")
	}
	st := r.fn(w, "C16.R3", "(*"+pkgChain+".authBatchWorker).start")
	if st != nil {
		r.requireEffect(w, "C16.R3", "authBatchWorker.start:forward-early-batch", st, "call (internal/workers.Job).Go(p0.job, (chain.AuthBatchVerifier).Add(p0.bv, *.digest, *.auth))", "(chain.AuthBatchVerifier).Add(p0.bv, *.digest, *.auth) != nil")
		r.check(len(findEffects(st, "defer builtin.close(p0.done)")) == 1, "C16.R3", "authBatchWorker.start:signals-done", w.rel(st.Pos()), "", "the batch worker does not close its done channel on exit")
	}

	// R4
	n := 0
	for _, sch := range []struct{ typ, verify string }{
		{"ED25519", H + "/crypto/ed25519.Verify"},
		{"SECP256R1", H + "/crypto/secp256r1.Verify"},
		{"BLS", H + "/crypto/bls.Verify"},
	} {
		f := r.fn(w, "C16.R4", "(*"+H+"/auth."+sch.typ+").Verify")
		if f == nil {
			continue
		}
		n++
		cs := callsNamed(f, sch.verify)
		okk := len(cs) == 1
		if okk {
			a := argTerms(cs[0])
			okk = len(a) == 3 && a[0] == "p2" && a[1] == "p0.Signer" && a[2] == "p0.Signature"
			// false => ErrInvalidSignature ; true => nil
			rows := 0
			for _, o := range returnOutcomes(f) {
				if hasStr(o.Sentinels, "crypto.ErrInvalidSignature") && hasStr(o.Conds, "!"+term(cs[0].(*ssa.Call))) {
					rows++
				}
				if hasStr(o.Sentinels, "nil") && hasStr(o.Conds, term(cs[0].(*ssa.Call))) {
					rows++
				}
			}
			okk = okk && rows == 2 && len(returnOutcomes(f)) == 2
		}
		r.check(okk, "C16.R4", sch.typ+".Verify", w.rel(f.Pos()), "scheme.Verify(msg, d.Signer, d.Signature); false => ErrInvalidSignature", sch.typ+".Verify does not verify (msg, own signer, own signature) with its scheme and map failure to ErrInvalidSignature")
	}
	// every implementation of chain.Auth in package auth is covered
	if p := w.Pkgs[H+"/auth"]; p != nil {
		if cp := w.Pkgs[pkgChain]; cp != nil {
			if ai, ok := cp.Types.Scope().Lookup("Auth").Type().Underlying().(*types.Interface); ok {
				impl := 0
				for _, nm := range p.Types.Scope().Names() {
					if tn, ok := p.Types.Scope().Lookup(nm).(*types.TypeName); ok {
						if types.Implements(types.NewPointer(tn.Type()), ai) {
							impl++
						}
					}
				}
				r.check(impl == n, "C16.R4", "auth:all-implementations-covered", "", fmt.Sprint(impl), fmt.Sprintf("package auth has %d implementations of chain.Auth but the sibling table covers %d", impl, n))
			}
		}
	}

	// R5
	ba := r.fn(w, "C16.R5", "(*"+H+"/auth.ED25519Batch).Add")
	if ba != nil {
		okk := false
		for _, o := range returnOutcomes(ba) {
			if len(o.Vals) == 1 && strings.Contains(term(o.Vals[0]), ".VerifyAsync(") && hasMatch(o.Conds, "p0.batchSize == *") {
				okk = true
			}
		}
		es := findEffects(ba, "call (*crypto/ed25519.Batch).Add(*, p1, *.Signer, *.Signature)")
		r.check(okk && len(es) == 1 && len(es[0].Conds()) == 0, "C16.R5", "ED25519Batch.Add", w.rel(ba.Pos()), "", "ED25519Batch.Add does not add every (msg, signer, signature) and return a verification when the batch is full")
	}
	bd := r.fn(w, "C16.R5", "(*"+H+"/auth.ED25519Batch).Done")
	if bd != nil {
		okk := false
		for _, o := range returnOutcomes(bd) {
			if len(o.Vals) == 1 && strings.Contains(term(o.Vals[0]), "VerifyAsync(p0.batch)") && hasStr(o.Conds, "nil != p0.batch") {
				okk = true
			}
		}
		r.check(okk, "C16.R5", "ED25519Batch.Done", w.rel(bd.Pos()), "", "ED25519Batch.Done does not return a verification whenever a batch exists")
	}
}

// findLoopOverPrefix: header of an index loop whose bound is len(X) with X's rendering starting with prefix.
func findLoopOverPrefix(fn *ssa.Function, prefix string) *ssa.BasicBlock {
	for _, h := range loopHeaders(fn) {
		if ifi, ok := h.Instrs[len(h.Instrs)-1].(*ssa.If); ok {
			if glob("* < builtin.len("+prefix+"*", predString(ifi.Cond, true)) {
				return h
			}
		}
	}
	return nil
}

// ----------------------------------------------------------------------------- C24

// selectCheck: every blocking channel operation in fn is a select state alongside a receive from stopTerm.
func (r *Run) selectHasStop(w *World, rule string, fn *ssa.Function, stopTerm string, min int) {
	if fn == nil {
		return
	}
	n := 0
	name := short(fnName(fn))
	eachInstr(fn, func(i ssa.Instruction) {
		switch x := i.(type) {
		case *ssa.Send:
			n++
			r.bad(rule, name+":bare-send", r.at(w, i), "blocking send on "+term(x.Chan)+" outside a select with the stop channel")
		case *ssa.UnOp:
			if x.Op == token.ARROW {
				n++
				r.bad(rule, name+":bare-receive", r.at(w, i), "blocking receive from "+term(x.X)+" outside a select with the stop channel")
			}
		case *ssa.Select:
			if !x.Blocking {
				return
			}
			n++
			has := false
			var ops []string
			for _, s := range x.States {
				ops = append(ops, term(s.Chan))
				if s.Dir == types.RecvOnly && term(s.Chan) == stopTerm {
					has = true
				}
			}
			r.check(has, rule, name+":select", r.at(w, i), "select{"+strings.Join(ops, ", ")+"} includes "+stopTerm, "blocking select over {"+strings.Join(ops, ", ")+"} has no case for the stop channel "+stopTerm)
		}
	})
	if n < min {
		r.missing(rule, name+":blocking-ops", fmt.Sprintf("expected at least %d blocking channel operations, found %d", min, n))
	}
}

func c24(r *Run) {
	w := r.W
	r.rule("C24.R1", "K15", "Keys.WithoutPermissions returns exactly the map's keys", 1)
	r.rule("C24.R2", "K6", "fetch worker: only ErrNotFound is absence; other errors stop the fetcher; undecodable values are errors", 4)
	r.rule("C24.R3", "K19", "blocking operations of Fetch/Get/runWorker are select cases alongside the stop channel", 3)
	r.rule("C24.R4", "K4", "Fetcher.keys/txs/err under l (three ordered exceptions)", 10)
	r.rule("C24.R5", "K3", "package chain reads parent state only at the enumerated sites", 4)
	r.rule("C24.R6", "K5", "a transaction's view reads from the map fetched for it; the prefetch list is its declared keys", 2)

	wp := r.fn(w, "C24.R1", "("+H+"/state.Keys).WithoutPermissions")
	if wp != nil {
		// every key of the map is listed: the append is controlled by the loop alone and lies on every way round it
		ap := findEffects(wp, "call builtin.append(phi(*), [next(range(p0))#1])")
		if len(ap) == 0 {
			// ... or a slice made at its final length and filled slot by slot with a counter that advances every time
			ap = findEffects(wp, "store makeslice([]string, builtin.len(p0), builtin.len(p0))[phi(*)] = next(range(p0))#1")
		}
		every := len(ap) == 1
		if every {
			for _, c := range ap[0].Conds() {
				if !isLoopCond(c) {
					every = false
				}
			}
			if h, _ := innermostLoop(ap[0].Ins.Block()); h != nil && len(h.Succs) == 2 {
				hdr := func(i ssa.Instruction) bool { return i.Block() == h && instrIndex(i) == 0 }
				if skip, _ := pathExists(point{h.Succs[0], 0}, hdr, isInstr(ap[0].Ins), nil); skip {
					every = false
				}
			} else {
				every = false
			}
		}
		r.check(every, "C24.R1", "WithoutPermissions:every-key", w.rel(wp.Pos()), "", "Keys.WithoutPermissions leaves some declared keys out of the list that is prefetched: the transaction observes them as absent although the parent holds them")
		n := 0
		eachInstr(wp, func(i ssa.Instruction) {
			ms, ok := i.(*ssa.MakeSlice)
			if !ok {
				return
			}
			n++
			zero := false
			if c, ok := ms.Len.(*ssa.Const); ok && c.Int64() == 0 {
				zero = true
			}
			indexed, appended := false, false
			var visit func(v ssa.Value, d int)
			seen := map[ssa.Value]bool{}
			visit = func(v ssa.Value, d int) {
				if seen[v] || d > 6 {
					return
				}
				seen[v] = true
				for _, ref := range *v.Referrers() {
					switch x := ref.(type) {
					case *ssa.IndexAddr:
						for _, rr := range *x.Referrers() {
							if _, ok := rr.(*ssa.Store); ok {
								indexed = true
							}
						}
					case *ssa.Phi:
						visit(x, d+1)
					case *ssa.Call:
						if calleeName(x) == "builtin.append" && len(x.Call.Args) > 0 && (x.Call.Args[0] == v) {
							appended = true
							visit(x, d+1)
						}
					}
				}
			}
			visit(ms, 0)
			r.check(zero || indexed || !appended, "C24.R1", "WithoutPermissions:make-then-append", r.at(w, i),
				"slice starts empty (or is index-assigned)", "make([]string, n) with non-zero length is only appended to: the result starts with n empty strings, i.e. undeclared (empty) keys are prefetched")
		})
		if n == 0 {
			r.missing("C24.R1", "WithoutPermissions:make-then-append", "no slice construction found")
		}
		// every key of the map is emitted: range over p0, append key
		h := findLoopOver(wp, "p0")
		emits := len(findEffects(wp, "call builtin.append(*, [next(range(p0))#1])")) == 1 || len(findEffects(wp, "store makeslice([]string, builtin.len(p0), builtin.len(p0))[phi(*)] = next(range(p0))#1")) == 1
		r.check(h != nil && loopExitsOnlyAtHeader(h) && emits, "C24.R1", "WithoutPermissions:every-key", w.rel(wp.Pos()), "", "WithoutPermissions does not emit every key of the map")
	}

	rw := r.fn(w, "C24.R2", "(*"+pkgFetcher+".Fetcher).runWorker")
	if rw != nil {
		gv := "(state.Immutable).GetValue(p0.im, *.ctx, []byte(*.key))"
		r.requireEffect(w, "C24.R2", "runWorker:not-found=>absent", rw, "call (*internal/fetcher.Fetcher).set(p0, *.key, nil, false, 0)", "errors.Is("+gv+"#1, ago/database.ErrNotFound)")
		es := findEffects(rw, "call (*internal/fetcher.Fetcher).set(p0, *")
		r.check(len(es) == 2, "C24.R2", "runWorker:two-set-sites", w.rel(rw.Pos()), "", "expected exactly the absent and the present set sites")
		r.requireEffect(w, "C24.R2", "runWorker:present=>value", rw, "call (*internal/fetcher.Fetcher).set(p0, *.key, "+gv+"#0, true, keys.NumChunks("+gv+"#0)#0)", "!errors.Is("+gv+"#1, ago/database.ErrNotFound)", gv+"#1 == nil", "keys.NumChunks("+gv+"#0)#1")
		r.requireEffect(w, "C24.R2", "runWorker:other-error=>handleErr", rw, "call (*internal/fetcher.Fetcher).handleErr(p0, "+gv+"#1)", "!errors.Is("+gv+"#1, ago/database.ErrNotFound)", gv+"#1 != nil")
		r.requireEffect(w, "C24.R2", "runWorker:bad-value=>handleErr", rw, "call (*internal/fetcher.Fetcher).handleErr(p0, internal/fetcher.ErrInvalidKeyValue)", "!keys.NumChunks("+gv+"#0)#1")
		// a failed read is reported whatever else holds (a read that fails while the context is cancelled still has to
		// stop the fetcher: waiters block on it): nothing but the read's own outcome and the task select controls the report
		for _, he := range findEffects(rw, "call (*internal/fetcher.Fetcher).handleErr(p0, "+gv+"#1)") {
			extra := ""
			for _, c := range he.Conds() {
				if !(strings.Contains(c, "GetValue(p0.im, ") || c == "select#1" || strings.HasSuffix(c, " == select#0") || strings.HasPrefix(c, "select#0 == ")) {
					extra = c
				}
			}
			r.check(extra == "", "C24.R2", "runWorker:read-error-always-reported", r.at(w, he.Ins), "", "a read error is reported only under an additional condition ("+extra+"): otherwise the worker drops it, the fetcher is never stopped and Get blocks forever")
		}
		// after handleErr the worker returns (does not mark the key)
		for _, he := range findEffects(rw, "call (*internal/fetcher.Fetcher).handleErr(*") {
			found, _ := pathExists(after(he.Ins), func(i ssa.Instruction) bool {
				ci, ok := i.(ssa.CallInstruction)
				return ok && calleeName(ci) == "(*"+pkgFetcher+".Fetcher).set"
			}, nil, nil)
			r.check(!found, "C24.R2", "runWorker:error-does-not-publish", r.at(w, he.Ins), "", "after a read error the worker can still publish a value for a key")
		}
	}
	he := r.fn(w, "C24.R2", "(*"+pkgFetcher+".Fetcher).handleErr$1")
	if he != nil {
		st := findEffects(he, "store fv:f.err = fv:err")
		cl := findEffects(he, "call builtin.close(fv:f.stop)")
		r.check(len(st) == 1 && len(cl) == 1 && dominatesI(st[0].Ins, cl[0].Ins), "C24.R2", "handleErr:error-before-stop", w.rel(he.Pos()), "err stored before stop is closed", "handleErr does not store the error before closing the stop channel (waiters would read a nil error)")
	}

	// R3
	r.selectHasStop(w, "C24.R3", w.Fn("(*"+pkgFetcher+".Fetcher).Fetch"), "p0.stop", 1)
	r.selectHasStop(w, "C24.R3", w.Fn("(*"+pkgFetcher+".Fetcher).Get"), "p0.stop", 1)
	r.selectHasStop(w, "C24.R3", rw, "p0.stop", 1)
	// the stop branches of Fetch/Get return the fetcher's error
	for _, nm := range []string{"Fetch", "Get"} {
		f := w.Fn("(*" + pkgFetcher + ".Fetcher)." + nm)
		if f == nil {
			continue
		}
		r.saw(f)
		okk := false
		for _, o := range returnOutcomes(f) {
			if o.ErrTerm == "p0.err" && hasMatch(o.Conds, "1 == select#0") {
				okk = true
			}
		}
		r.check(okk, "C24.R3", nm+":stop=>returns-fetcher-error", w.rel(f.Pos()), "", nm+" does not return the fetcher's error when stopped")
	}

	// R4
	r.guardedBy(w, lockSpec{Rule: "C24.R4", Owner: pkgFetcher + ".Fetcher", Fields: []string{"keys", "txs", "err"}, Mutex: "l", Pkgs: []string{pkgFetcher},
		ExemptFn: map[string]string{pkgFetcher + ".New": "constructor: the fetcher is not yet shared"},
		ExemptAccess: map[string]string{
			"(*" + pkgFetcher + ".Fetcher).Fetch:err": "one of the two reads is after <-f.stop, ordered by close(f.stop) in handleErr which follows the store; the other is under l (checked below)",
			"(*" + pkgFetcher + ".Fetcher).Get:err":   "read after <-f.stop, ordered by close(f.stop) in handleErr which follows the store",
			"(*" + pkgFetcher + ".Fetcher).Wait:err":  "read after wg.Wait() and setErr.Do: no writer can run any more",
		}, MinSites: 10})
	// Fetch's first read of err is under the lock
	if f := w.Fn("(*" + pkgFetcher + ".Fetcher).Fetch"); f != nil {
		ls := locksets(f, lockState{})
		under := 0
		for _, a := range fieldAccesses(f, pkgFetcher+".Fetcher", "err") {
			if rec := ls[a.Block()]; rec != nil && rec[instrIndex(a)]["p0.l"] >= 1 {
				under++
			}
		}
		r.check(under >= 1, "C24.R4", "Fetch:err-checked-under-lock", w.rel(f.Pos()), "", "Fetch no longer checks f.err under the lock before registering the transaction")
	}

	// R5: who reads parent state in package chain
	allowed := map[string]string{
		"(*" + pkgChain + ".Processor).createBlockContext": "three metadata keys",
		"(*" + pkgChain + ".Builder).BuildBlock":           "parent fee key",
		"(*" + pkgChain + ".Builder).BuildBlock$2":         "declared keys on cache miss",
		"(*" + pkgChain + ".PreExecutor).PreExecute":       "parent fee key for admission",
	}
	sites := 0
	for _, fn := range w.FnsInPkg(pkgChain) {
		for _, c := range callsTo(fn, func(n string) bool {
			return n == "("+H+"/state.Immutable).GetValue" || strings.HasSuffix(n, "merkledb.Trie).GetValue") || strings.HasSuffix(n, "merkledb.View).GetValue") || strings.HasSuffix(n, "merkledb.MerkleDB).GetValue")
		}) {
			sites++
			r.saw(fn)
			why, ok := allowed[fnName(fn)]
			r.check(ok, "C24.R5", "state-read:"+short(fnName(fn)), r.at(w, c), why, "package chain reads state at a site that is not in the enumerated set: "+short(fnName(fn)))
		}
	}
	if sites < 4 {
		r.missing("C24.R5", "state-read-sites", "fewer state read sites than confirmed")
	}
	// createBlockContext reads exactly the three metadata keys
	if cbc := w.Fn("(*" + pkgChain + ".Processor).createBlockContext"); cbc != nil {
		var ks []string
		for _, c := range callsNamed(cbc, "("+H+"/state.Immutable).GetValue") {
			ks = append(ks, term(callArgs(c)[2]))
		}
		okk := len(ks) == 3 && strings.HasPrefix(ks[0], "chain.HeightKey(") && strings.HasPrefix(ks[1], "chain.TimestampKey(") && strings.HasPrefix(ks[2], "chain.FeeKey(")
		r.check(okk, "C24.R5", "createBlockContext:three-metadata-keys", w.rel(cbc.Pos()), strings.Join(ks, ", "), "createBlockContext does not read exactly the height, timestamp and fee keys: "+strings.Join(ks, ", "))
	}

	// R6
	vsites := runSites(w, nmExecTxs)
	et := w.Fn(nmExecTxs)
	if len(vsites) == 1 && et != nil {
		lit := vsites[0].lit
		get := callsNamed(lit, "(*"+pkgFetcher+".Fetcher).Get")
		nv := callsNamed(lit, nmNewView)
		ft := callsNamed(et, "(*"+pkgFetcher+".Fetcher).Fetch")
		if len(get) == 1 && len(nv) == 1 && len(ft) == 1 {
			g0 := resultN(get[0], 0)
			st := strip(nv[0].Common().Args[2])
			if cv, ok := st.(*ssa.ChangeType); ok {
				st = cv.X
			}
			r.check(len(g0) == 1 && sameValue(st, g0[0]) && sameOuter(get[0].Common().Args[1], ft[0].Common().Args[2]), "C24.R6", "executeTxs:view-storage=fetched-map-of-this-tx", r.at(w, nv[0]), "", "the view's storage is not the map fetched under this transaction's ID")
			a := argTerms(ft[0])
			r.check(glob("(state.Keys).WithoutPermissions((*chain.Transaction).StateKeys(p2.StatelessBlock.Block.Txs[*], p0.balanceHandler)#0)", a[3]) && glob("(*chain.Transaction).GetID(p2.StatelessBlock.Block.Txs[*])", a[2]), "C24.R6", "executeTxs:prefetch=declared-keys", r.at(w, ft[0]), "", "the prefetch list is not the transaction's declared keys: "+a[3])
			r.failureLeadsToErrorReturn(w, "C24.R6", "executeTxs:Fetch-error-returned", ft[0])
		} else {
			r.missing("C24.R6", "executeTxs:fetch-sites", "Fetch/Get/NewView sites not found")
		}
	}

	// R7: a transaction registered with outstanding reads always gets its blocker count and waiter; errors stay settable until the workers are done
	r.rule("C24.R7", "K7", "Fetch: every wait registration counts a blocker; a tx is registered without waiter only when it has no blockers; Wait seals the error only after the workers exited", 4)
	ff := r.fn(w, "C24.R7", "(*"+pkgFetcher+".Fetcher).Fetch")
	if ff != nil {
		bl := findEffects(ff, "store alloc(complit).blockers = *")
		wt := findEffects(ff, "store alloc(complit).waiter = makechan(*")
		regs := findEffects(ff, "mapupdate p0.txs[p2] = alloc(complit)")
		if len(bl) == 1 && len(wt) == 1 && len(regs) >= 1 {
			cnt := strip(bl[0].Ins.(*ssa.Store).Val)
			// the edges on which the count is known to be zero
			blocked := map[edgeKey]bool{}
			for _, b := range ff.Blocks {
				if ifi, ok := b.Instrs[len(b.Instrs)-1].(*ssa.If); ok {
					if bo, ok := ifi.Cond.(*ssa.BinOp); ok && (sameValue(bo.X, cnt) || sameValue(bo.Y, cnt)) {
						p := predString(ifi.Cond, true)
						if strings.HasPrefix(p, "0 < ") {
							blocked[edgeKey{b.Index, 1}] = true
						}
					}
				}
			}
			okk := len(blocked) > 0
			for _, rg := range regs {
				avoid := func(i ssa.Instruction) bool { return i == bl[0].Ins }
				if found, _ := pathExists(point{ff.Blocks[0], 0}, isInstr(rg.Ins), avoid, blocked); found {
					okk = false
				}
				avoidW := func(i ssa.Instruction) bool { return i == wt[0].Ins }
				if found, _ := pathExists(point{ff.Blocks[0], 0}, isInstr(rg.Ins), avoidW, blocked); found {
					okk = false
				}
			}
			r.check(okk, "C24.R7", "Fetch:registered-with-count-and-waiter-unless-zero", r.at(w, regs[0].Ins), "", "a transaction can be registered without its blocker count and waiter although reads it depends on are outstanding: Get would return before the values arrived and report the keys absent")
			// every registration as waiter of a key (new key or append to blocked) increments the count before the next key
			var waits []*effect
			waits = append(waits, findEffects(ff, "mapupdate p0.keys[*] = alloc(complit)")...)
			waits = append(waits, findEffects(ff, "store p0.keys[*]#0.blocked = builtin.append(*")...)
			okI := len(waits) == 2
			if phi, ok := cnt.(*ssa.Phi); ok && okI {
				for _, wv := range waits {
					inc := false
					for _, ins := range wv.Ins.Block().Instrs {
						if bo, ok := ins.(*ssa.BinOp); ok && bo.Op == token.ADD && (term(bo.Y) == "1" || term(bo.X) == "1") {
							for _, e := range phi.Edges {
								if e == bo {
									inc = true
								}
							}
							// the count may flow through a second phi at the loop header
							for _, ref := range *bo.Referrers() {
								if p2, ok := ref.(*ssa.Phi); ok && (p2 == phi || phiFeeds(p2, phi)) {
									inc = true
								}
							}
						}
					}
					if !inc {
						okI = false
					}
				}
			} else {
				okI = false
			}
			r.check(okI, "C24.R7", "Fetch:every-wait-registration-counts", w.rel(ff.Pos()), "", "a key the transaction waits for (new fetch or already in flight) is not counted as a blocker")
		} else {
			r.missing("C24.R7", "Fetch:shape", "blockers / waiter stores or tx registration not found")
		}
	}
	// waiters are tracked per Fetch call: a block may carry one transaction ID twice (replay protection is off when
	// re-processing), and a record shared through the ID map would be decremented twice per key
	if p := w.Pkgs[pkgFetcher]; p != nil {
		okW := false
		if tn, ok := p.Types.Scope().Lookup("key").(*types.TypeName); ok {
			if st, ok := tn.Type().Underlying().(*types.Struct); ok {
				for i := 0; i < st.NumFields(); i++ {
					if st.Field(i).Name() == "blocked" {
						okW = strings.HasSuffix(st.Field(i).Type().String(), "[]*"+pkgFetcher+".tx")
					}
				}
			}
		}
		r.check(okW, "C24.R7", "key.blocked:per-call-records", pkgFetcher, "[]*tx", "the waiters of a key are recorded by transaction ID: a second Fetch with the same ID shares (and overwrites) the first call's record, which then reaches zero before all keys were read")
	}
	fw := r.fn(w, "C24.R7", "(*"+pkgFetcher+".Fetcher).Wait")
	if fw != nil {
		wg := findEffects(fw, "call (*sync.WaitGroup).Wait(p0.wg)")
		// sealing Do anywhere in Wait or its closures
		okk := len(wg) == 1
		n := 0
		for _, f := range withNested(fw) {
			for _, e := range findEffects(f, "call (*sync.Once).Do(*.setErr, *") {
				n++
				if f != fw || len(wg) != 1 || !dominatesI(wg[0].Ins, e.Ins) {
					okk = false
				}
			}
		}
		r.check(okk && n == 1, "C24.R7", "Wait:error-sealed-only-after-workers-exit", w.rel(fw.Pos()), "", "Wait makes the error unsettable before the workers have exited: a read error arriving later is lost, Wait reports success and blocked Get calls never return")
		outs := returnOutcomes(fw)
		r.check(len(outs) == 1 && len(outs[0].Vals) == 1 && term(outs[0].Vals[0]) == "p0.err", "C24.R7", "Wait:returns-recorded-error", w.rel(fw.Pos()), "", "Wait does not return the recorded error")
	}
}

// phiFeeds reports whether phi a is (transitively, one level) an edge of phi b.
func phiFeeds(a, b *ssa.Phi) bool {
	for _, e := range b.Edges {
		if e == ssa.Value(a) {
			return true
		}
	}
	return false
}

// ----------------------------------------------------------------------------- C26

func c26(r *Run) {
	w := r.W
	PW := "(*" + pkgWorkers + ".ParallelWorkers)."
	r.rule("C26.R1", "K20", "a worker goroutine exits only through the acknowledged stop case; Stop receives count acknowledgements", 3)
	r.rule("C26.R2", "K7", "sg.Add(1) before each hand-off; exactly one sg.Done() per handled task", 3)
	r.rule("C26.R3", "K1", "first error kept under lock, reset after the result is sent; result sent after sg.Wait; shutdown reporting", 7)
	r.rule("C26.R4", "K12", "SerialJob: Go skips after the first error; Wait returns it", 2)

	wk := r.fn(w, "C26.R1", PW+"startWorker$1")
	if wk != nil {
		sends := findEffects(wk, "send fv:w.stoppedWorkers <- *")
		if len(sends) == 1 {
			okk, trail := mustPass(entry(wk), isReturn, isInstr(sends[0].Ins))
			r.check(okk, "C26.R1", "startWorker$1:exit-only-through-acknowledgement", r.at(w, sends[0].Ins), "every return passes the stoppedWorkers send",
				fmt.Sprintf("the worker goroutine can return without acknowledging Stop (path through blocks %v): Stop would block forever and later jobs hang", trail))
			r.check(hasMatch(sends[0].Conds(), "0 == select#0"), "C26.R1", "startWorker$1:ack-in-stop-case", r.at(w, sends[0].Ins), "", "the acknowledgement is not sent from the stopWorkers case")
		} else {
			r.missing("C26.R1", "startWorker$1:exit-only-through-acknowledgement", "stoppedWorkers acknowledgement not found")
		}
		// the worker blocks only in a select over {stopWorkers, tasks}
		nsel := 0
		eachInstr(wk, func(i ssa.Instruction) {
			if s, ok := i.(*ssa.Select); ok && s.Blocking {
				nsel++
				has := false
				for _, st := range s.States {
					if term(st.Chan) == "fv:w.stopWorkers" && st.Dir == types.RecvOnly {
						has = true
					}
				}
				r.check(has, "C26.R1", "startWorker$1:select-has-stop", r.at(w, i), "", "the worker's blocking select has no stopWorkers case")
			}
		})
		if nsel == 0 {
			r.missing("C26.R1", "startWorker$1:select-has-stop", "worker select not found")
		}
	}
	stp := r.fn(w, "C26.R1", PW+"Stop")
	if stp != nil {
		okk := false
		for _, h := range loopHeaders(stp) {
			// exactly count iterations: counting up from 0 below count, or down from count while positive
			ps := ""
			if ifi, ok := h.Instrs[len(h.Instrs)-1].(*ssa.If); ok {
				ps = predString(ifi.Cond, true)
			}
			if glob("phi(*) < p0.count", ps) && (strings.HasPrefix(ps, "phi(0, (1 + ↺))") || strings.HasPrefix(ps, "phi((1 + ↺), 0)")) ||
				ps == "0 < phi(p0.count, (↺ - 1))" || ps == "0 < phi((↺ - 1), p0.count)" {
				loop := naturalLoop(h)
				for b := range loop {
					for _, i := range b.Instrs {
						if u, ok := i.(*ssa.UnOp); ok && u.Op == token.ARROW && term(u.X) == "p0.stoppedWorkers" {
							okk = true
						}
					}
				}
			}
		}
		r.check(okk, "C26.R1", "Stop:waits-for-count-acknowledgements", w.rel(stp.Pos()), "", "Stop does not receive exactly count acknowledgements")
		// order: shouldShutdown=true ; close(queue) ; <-ackShutdown ; close(stopWorkers)
		seq := []string{"store p0.shouldShutdown = true", "call builtin.close(p0.queue)", "call builtin.close(p0.stopWorkers)"}
		var prev ssa.Instruction
		okk = true
		for _, s := range seq {
			es := findEffects(stp, s)
			if len(es) != 1 || prev != nil && !dominatesI(prev, es[0].Ins) {
				okk = false
				break
			}
			prev = es[0].Ins
		}
		r.check(okk, "C26.R1", "Stop:order", w.rel(stp.Pos()), "", "Stop does not mark shutdown, close the queue and then stop the workers in that order")
	}

	// R2
	pq := r.fn(w, "C26.R2", PW+"processQueue$1")
	if pq != nil {
		adds := findEffects(pq, "call (*sync.WaitGroup).Add(fv:w.sg, 1)")
		sends := findEffects(pq, "send fv:w.tasks <- *")
		okk := len(adds) == 1 && len(sends) == 1
		if okk {
			ai, si := adds[0].Ins, sends[0].Ins
			if ai == si && adds[0].Inner != nil && sends[0].Inner != nil {
				ai, si = adds[0].Inner, sends[0].Inner // both inside one looked-through helper
			}
			okk = ai.Block() == si.Block() && instrIndex(ai) < instrIndex(si)
		}
		r.check(okk, "C26.R2", "processQueue:Add-before-handoff", w.rel(pq.Pos()), "sg.Add(1) immediately precedes each hand-off", "sg.Add(1) is not paired with each task hand-off")
		if okk {
			r.check(glob("send fv:w.tasks <- <-next(range(fv:w.queue))*.tasks*", sends[0].Str) || strings.Contains(sends[0].Str, ".tasks"), "C26.R2", "processQueue:every-task-of-the-job", r.at(w, sends[0].Ins), sends[0].Str, "the hand-off does not forward the job's tasks")
		}
	}
	if wk != nil {
		dones := findEffects(wk, "call (*sync.WaitGroup).Done(fv:w.sg)")
		isDone := func(i ssa.Instruction) bool {
			for _, d := range dones {
				if d.Ins == i {
					return true
				}
			}
			return false
		}
		// the task-receive case: block(s) controlled by "1 == select#0"
		var sel *ssa.Select
		eachInstr(wk, func(i ssa.Instruction) {
			if s, ok := i.(*ssa.Select); ok {
				sel = s
			}
		})
		okk := sel != nil && len(dones) >= 1
		detail := ""
		if okk {
			// entry of the task case: successor blocks whose conds include 1 == select#0
			for _, b := range wk.Blocks {
				cs := condStrings(ctrlConds(b))
				if !hasStr(cs, "1 == select#0") {
					continue
				}
				// first block of the case only (its predecessors are not in the case)
				first := true
				for _, p := range b.Preds {
					if hasStr(condStrings(ctrlConds(p)), "1 == select#0") {
						first = false
					}
				}
				if !first {
					continue
				}
				// every path from here back to the select or to a return passes a Done
				if found, tr := pathExists(point{b, 0}, func(i ssa.Instruction) bool { return i == ssa.Instruction(sel) || isReturn(i) }, isDone, nil); found {
					okk = false
					detail = fmt.Sprintf("a handled task can finish without sg.Done() (blocks %v)", tr)
				}
			}
			// no second Done before the next select
			for _, d := range dones {
				if found, _ := pathExists(after(d.Ins), isDone, func(i ssa.Instruction) bool { return i == ssa.Instruction(sel) }, nil); found {
					okk = false
					detail = "sg.Done() can run twice for one task"
				}
			}
		}
		r.check(okk, "C26.R2", "startWorker$1:exactly-one-Done-per-task", w.rel(wk.Pos()), "", detail)
	}

	// R3
	if wk != nil {
		es := findEffects(wk, "store fv:w.err = *")
		okk := len(es) == 1
		if okk {
			okk = hasStr(es[0].Conds(), "fv:w.err == nil") || hasStr(es[0].Conds(), "nil == fv:w.err")
			okk = okk && heldAt(locksets(wk, lockState{}), es[0], "fv:w.lock") == 2
		}
		r.check(okk, "C26.R3", "startWorker$1:first-error-kept", w.rel(wk.Pos()), "w.err set only when nil, under the write lock", "the job error is not 'set only if nil, under the lock'")
		// a task is skipped once an error is recorded
		calls := findEffects(wk, "call dyn:<-fv:w.tasks()")
		if len(calls) == 0 {
			calls = findEffects(wk, "call dyn:*()")
		}
		r.check(len(calls) == 1 && (hasStr(calls[0].Conds(), "fv:w.err == nil") || hasStr(calls[0].Conds(), "nil == fv:w.err")), "C26.R3", "startWorker$1:skip-after-error", w.rel(wk.Pos()), "", "tasks are not skipped after an error was recorded for the job")
		// ... and only then: a received task reaches sg.Done without having run only through the "recorded error is non-nil" edge
		if len(calls) == 1 {
			errEdges := map[edgeKey]bool{}
			for _, b := range wk.Blocks {
				if ifi, ok := b.Instrs[len(b.Instrs)-1].(*ssa.If); ok {
					switch predString(ifi.Cond, true) {
					case "fv:w.err != nil", "nil != fv:w.err":
						errEdges[edgeKey{b.Index, 0}] = true
					case "fv:w.err == nil", "nil == fv:w.err":
						errEdges[edgeKey{b.Index, 1}] = true
					}
				}
			}
			dones := findEffects(wk, "call (*sync.WaitGroup).Done(fv:w.sg)")
			okS := len(errEdges) >= 1 && len(dones) >= 1
			// start from the first instruction after the task was received: the read-lock acquisition of the pre-check
			var start ssa.Instruction
			for _, e := range findEffects(wk, "call (*sync.RWMutex).RLock(fv:w.lock)") {
				if start == nil || dominatesI(e.Ins, start) {
					start = e.Ins
				}
			}
			if start == nil {
				okS = false
			} else {
				for _, d := range dones {
					if found, _ := pathExists(after(start), isInstr(d.Ins), isInstr(calls[0].Ins), errEdges); found {
						okS = false
					}
				}
			}
			r.check(okS, "C26.R3", "startWorker$1:skipped-only-after-error", w.rel(wk.Pos()), "a task is acknowledged unrun only when the job already recorded an error", "a received task can be acknowledged (sg.Done) without having run although no error is recorded: the job reports success without having run all its tasks")
		}
	}
	if pq != nil {
		wt := findEffects(pq, "call (*sync.WaitGroup).Wait(fv:w.sg)")
		rs := findEffects(pq, "send next(range(fv:w.queue))#1.result <- fv:w.err")
		if len(rs) == 0 {
			rs = findEffects(pq, "send *.result <- fv:w.err")
		}
		rst := findEffects(pq, "store fv:w.err = nil")
		var cc, ccShutdown []*effect
		for _, e := range findEffects(pq, "call builtin.close(*.completed)") {
			if hasStr(e.Conds(), "fv:w.shouldShutdown") {
				ccShutdown = append(ccShutdown, e)
			} else {
				cc = append(cc, e)
			}
		}
		// a job that is still queued at shutdown releases its owner: tasks drained, completion closed, then ErrShutdown
		drains := 0
		for _, e := range effectsOf(pq) {
			if strings.HasPrefix(e.Str, "go ") && strings.Contains(e.Str, ".tasks") && hasStr(e.Conds(), "fv:w.shouldShutdown") {
				drains++
			}
		}
		r.check(len(ccShutdown) == 1 && drains == 1, "C26.R3", "processQueue:queued-job-at-shutdown-released", w.rel(pq.Pos()), "", "a job still queued when the pool stops is not released (its tasks are never read and its completion channel is never closed): Job.Go blocks forever and the Done callback never runs")
		okk := len(wt) == 1 && len(rs) == 1 && len(rst) == 1 && len(cc) == 1
		if okk {
			okk = effBefore(wt[0], rs[0]) && effBefore(rs[0], rst[0]) && effBefore(wt[0], cc[0])
			ls := locksets(pq, lockState{})
			okk = okk && heldAt(ls, rst[0], "fv:w.lock") == 2 && heldAt(ls, rs[0], "fv:w.lock") == 2
		}
		r.check(okk, "C26.R3", "processQueue:wait-then-result-then-reset", w.rel(pq.Pos()), "sg.Wait -> close(completed), result <- err -> err = nil (under lock)", "the job result is not sent after all tasks finished and before the error is reset, under the lock")
		sd := findEffects(pq, "send *.result <- internal/workers.ErrShutdown")
		r.check(len(sd) == 1 && hasStr(sd[0].Conds(), "fv:w.shouldShutdown"), "C26.R3", "processQueue:queued-jobs-report-shutdown", w.rel(pq.Pos()), "", "jobs queued at shutdown do not report ErrShutdown")
		// tasks of the job are all forwarded before waiting: loop over j.tasks has no early exit
		ack := findEffects(pq, "call builtin.close(fv:w.ackShutdown)")
		r.check(len(ack) == 1 && hasStr(ack[0].Conds(), "fv:w.shouldShutdown") && hasStr(ack[0].Conds(), "!fv:w.triggeredShutdown"), "C26.R3", "processQueue:ack-shutdown-once", w.rel(pq.Pos()), "", "shutdown is not acknowledged exactly once after the queue drained")
	}
	nj := r.fn(w, "C26.R3", PW+"NewJob")
	if nj != nil {
		r.guardTable(w, "C26.R3", nj, []guardRow{{Preds: []string{"p0.shouldShutdown"}, Sentinel: "internal/workers.ErrShutdown", Global: true, Label: "NewJob-after-shutdown"}})
		r.requireEffect(w, "C26.R3", "NewJob:result-buffered", nj, "store alloc(complit).result = makechan(chan error)")
		r.requireEffect(w, "C26.R3", "NewJob:enqueued", nj, "send p0.queue <- alloc(complit)", "!p0.shouldShutdown")
		// the shutdown test and the enqueue are one atomic step with respect to Stop (which sets the flag and closes the
		// queue): the send happens with the pool lock held
		// R7: Stop releases the workers only after the scheduler acknowledged (a job it had already taken runs to
		// completion on those workers); SerialJob keeps the first error (a nil result never overwrites it)
		r.rule("C26.R7", "K1", "Stop closes stopWorkers only after the scheduler's acknowledgement; SerialJob.Go records only a non-nil result, once", 2)
		if stp := r.fn(w, "C26.R7", PW+"Stop"); stp != nil {
			var ack ssa.Instruction
			eachInstr(stp, func(i ssa.Instruction) {
				if u, ok := i.(*ssa.UnOp); ok && u.Op == token.ARROW && strings.HasSuffix(term(u.X), ".ackShutdown") {
					ack = i
				}
			})
			cl := findEffects(stp, "call builtin.close(p0.stopWorkers)")
			r.check(ack != nil && len(cl) == 1 && dominatesI(ack, cl[0].Ins), "C26.R7", "Stop:workers-released-after-scheduler-ack", w.rel(stp.Pos()), "", "Stop tells the workers to exit before the scheduler acknowledged the shutdown: a job the scheduler had already taken is never finished (its Wait and Stop itself block)")
		}
		if sg := r.fn(w, "C26.R7", "(*"+pkgWorkers+".SerialJob).Go"); sg != nil {
			okk := true
			n := 0
			for _, e := range findEffects(sg, "store p0.err = *") {
				n++
				val := strings.TrimPrefix(e.Str, "store p0.err = ")
				if !(hasStr(e.Conds(), val+" != nil") || hasStr(e.Conds(), "nil != "+val)) || !(hasStr(e.Conds(), "nil == p0.err") || hasStr(e.Conds(), "p0.err == nil")) {
					okk = false
				}
			}
			r.check(okk && n == 1, "C26.R7", "SerialJob.Go:records-first-non-nil-result", w.rel(sg.Pos()), "", "SerialJob.Go does not record exactly the first non-nil task result: a task that succeeds after another one failed can overwrite the failure (callers run Go from several goroutines)")
		}
		// R6: the pool has one error slot for the job in flight: it is cleared only after that job's result was sent
		// (never by creating another job, which may happen while the first is still running)
		r.rule("C26.R6", "K3", "ParallelWorkers.err is written only by the worker (first error) and by the dispatcher after the result was sent", 2)
		{
			n := 0
			// the worker and dispatcher goroutines, and helpers that did not exist on the reference tree and are
			// called only from them
			var allowedErrWriter func(f *ssa.Function, d int) bool
			allowedErrWriter = func(f *ssa.Function, d int) bool {
				name := fnName(f)
				if strings.Contains(name, "ParallelWorkers).startWorker$") || strings.Contains(name, "ParallelWorkers).processQueue$") {
					return true
				}
				if knownFuncs[name] || f.Parent() != nil || d > maxLiftDepth {
					return false
				}
				callers := 0
				for _, g := range w.FnsInPkg(pkgWorkers) {
					if len(callsNamed(g, name)) == 0 {
						continue
					}
					callers++
					if !allowedErrWriter(g, d+1) {
						return false
					}
				}
				return callers > 0
			}
			for _, fn := range w.FnsInPkg(pkgWorkers) {
				for _, stI := range fieldStores(fn, pkgWorkers+".ParallelWorkers", "err") {
					n++
					name := fnName(fn)
					okW := allowedErrWriter(fn, 0)
					r.check(okW, "C26.R6", short(name)+":err-slot-write", r.at(w, stI), "", "the pool's error slot is written in "+short(name)+": the failure recorded for a job still running can be wiped (its Wait then reports success and an invalid signature is accepted)")
				}
			}
			if n < 2 {
				r.missing("C26.R6", "err-slot-writes", "the worker's and the dispatcher's writes of ParallelWorkers.err were not found")
			}
		}
		r.rule("C26.R5", "K4", "NewJob enqueues under the lock that Stop takes to set the flag and close the queue", 1)
		sends := findEffects(nj, "send p0.queue <- *")
		okA := len(sends) == 1 && heldAt(locksets(nj, lockState{}), sends[0], "p0.lock") >= 1
		if okA {
			// ... and Stop closes the queue under the same lock
			okA = false
			if stp := w.Fn(PW + "Stop"); stp != nil {
				cl := findEffects(stp, "call builtin.close(p0.queue)")
				okA = len(cl) == 1 && heldAt(locksets(stp, lockState{}), cl[0], "p0.lock") == 2
			}
		}
		r.check(okA, "C26.R5", "NewJob:shutdown-test-and-enqueue-atomic", w.rel(nj.Pos()), "", "NewJob tests shouldShutdown under the lock, releases it and then sends on the queue while Stop closes the queue without excluding that send: a submission overlapping Stop panics with 'send on closed channel' instead of reporting ErrShutdown")
	}
	r.guardedBy(w, lockSpec{Rule: "C26.R3", Owner: pkgWorkers + ".ParallelWorkers", Fields: []string{"err", "shouldShutdown", "triggeredShutdown"}, Mutex: "lock", Pkgs: []string{pkgWorkers}, MinSites: 8})

	// R4
	sg := r.fn(w, "C26.R4", "(*"+pkgWorkers+".SerialJob).Go")
	if sg != nil {
		calls := findEffects(sg, "call dyn:p1()")
		r.check(len(calls) == 1 && (hasStr(calls[0].Conds(), "nil == p0.err") || hasStr(calls[0].Conds(), "p0.err == nil")), "C26.R4", "SerialJob.Go:skip-after-error", w.rel(sg.Pos()), "", "SerialJob.Go does not skip tasks after the first error")
	}
	sw := r.fn(w, "C26.R4", "(*"+pkgWorkers+".SerialJob).Wait")
	if sw != nil {
		outs := returnOutcomes(sw)
		r.check(len(outs) == 1 && outs[0].ErrTerm == "p0.err", "C26.R4", "SerialJob.Wait:returns-error", w.rel(sw.Pos()), "", "SerialJob.Wait does not return the recorded error")
		// Wait returns only after Done: tasks are added from other goroutines (the batch verifier) until Done is called
		var recv ssa.Instruction
		eachInstr(sw, func(i ssa.Instruction) {
			if u, ok := i.(*ssa.UnOp); ok && u.Op == token.ARROW && term(u.X) == "p0.done" {
				recv = i
			}
		})
		okW := recv != nil
		if okW {
			for _, o := range outs {
				if !dominatesI(recv, o.Ret) {
					okW = false
				}
			}
		}
		closes := 0
		if sd := w.Fn("(*" + pkgWorkers + ".SerialJob).Done"); sd != nil {
			r.saw(sd)
			for _, f := range withNested(sd) {
				closes += len(findEffects(f, "call builtin.close(*.done)"))
			}
		}
		r.check(okW && closes == 1, "C26.R4", "SerialJob.Wait:blocks-until-Done", w.rel(sw.Pos()), "", "SerialJob.Wait does not wait for Done: with tasks added from another goroutine (batched signature verification) the job reports success before all tasks ran")
	}
}
