package main

// Seeded source edits for the thorough tier's kill matrix. Each is applied in memory over the current tree,
// must still type-check, and must be reported as a violation by the property's rules.

func init() {
	ex := "internal/executor/executor.go"
	mut("C08", "unlocked-blocked-write", ex, "\t\t\t\t\trt.l.Lock()\n\t\t\t\t\trt.blocked[id] = t\n\t\t\t\t\trt.l.Unlock()", "\t\t\t\t\trt.blocked[id] = t", "reader's blocked set written without its mutex")
	mut("C08", "read-perm-test-widened", ex, "if v == state.Read {", "if v&state.Read != 0 && v&state.Write == 0 {", "allocate|read treated as shared access")
	mut("C08", "blocked-enqueue-off-by-one", ex, "if bt.dependencies.Add(-1) > 0 {", "if bt.dependencies.Add(-1) >= 0 {", "blocked task never enqueued when it reaches zero")
	mut("C08", "drop-dependency-on-writer", ex, "\t\t\t\tlt.blocked[id] = t\n\t\t\t\tdependencies.Add(lt.id)", "\t\t\t\tlt.blocked[id] = t", "dependency on the unexecuted previous task not counted")
	mut("C08", "executed-test-inverted", ex, "if !lt.executed {", "if lt.executed {", "block on executed instead of unexecuted task")
	mut("C08", "done-before-notify", ex, "\t\tt.blocked = nil // free memory\n\t\tt.executed = true\n\t\tt.l.Unlock()\n\t\te.outstanding.Done()", "\t\te.outstanding.Done()\n\t\tt.blocked = nil // free memory\n\t\tt.l.Unlock()", "executed flag never set; Done before unlock")
	mut("C08", "error-overwritten", ex, "\t\te.err.CompareAndSwap(nil, err)\n\t\treturn", "\t\te.err.Store(err)\n\t\treturn", "later errors overwrite the first")
	mut("C08", "no-skip-after-error", ex, "\tif e.err.Load() != nil {\n\t\treturn\n\t}\n\n\t// Execute the task", "\t// Execute the task", "tasks keep running after an error")
	mut("C08", "writer-keeps-old-node", ex, "\t\t\t\t\tdependencies.Add(rt.id)\n\t\t\t\t}\n\t\t\t\te.nodes[k] = t", "\t\t\t\t\tdependencies.Add(rt.id)\n\t\t\t\t}", "exclusive task does not become the key's node")

	// reverse-fix mutants: re-introduce the defects repaired by the fix: commits
	mut("C04", "revert-fix-remove-after-allocate", "state/tstate/tstate_view.go", "\tdelete(ts.allocates, k)\n\t// Mark as an explicit delete.", "\tif _, ok := ts.allocates[k]; ok {\n\t\tdelete(ts.allocates, k)\n\t\tdelete(ts.writes, k)\n\t\tdelete(ts.pendingChangedKeys, k)\n\t\treturn nil\n\t}\n\t// Mark as an explicit delete.", "delete-after-allocate drops the pending entry without isUnchanged")
	mut("C24", "revert-fix-without-permissions", "state/keys.go", "ks := make([]string, 0, len(k))", "ks := make([]string, len(k))", "prefetch list padded with empty keys")
	mut("C26", "revert-fix-worker-exit", "internal/workers/parallel_workers.go", "\t\t\t\t\tw.sg.Done()\n\t\t\t\t\tcontinue", "\t\t\t\t\tw.sg.Done()\n\t\t\t\t\treturn", "worker leaves without acknowledgement after a failed job")
	mut("C13", "revert-fix-price-product", "internal/fees/manager.go", "\t\tdelta := total - target\n\t\tbaseDelta := mulDivDiv(previousPrice, delta, target, changeDenom)", "\t\tdelta := total - target\n\t\tbaseDelta := previousPrice * delta / target / changeDenom", "unchecked price*delta")
	mut("C13", "revert-fix-idle-scaling", "internal/fees/manager.go", "\t\t\tscaled, over := math.Mul(baseDelta, since/window.WindowSize)\n\t\t\tif over != nil {\n\t\t\t\tscaled = consts.MaxUint64\n\t\t\t}\n\t\t\tbaseDelta = scaled", "\t\t\tbaseDelta *= since / window.WindowSize", "unchecked idle-time scaling")
	mut("C13", "direction-flipped", "internal/fees/manager.go", "\tif total > target {\n\t\t// If the parent block used more", "\tif total >= target {\n\t\t// If the parent block used more", "price rises at exactly target usage")
	mut("C13", "min-clamp-only-on-decrease", "internal/fees/manager.go", "\t\t\tnextPrice = n\n\t\t}\n\t}\n\tif nextPrice < minPrice {\n\t\tnextPrice = minPrice\n\t}", "\t\t\tnextPrice = n\n\t\t}\n\t\tif nextPrice < minPrice {\n\t\t\tnextPrice = minPrice\n\t\t}\n\t}", "minimum clamp not applied on every path")
	mut("C13", "consumed-offset-shifted", "internal/fees/manager.go", "func (f *Manager) setLastConsumed(d fees.Dimension, consumed uint64) {\n\tstart := consts.Int64Len + dimensionStateLen*d + consts.Uint64Len + window.WindowSliceSize", "func (f *Manager) setLastConsumed(d fees.Dimension, consumed uint64) {\n\tstart := consts.Int64Len + dimensionStateLen*d + consts.Uint64Len", "consumption written into the window")
	mut("C33", "revert-fix-compaction", "fees/set.go", "\tfor i := 0; i < len(outIndices); i++ {\n\t\tif outIndices[i] == uint64(len(dimensions)) {\n\t\t\tcontinue\n\t\t}\n\t\toutIndices[j] = outIndices[i]\n\t\tj++\n\t}\n\toutIndices = outIndices[:j]", "\tfor i := 0; i < len(outIndices)-j; i++ {\n\t\tif outIndices[i] == uint64(len(dimensions)) {\n\t\t\tj++\n\t\t\ti--\n\t\t\tcontinue\n\t\t}\n\t\toutIndices[i] = outIndices[i+j]\n\t}\n\toutIndices = outIndices[:len(outIndices)-j]", "compaction re-tests the sentinel slot")
	mut("C33", "mark-when-fits", "fees/set.go", "if !accumulator.CanAdd(dim, limit) {", "if accumulator.CanAdd(dim, limit) {", "selection inverted")

	mut("C35", "revert-fix-fallthrough", "x/dsmr/node.go", "\t\t\t// the fetched chunk was verified and appended by onResponse\n\t\t\tcontinue\n\t\t} else if err != nil {\n\t\t\treturn ExecutedBlock[T]{}, fmt.Errorf(\"failed to get chunk: %w\", err)\n\t\t}", "\t\t}", "fetched chunk then ParseChunk(nil)")
	mut("C35", "append-before-verify", "x/dsmr/node.go", "\t\t\t\t\tif _, err := n.storage.VerifyRemoteChunk(response); err != nil {\n\t\t\t\t\t\tresult <- err\n\t\t\t\t\t\treturn\n\t\t\t\t\t}\n\n\t\t\t\t\tchunks = append(chunks, response)", "\t\t\t\t\tchunks = append(chunks, response)\n\t\t\t\t\tif _, err := n.storage.VerifyRemoteChunk(response); err != nil {\n\t\t\t\t\t\tresult <- err\n\t\t\t\t\t\treturn\n\t\t\t\t\t}", "unverified remote chunk appended")
	mut("C36", "revert-fix-pending-record", "x/dsmr/storage.go", "\t\tif err := batch.Delete(pendingChunkKey(chunk.Chunk.Expiry, chunk.Chunk.id)); err != nil {\n\t\t\treturn fmt.Errorf(\"failed to delete pending chunk %s: %w\", saveChunkID, err)\n\t\t}\n", "", "saved chunk keeps its pending record")
	mut("C36", "expired-keeps-record", "x/dsmr/storage.go", "\t\tif err := batch.Delete(pendingChunkKey(chunk.Chunk.Expiry, chunk.Chunk.id)); err != nil {\n\t\t\treturn err\n\t\t}\n", "\t\t_ = chunk\n", "expired chunk keeps its pending record")
	mut("C37", "revert-fix-expiry-check", "x/dsmr/node.go", "\t\tif chunkCert.Expiry < block.Timestamp {\n\t\t\treturn fmt.Errorf(\"%w %s: expiry %d < block timestamp %d\", ErrExpiredChunkCert, chunkCert.ChunkID, chunkCert.Expiry, block.Timestamp)\n\t\t}\n", "", "Verify ignores certificate expiry")
	mut("C37", "builder-keeps-expired", "x/dsmr/node.go", "if chunkCert.Expiry < timestamp || duplicates.Contains(i) {", "if duplicates.Contains(i) {", "builder includes expired certificates")
	mut("C38", "revert-fix-idempotent-bond", "internal/chain/bond.go", "\tif bonded {\n\t\treturn true, nil\n\t}\n", "\t_ = bonded\n", "Bond adds the fee again for an already bonded transaction")
	mut("C38", "unbond-without-record", "internal/chain/bond.go", "\tif errors.Is(err, database.ErrNotFound) {\n\t\t// Make this operation idempotent if the tx was already unbonded\n\t\t// previously\n\t\treturn nil\n\t}\n\tif err != nil {\n\t\treturn fmt.Errorf(\"failed to get tx fee: %w\", err)\n\t}", "\tif err != nil && !errors.Is(err, database.ErrNotFound) {\n\t\treturn fmt.Errorf(\"failed to get tx fee: %w\", err)\n\t}\n\tif len(feeBytes) < 8 {\n\t\tfeeBytes = make([]byte, 8)\n\t}", "Unbond of an unknown transaction still writes")

	mut("C28", "revert-fix-unchecked-copy", "codec/address.go", "\taddr, err := ToAddress(decoded)\n\tif err != nil {\n\t\treturn err\n\t}\n\t*a = addr\n\treturn nil", "\tcopy(a[:], decoded)\n\treturn nil", "payload of any length accepted")
	mut("C28", "checksum-not-compared", "codec/address.go", "\tif !bytes.Equal(checksum, hashing.Checksum(originalBytes, checksumLen)) {\n\t\treturn nil, ErrBadChecksum\n\t}", "\t_ = bytes.Equal(checksum, hashing.Checksum(originalBytes, checksumLen))", "checksum ignored")
	mut("C15", "revert-fix-trailing-bytes", "chain/chaintest/action.go", "\tif p.Offset != len(p.Bytes) {\n\t\treturn nil, avacodec.ErrExtraSpace\n\t}\n\treturn t, nil\n}\n\nfunc (t *TestAction) ComputeUnits", "\t_ = avacodec.ErrExtraSpace\n\treturn t, nil\n}\n\nfunc (t *TestAction) ComputeUnits", "decoder accepts trailing bytes")
	mut("C15", "id-of-unsigned-bytes", "chain/transaction.go", "\ttx.bytes = r.B\n\ttx.size = len(tx.bytes)\n\ttx.id = utils.ToID(tx.bytes)", "\ttx.bytes = r.B\n\ttx.size = len(tx.bytes)\n\ttx.id = utils.ToID(unsignedTxBytes)", "ID not bound to the full encoding")
	mut("C15", "nil-tx-accepted", "chain/stateless_block.go", "\t\tif tx == nil {\n\t\t\treturn fmt.Errorf(\"%w at index %d\", ErrNilTxInBlock, i)\n\t\t}", "\t\t_, _ = tx, i", "nil transaction in block accepted")
	mut("C17", "wrong-type-id-in-address", "auth/secp256r1.go", "return codec.CreateAddress(SECP256R1ID, utils.ToID(pk[:]))", "return codec.CreateAddress(ED25519ID, utils.ToID(pk[:]))", "address carries another scheme's type ID")
	mut("C17", "decoder-size-relaxed", "auth/ed25519.go", "if len(bytes) != ED25519Size {", "if len(bytes) < ED25519Size {", "auth decoder accepts trailing bytes")
	mut("C17", "low-s-check-dropped", "crypto/secp256r1/secp256r1.go", "\tif !normalizedS(s) {\n\t\treturn false\n\t}\n\n\t// Check if signature is valid", "\t// Check if signature is valid", "malleable high-S signatures verify")
	mut("C14", "revert-fix-action-prefix", "chain/transaction.go", "\t\tbandwidth += uint64(len(canoto__SerializeTx__Actions__tag)) + canoto.SizeBytes(actionBytes)", "\t\tbandwidth += uint64(len(actionBytes))", "per-action prefix not budgeted")
	mut("C14", "maxfee-from-units-of-one-dimension", "chain/transaction.go", "\tmaxFee, err := fees.MulSum(unitPrices, units)", "\tmaxFee, err := fees.MulSum(unitPrices, fees.Dimensions{units[0]})", "max fee ignores four dimensions")

	dyn := "abi/dynamic/reflect_marshal.go"
	mut("C29", "revert-fix-bool", dyn, "\tcase \"bool\":\n\t\treturn reflect.TypeOf(false), nil\n", "", "bool fields cannot be rebuilt")
	mut("C29", "revert-fix-outputs", dyn, "\t\toutput, ok := inputABI.FindOutputByName(typeName)\n\t\tif !ok {\n\t\t\treturn nil, fmt.Errorf(\"action or output %s not found in ABI\", typeName)\n\t\t}\n\t\ttypeID = output.ID", "\t\treturn nil, fmt.Errorf(\"action %s not found in ABI\", typeName)", "outputs cannot be encoded")
	mut("C29", "label-type-mismatch", dyn, "\tcase \"uint16\":\n\t\treturn reflect.TypeOf(uint16(0)), nil", "\tcase \"uint16\":\n\t\treturn reflect.TypeOf(uint32(0)), nil", "uint16 fields rebuilt as uint32")
	mut("C29", "serialize-tag-dropped", dyn, "`serialize:\"true\" json:\"%s\"`", "`json:\"%s\"`", "rebuilt fields are skipped by the codec")
	mut("C29", "describe-skips-differently", "abi/abi.go", "\t\tif serializeTag != \"true\" {", "\t\tif serializeTag == \"\" {", "fields tagged serialize:\"false\" are described")
	mut("C29", "decode-keeps-id-byte", dyn, "\treturn Unmarshal(inputABI, data[1:], actionType.Name)", "\treturn Unmarshal(inputABI, data, actionType.Name)", "type ID byte decoded as payload")
	mut("C29", "field-order-reversed", dyn, "\t\t\tfields[i] = reflect.StructField{", "\t\t\tfields[len(fields)-1-i] = reflect.StructField{", "rebuilt struct has reversed field order")

	rpc := "api/jsonrpc/server.go"
	mut("C30", "clone-dropped", rpc, "actionResult.StateKeys = maps.Clone(scope.StateKeys())", "actionResult.StateKeys = scope.StateKeys()\n\t\t_ = maps.Clone(actionResult.StateKeys)", "reported keys emptied by clear")
	mut("C30", "clear-dropped", rpc, "\t\tclear(scope)\n", "", "keys of earlier actions leak into later reports")
	mut("C30", "commit-dropped", rpc, "\t\ttsv.Commit()\n\n\t\treply.Outputs", "\t\treply.Outputs", "later actions do not see earlier writes")
	mut("C30", "action-id-mismatch", rpc, "stateKeysWithPermissions := action.StateKeys(args.Actor, chain.CreateActionID(ids.Empty, uint8(actionIndex)))", "stateKeysWithPermissions := action.StateKeys(args.Actor, ids.Empty)", "keys declared for a different action ID")
	mut("C30", "read-errors-ignored", rpc, "\t\t\tif err != nil && !errors.Is(err, database.ErrNotFound) {\n\t\t\t\treturn fmt.Errorf(\"failed to read state: %w\", err)", "\t\t\tif err != nil && errors.Is(err, database.ErrNotFound) {\n\t\t\t\treturn fmt.Errorf(\"failed to read state: %w\", err)", "real read errors ignored, not-found fatal")
	mut("C30", "simulated-has-does-not-record", "state/keys.go", "\tKeys(d).Add(string(key), perm)\n\treturn true", "\treturn true", "simulation reports no keys")
	mut("C30", "keys-add-overwrites", "state/keys.go", "\tk[key] |= permission", "\tk[key] = permission", "permissions overwritten instead of unioned")
	mut("C30", "limit-off", rpc, "len(args.Actions) > maxActionsPerTx {", "len(args.Actions) > maxActionsPerTx+1 {", "one action more than the limit accepted")

	idx := "api/indexer/indexer.go"
	mut("C31", "revert-fix-gap-eviction", idx, "\t\tif i.lastHeight != math.MaxUint64 && i.lastHeight+1 == blk.Block.Hght {", "\t\tif i.lastHeight == i.lastHeight {", "only the exact height is evicted after a gap")
	mut("C31", "ranged-eviction-off-by-one", idx, "\t\t\t\tif height <= lastEvictedHeight {", "\t\t\t\tif height < lastEvictedHeight {", "the block exactly one window below survives a gap")
	mut("C31", "evict-forgets-txs", idx, "\tfor _, tx := range evictedBlk.Block.Txs {\n\t\tdelete(i.txCache, tx.GetID())\n\t}", "", "transactions of evicted blocks stay cached")
	mut("C31", "evict-forgets-id", idx, "\tdelete(i.blockIDToHeight, evictedBlk.Block.GetID())\n", "", "IDs of evicted blocks stay cached")
	mut("C31", "store-deletes-wrong-height", idx, "blkBatch.Delete(blockEntryKey(blk.Block.Hght - i.blockWindow))", "blkBatch.Delete(blockEntryKey(blk.Block.Hght - i.blockWindow + 1))", "store keeps one block fewer than the cache")
	mut("C31", "notify-store-unlocked-cache", idx, "\ti.mu.Lock()\n\ti.insertBlockIntoCache(blk)\n\ti.mu.Unlock()", "\ti.insertBlockIntoCache(blk)", "cache mutated without the lock")
	mut("C31", "tx-timestamp-of-latest", idx, "\treturn true, tx, blk.Block.Tmstmp, result, nil", "\treturn true, tx, i.blockHeightToBlock[i.lastHeight].Block.Tmstmp, result, nil", "timestamp of another block reported")
	mut("C31", "init-skips-decode-errors", idx, "\t\tblk, err := chain.UnmarshalExecutedBlock(value, i.parser)\n\t\tif err != nil {\n\t\t\treturn err\n\t\t}", "\t\tblk, err := chain.UnmarshalExecutedBlock(value, i.parser)\n\t\tif err != nil {\n\t\t\tcontinue\n\t\t}", "undecodable stored blocks silently dropped at restart")
	mut("C31", "tx-index-constant", idx, "\t\t\tindex:     idx,", "\t\t\tindex:     idx - idx,", "every transaction mapped to position 0")

	proc, txf := "chain/processor.go", "chain/transaction.go"
	mut("C01", "commit-before-execute", proc, "\t\t\tresults[i] = result\n\n\t\t\t// Commit results to parent [TState]\n\t\t\ttsv.Commit()\n\t\t\treturn nil", "\t\t\tresults[i] = result\n\t\t\treturn nil", "task never publishes its writes")
	mut("C01", "view-scope-not-conflict-keys", proc, "\t\t\ttsv := ts.NewView(\n\t\t\t\tstateKeys,\n\t\t\t\tstate.ImmutableStorage(storage),", "\t\t\ttsv := ts.NewView(\n\t\t\t\tstate.CompletePermissions,\n\t\t\t\tstate.ImmutableStorage(storage),", "task may touch keys the executor did not order")
	mut("C01", "executor-wait-ignored", proc, "\tif err := e.Wait(); err != nil {\n\t\treturn nil, nil, err\n\t}", "\t_ = e.Wait()", "results returned although a task failed")
	mut("C01", "shared-result-slot", proc, "\t\t\tresults[i] = result", "\t\t\tresults[i%2] = result", "concurrent tasks write the same result slots")
	mut("C03", "rollback-dropped", txf, "\t\t\tts.Rollback(ctx, actionStart)\n", "\t\t\t_ = actionStart\n", "failed actions keep their writes")
	mut("C03", "deduct-error-swallowed", txf, "\tif err := bh.Deduct(ctx, t.Auth.Sponsor(), ts, fee); err != nil {\n\t\t// This should never fail for low balance (as we check [CanDeductFee]\n\t\t// immediately before).\n\t\treturn nil, fmt.Errorf(\"failed to deduct tx fee: %w\", err)\n\t}", "\t_ = bh.Deduct(ctx, t.Auth.Sponsor(), ts, fee)", "actions run although the fee was not paid")
	mut("C03", "checkpoint-inside-loop", txf, "\t\tactionOutput, err := action.Execute(ctx, r, ts, timestamp, t.Auth.Actor(), CreateActionID(t.GetID(), uint8(i)))", "\t\tactionStart = ts.OpIndex()\n\t\tactionOutput, err := action.Execute(ctx, r, ts, timestamp, t.Auth.Actor(), CreateActionID(t.GetID(), uint8(i)))", "only the failing action is rolled back")
	mut("C03", "result-fee-not-charged-fee", txf, "\t\t\t\tUnits:   units,\n\t\t\t\tFee:     fee,", "\t\t\t\tUnits:   units,\n\t\t\t\tFee:     0,", "failed result reports a fee that was not the one charged")
	mut("C07", "charged-more-than-computed-fee", txf, "\tif err := bh.Deduct(ctx, t.Auth.Sponsor(), ts, fee); err != nil {", "\tif err := bh.Deduct(ctx, t.Auth.Sponsor(), ts, fee+1); err != nil {", "sponsor charged more than the computed fee")
	mut("C07", "reported-fee-differs", txf, "\t\tUnits: units,\n\t\tFee:   fee,", "\t\tUnits: units,\n\t\tFee:   fee - 1,", "result reports less than was charged")
	mut("C16", "signature-error-swallowed", proc, "\terr := sigJob.Wait()\n\tif err != nil {\n\t\treturn fmt.Errorf(\"signatures failed verification: %w\", err)\n\t}", "\terr := sigJob.Wait()\n\tif err != nil {\n\t\tp.metrics.waitSignaturesCount.Inc()\n\t}", "invalid signatures accepted")
	mut("C16", "signed-bytes-not-unsigned-bytes", proc, "\t\tunsignedTxBytes := tx.UnsignedBytes()", "\t\tunsignedTxBytes := tx.Bytes()", "auth verified over the wrong message")
	mut("C16", "leftover-batch-dropped", "chain/auth_batch.go", "\t\tfor _, item := range bw.bv.Done() {\n\t\t\ta.job.Go(item)\n\t\t\ta.log.Debug(\"enqueued batch for processing during done\")\n\t\t}", "\t\t_ = bw.bv.Done()", "last partial batch never verified")
	mut("C16", "unbatched-auth-skipped", "chain/auth_batch.go", "\t\ta.job.Go(func() error { return auth.Verify(context.TODO(), digest) })\n\t\treturn", "\t\ta.job.Go(func() error { _ = context.TODO(); return nil })\n\t\treturn", "auth types without a batch verifier are never verified")

	bld := "chain/builder.go"
	mut("C02", "builder-height-from-parent", bld, "\tif err := tsv.Insert(ctx, heightKey, binary.BigEndian.AppendUint64(nil, height)); err != nil {", "\tif err := tsv.Insert(ctx, heightKey, binary.BigEndian.AppendUint64(nil, parent.Hght)); err != nil {", "built block stores the parent's height")
	mut("C02", "builder-commit-before-consume", bld, "\t\t\t\t// Update block with new transaction\n\t\t\t\ttsv.Commit()\n\t\t\t\tblockTransactions = append(blockTransactions, tx)", "\t\t\t\t// Update block with new transaction\n\t\t\t\tblockTransactions = append(blockTransactions, tx)", "included transaction's writes never reach the block state")
	mut("C02", "builder-timestamp-now", bld, "\tif err := tsv.Insert(ctx, timestampKey, binary.BigEndian.AppendUint64(nil, uint64(timestamp))); err != nil {", "\tif err := tsv.Insert(ctx, timestampKey, binary.BigEndian.AppendUint64(nil, uint64(time.Now().UnixMilli()))); err != nil {", "state timestamp differs from header timestamp")
	mut("C11", "builder-state-timestamp-now", bld, "\tif err := tsv.Insert(ctx, timestampKey, binary.BigEndian.AppendUint64(nil, uint64(timestamp))); err != nil {", "\tif err := tsv.Insert(ctx, timestampKey, binary.BigEndian.AppendUint64(nil, uint64(time.Now().UnixMilli()))); err != nil {", "state timestamp differs from header timestamp")
	mut("C09", "builder-ignores-repeat-flags", bld, "\t\t\tif dup.Contains(i) {\n\t\t\t\tcontinue\n\t\t\t}", "\t\t\t_ = dup", "repeated transactions included in built blocks")
	mut("C09", "builder-repeat-error-ignored", bld, "\t\tif err != nil {\n\t\t\trestorable = append(restorable, txs...)\n\t\t\tbreak\n\t\t}\n\n\t\te := executor.New(", "\t\tif err != nil {\n\t\t\trestorable = append(restorable, txs[:0]...)\n\t\t}\n\n\t\te := executor.New(", "batch executed although the repeat check failed")
	mut("C12", "builder-consume-result-ignored", bld, "\t\t\t\tif ok, dimension := feeManager.Consume(result.Units, maxUnits); !ok {", "\t\t\t\tif ok, dimension := feeManager.Consume(result.Units, maxUnits); !ok && stop {", "transaction that does not fit is included")
	mut("C12", "verifier-consume-result-ignored", proc, "\t\tif ok, d := feeManager.Consume(units, r.GetMaxBlockUnits()); !ok {", "\t\tif ok, d := feeManager.Consume(units, r.GetMaxBlockUnits()); !ok && numTxs == 0 {", "block above the unit limit verifies")

	tsvf := "state/tstate/tstate_view.go"
	mut("C05", "read-needs-no-permission", tsvf, "\tif !ts.checkScope(ctx, key, state.Read) {\n\t\treturn nil, ErrInvalidKeyOrPermission\n\t}\n\tk := string(key)\n\treturn ts.getValue(ctx, k)", "\tk := string(key)\n\treturn ts.getValue(ctx, k)", "undeclared keys readable")
	mut("C05", "remove-checks-read-only", tsvf, "\t// Removing requires writing & deleting that key, so we pass state.Write\n\tif !ts.checkScope(ctx, key, state.Write) {", "\t// Removing requires writing & deleting that key, so we pass state.Write\n\tif !ts.checkScope(ctx, key, state.Read) {", "read permission suffices to delete")
	mut("C05", "create-skips-allocate", tsvf, "\t\tif !ts.checkScope(ctx, key, state.Allocate) {\n\t\t\treturn ErrInvalidKeyOrPermission\n\t\t}\n", "", "write permission suffices to create a key")
	mut("C05", "has-is-intersection", "state/keys.go", "\treturn require&^p == 0", "\treturn require&p != 0", "any shared permission bit grants access")
	mut("C12", "consume-limit-off-by-one", "internal/fees/manager.go", "\t\tif consumed > l[i] {\n\t\t\treturn false, i\n\t\t}", "\t\tif consumed > l[i]+1 {\n\t\t\treturn false, i\n\t\t}", "block may exceed the unit limit by one")
	mut("C12", "consume-single-phase", "internal/fees/manager.go", "\t\tif consumed > l[i] {\n\t\t\treturn false, i\n\t\t}\n\t}", "\t\tif consumed > l[i] {\n\t\t\treturn false, i\n\t\t}\n\t\tf.setLastConsumed(i, consumed)\n\t}", "partial consumption on failure")

	mst, mtr := "examples/morpheusvm/storage/storage.go", "examples/morpheusvm/actions/transfer.go"
	mut("C06", "credit-differs-from-debit", mtr, "storage.AddBalance(ctx, mu, t.To, t.Value)", "storage.AddBalance(ctx, mu, t.To, t.Value+1)", "recipient credited more than the sender paid")
	mut("C06", "unchecked-subtraction", mst, "\tnbal, err := smath.Sub(bal, amount)", "\tnbal, err := bal-amount, error(nil)", "overdraft wraps around")
	mut("C06", "stored-balance-differs", mst, "\treturn mu.Insert(ctx, key, binary.BigEndian.AppendUint64(nil, balance))", "\treturn mu.Insert(ctx, key, binary.BigEndian.AppendUint64(nil, balance+1))", "stored balance is not the computed balance")
	mut("C06", "transfer-declares-recipient-read-only", mtr, "\t\tstring(storage.BalanceKey(t.To)):  state.All,", "\t\tstring(storage.BalanceKey(t.To)):  state.Read,", "recipient key declared without write access")
	ci := "chainindex/chain_index.go"
	mut("C19", "genesis-pruned", ci, "c.config.AcceptedBlockWindow == 0 || expiryHeight == 0 || expiryHeight >= height {", "c.config.AcceptedBlockWindow == 0 || expiryHeight >= height {", "genesis can be pruned")
	mut("C19", "prune-outside-batch", ci, "\t\tbatch.Delete(prefixBlockKey(expiryHeight)),", "\t\tc.db.Delete(prefixBlockKey(expiryHeight)),", "prune not atomic with the new block")
	mut("C19", "window-zero-prunes", ci, "c.config.AcceptedBlockWindow == 0 || expiryHeight == 0 ||", "expiryHeight == 0 ||", "window 0 no longer means keep everything")
	sb := "snow/block.go"
	mut("C18", "queue-before-index", sb, "\tif err := b.vm.inputChainIndex.UpdateLastAccepted(ctx, b.Input); err != nil {\n\t\treturn err\n\t}\n\n\t// If I'm ready, queue the block for processing\n\tif b.vm.ready {\n\t\tb.queueAccept()\n\t} else {", "\tif b.vm.ready {\n\t\tb.queueAccept()\n\t}\n\tif err := b.vm.inputChainIndex.UpdateLastAccepted(ctx, b.Input); err != nil {\n\t\treturn err\n\t}\n\n\t// If I'm ready, queue the block for processing\n\tif !b.vm.ready {", "block processed before it is persisted")
	mut("C20", "accept-unverified-allowed", sb, "\tif b.vm.ready && !b.verified {\n\t\treturn errParentFailedVerification\n\t}", "\tif b.vm.ready && !b.verified {\n\t\tb.vm.log.Info(\"accepting unverified block\")\n\t}", "unverified block accepted in normal operation")
	mut("C20", "accept-keeps-block-pinned", sb, "\tb.vm.verifiedL.Lock()\n\tdelete(b.vm.verifiedBlocks, b.Input.GetID())\n\tb.vm.verifiedL.Unlock()\n\n\tb.vm.setLastAccepted(b)", "\tb.vm.setLastAccepted(b)", "accepted block stays in the processing map")
	mut("C21", "ready-before-reverification", "snow/statesync.go", "\tif err := v.verifyProcessingBlocks(ctx); err != nil {\n\t\treturn err\n\t}\n\n\tv.ready = true\n", "\tv.ready = true\n\tif err := v.verifyProcessingBlocks(ctx); err != nil {\n\t\treturn err\n\t}\n\n", "VM reports ready although re-verification failed")
	mut("C21", "tip-not-reprocessed", "snow/statesync.go", "\t\tv.setLastAccepted(updatedLastAccepted)\n", "\t\t_ = updatedLastAccepted\n", "last accepted stays at the unprocessed tip")
	mut("C21", "unresolved-check-inverted", "snow/health.go", "\tif unresolvedBlocks > 0 {", "\tif unresolvedBlocks < 0 {", "node healthy with unresolved blocks")

	mut("C40", "value-may-exceed-key-chunks", "keys/keys.go", "\treturn valueChunks <= keyChunks", "\treturn valueChunks <= keyChunks+1", "value one chunk larger than declared passes")
	mut("C40", "chunk-count-truncates", "keys/keys.go", "\traw := valueLen/chunkSize + 1", "\traw := valueLen / chunkSize", "partial chunk not counted")
	mut("C40", "chunk-count-overflow-unchecked", "keys/keys.go", "\tif raw > int(consts.MaxUint16) {\n\t\treturn 0, false\n\t}\n", "", "huge value wraps the chunk count")
	mut("C39", "one-direction-only", "state/metadata/state_manager.go", "\t\t\tif bytes.HasPrefix(p, vp) || bytes.HasPrefix(vp, p) {", "\t\t\tif bytes.HasPrefix(p, vp) {", "a later prefix that extends... only one order tested")
	mut("C39", "fee-prefix-unchecked", "state/metadata/state_manager.go", "\t\tm.HeightPrefix(),\n\t\tm.FeePrefix(),\n\t\tm.TimestampPrefix(),", "\t\tm.HeightPrefix(),\n\t\tm.TimestampPrefix(),", "fee prefix not part of the conflict check")
	mut("C39", "element-not-remembered-after-first", "state/metadata/state_manager.go", "\t\tverifiedPrefixes = append(verifiedPrefixes, p)", "\t\tif len(verifiedPrefixes) == 0 {\n\t\t\tverifiedPrefixes = append(verifiedPrefixes, p)\n\t\t}", "only the first prefix is compared against")
	mb := "pubsub/message_buffer.go"
	mut("C32", "oversize-check-dropped", mb, "\tif l > m.maxSize {", "\tif l > m.maxSize && m.maxSize < 0 {", "oversize message accepted")
	mut("C32", "flush-after-append", mb, "\tif m.pendingSize+l > m.maxSize {", "\tif m.pendingSize > m.maxSize {", "batch exceeds the limit by one message")

	mut("C27", "genesis-supply-unchecked", "genesis/genesis.go", "\t\tsupply, err = safemath.Add(supply, alloc.Balance)\n\t\tif err != nil {\n\t\t\treturn err\n\t\t}", "\t\tsupply, err = safemath.Add(supply, alloc.Balance)\n\t\tif err != nil {\n\t\t\tsupply = 0\n\t\t}", "total supply may wrap")
	mut("C27", "genesis-credit-error-ignored", "genesis/genesis.go", "\t\tif err := balanceHandler.AddBalance(ctx, alloc.Address, mu, alloc.Balance); err != nil {\n\t\t\treturn fmt.Errorf(\"%w: addr=%s, bal=%d\", err, alloc.Address, alloc.Balance)\n\t\t}", "\t\tif err := balanceHandler.AddBalance(ctx, alloc.Address, mu, alloc.Balance); err != nil {\n\t\t\t_ = fmt.Errorf(\"%w: addr=%s, bal=%d\", err, alloc.Address, alloc.Balance)\n\t\t}", "allocation silently missing")
	mp := "internal/mempool/mempool.go"
	dn, dst := "x/dsmr/node.go", "x/dsmr/storage.go"
	mut("C35", "revert-fix-fetched-identity", dn, "\t\t\t\t\tif response.id != chunkCert.ChunkID || response.Expiry != chunkCert.Expiry {", "\t\t\t\t\tif response.id != chunkCert.ChunkID && response.Expiry != chunkCert.Expiry {", "a different valid chunk with the same expiry is appended")
	mut("C35", "rate-limit-in-storage-verification", dst, "\tif err := s.verifier.Verify(c); err != nil {\n\t\treturn nil, err\n\t}\n\tif err := s.putVerifiedChunk(c, nil); err != nil {", "\tif err := s.verifier.Verify(c); err != nil {\n\t\treturn nil, err\n\t}\n\tif err := s.CheckRateLimit(c); err != nil {\n\t\treturn nil, err\n\t}\n\tif err := s.putVerifiedChunk(c, nil); err != nil {", "Accept never completes for a rate-limited producer")
	mut("C36", "revert-fix-nil-cert", dst, "\t\tif chunkCertInfo.Cert == nil {\n\t\t\treturn nil, nil\n\t\t}\n", "", "nil certificate dereferenced")
	mut("C36", "revert-fix-verifier-min", dst, "\tverifier.SetMin(minSlot)\n", "", "verifier restarts at minimum 0")
	mut("C36", "revert-fix-setmin-validation", dst, "\t\tif !pending || duplicate {\n\t\t\treturn fmt.Errorf(\"failed to save chunk %s\", saveChunkID)\n\t\t}", "\t\t_, _ = pending, duplicate", "SetMin mutates before validating")
	mut("C09", "revert-fix-sync-finish-replay", "vm/vm.go", "\t\tif err == nil && block.Hght > lastAcceptedHeight {\n\t\t\tisNormalOp = true\n\t\t}", "\t\t_, _ = err, lastAcceptedHeight", "processing blocks re-verified without replay check")
	mut("C21", "revert-fix-rejections-subtracted", "snow/statesync.go", "\tinvalidBlkIDs.Difference(rejected)\n", "", "blocks rejected during re-verification stay unresolved")
	fm := "internal/fees/manager.go"
	mut("C13", "revert-fix-elapsed-clamp", fm, "\tsince := uint64(0)\n\tif currTimeSeconds > lastTimeSeconds {\n\t\tsince = uint64(currTimeSeconds - lastTimeSeconds)\n\t}", "\tsince := uint64(currTimeSeconds - lastTimeSeconds)", "negative elapsed time wraps")
	mut("C08", "revert-fix-hold", "internal/executor/executor.go", "\tt.dependencies.Add(e.maxDependencies + 1)", "\tt.dependencies.Add(e.maxDependencies)", "hold equals the allowed dependency count")
	mut("C08", "hold-and-adjust-disagree", "internal/executor/executor.go", "\tdifference := e.maxDependencies + 1 - int64(dependencies.Len())", "\tdifference := e.maxDependencies - int64(dependencies.Len())", "one unit is never released: no task with dependencies ever runs")
	mut("C37", "revert-fix-verify-upper-bound", dn, "\t\tif chunkCert.Expiry > block.Timestamp+validityWindow {", "\t\tif chunkCert.Expiry > block.Timestamp+validityWindow && block.Height == 0 {", "far-future certificates verify")
	mut("C37", "revert-fix-build-upper-bound", dn, "chunkCert.Expiry < timestamp || chunkCert.Expiry > timestamp+validityWindow || duplicates.Contains(i)", "chunkCert.Expiry < timestamp || validityWindow < 0 || duplicates.Contains(i)", "builder includes far-future certificates")
	mut("C20", "revert-fix-parent-lookup", sb, "\tif parent == nil || !parent.accepted || parent.ID() != b.Parent() {", "\tif parent == nil {", "unchecked parent handed to the chain")
	mut("C20", "revert-fix-build-guard", "snow/vm.go", "\tif !v.ready || !preferredBlk.verified {", "\tif !v.ready {", "build on an unverified preference")
	mut("C10", "revert-fix-readmission-prune", "vm/vm.go", "\t\t\tif lastAccepted, err := vm.LastAcceptedBlock(ctx); err == nil {\n\t\t\t\tvm.mempool.SetMinTimestamp(ctx, lastAccepted.Tmstmp)\n\t\t\t}\n", "", "expired transactions re-admitted from rejected blocks")
	mut("C26", "revert-fix-serial-wait", "internal/workers/serial_workers.go", "\t<-j.done\n", "", "serial Wait returns before Done")
	mut("C16", "revert-fix-serial-wait", "internal/workers/serial_workers.go", "\t<-j.done\n", "", "serial Wait returns before Done")
	mut("C22", "revert-fix-response-budget", "internal/validitywindow/handler.go", "\t\tif len(blocks) > 0 && responseBytes+len(blockBytes) > maxResponseBytes {\n\t\t\treturn blocks, nil\n\t\t}\n", "", "no byte budget on block-fetch answers")
	mut("C18", "revert-fix-compact-nil-limit", "internal/pebble/pebble.go", "\tif limit == nil {\n\t\t// The database.Database spec", "\tif limit == nil && start != nil {\n\t\t// The database.Database spec", "Compact(nil, nil) forwards the nil limit")
	mut("C18", "revert-fix-start-block-notified", "snow/chain_index.go", "\tif targetInputBlock.GetHeight() > outputBlock.GetHeight() {\n\t\tif err := event.NotifyAll[A](ctx, acceptedBlock, v.acceptedSubs...); err != nil {", "\tif targetInputBlock.GetHeight() > outputBlock.GetHeight() && v.ready {\n\t\tif err := event.NotifyAll[A](ctx, acceptedBlock, v.acceptedSubs...); err != nil {", "start block not delivered at start-up (ready is false then)")
	mut("C26", "revert-fix-queued-job-released", "internal/workers/parallel_workers.go", "\t\t\t\tclose(j.completed)\n\t\t\t\tj.result <- ErrShutdown", "\t\t\t\tj.result <- ErrShutdown", "completion callback of a queued job never runs")
	mut("C23", "revert-fix-front-order", mp, "\t\t\titem = items[len(items)-1-i]", "\t\t\titem = items[i]", "restored block reversed")
	mut("C23", "revert-fix-prefetched-after-given", mp, "\t\tm.nextStreamFetched = false\n\t}\n\tm.add(restorable, true)\n\tm.streamLock.Unlock()", "\t\tm.nextStreamFetched = false\n\t}\n\tm.streamLock.Unlock()", "given-back items dropped / wrong order")
	mut("C23", "revert-fix-lock-order", mp, "\tm.streamLock.Lock()\n\n\tm.mu.Lock()\n\tdefer m.mu.Unlock()\n\n\tm.streamedItems", "\tm.mu.Lock()\n\tdefer m.mu.Unlock()\n\n\tm.streamLock.Lock()\n\tm.streamedItems", "StartStreaming waits for the stream lock holding mu")
	mut("C23", "revert-fix-late-prepare", mp, "\tif m.streamedItems == nil {\n\t\treturn\n\t}\n\tm.nextStream = m.streamItems(count)", "\tm.nextStream = m.streamItems(count)", "prefetch outside a stream pops items")
	mut("C23", "sponsor-limit-off", mp, "\t\tif m.owned[sender] == m.maxSponsorSize {\n\t\t\tcontinue // do nothing, wait for items to expire\n\t\t}", "\t\tif m.owned[sender] > m.maxSponsorSize {\n\t\t\tcontinue // do nothing, wait for items to expire\n\t\t}", "sponsor may hold more than its limit")
	mut("C23", "size-limit-off", mp, "\t\tif m.queue.Size() == m.maxSize {", "\t\tif m.queue.Size() > m.maxSize {", "mempool may exceed its capacity")
	mut("C23", "duplicate-admitted", mp, "\t\tif m.eh.Has(itemID) {\n\t\t\t// Don't drop because already exists\n\t\t\tcontinue\n\t\t}", "", "same transaction queued twice")
	mut("C23", "owned-not-counted", mp, "\t\tm.owned[sender]++\n", "", "sponsor count never grows")

	mut("C34", "format-through-float", "utils/utils.go", "\treturn fmt.Sprintf(\"%d.%0*d\", bal/unit, int(consts.Decimals), bal%unit)", "\treturn fmt.Sprintf(\"%.*f\", int(consts.Decimals), float64(bal)/float64(unit))", "balances above 2^53 do not round-trip")
	mut("C34", "parse-whole-through-float", "utils/utils.go", "\treturn whole*unit + frac, nil", "\treturn uint64(float64(whole)*float64(unit)) + frac, nil", "whole part loses low digits")

	em := "internal/emap/emap.go"
	mut("C25", "emap-evicts-boundary", em, "\t\tif b == nil || b.Val >= t {", "\t\tif b == nil || b.Val > t {", "entries expiring exactly at the new minimum are evicted")
	mut("C25", "emap-times-entry-kept", em, "\t\t// Delete from times map\n\t\tdelete(e.times, b.Val)\n", "", "a later add at the same time appends to a dead bucket")
	mut("C25", "emap-seen-kept", em, "\t\t\te.seen.Remove(id)\n", "", "evicted IDs stay members")
	mut("C25", "eheap-evicts-boundary", "internal/eheap/eheap.go", "\t\tif minItem.GetExpiry() < val {", "\t\tif minItem.GetExpiry() <= val {", "items expiring exactly at the minimum are evicted")
	cl := "internal/validitywindow/client.go"
	mut("C22", "unlinked-block-emitted", cl, "\t\t\t\tif expectedParentID != block.GetID() {\n\t\t\t\t\tbreak\n\t\t\t\t}\n", "\t\t\t\t_ = expectedParentID\n", "blocks that are not hash-linked are recorded")
	mut("C22", "parent-pointer-not-advanced", cl, "\t\t\t\texpectedParentID = block.GetParent()\n", "", "every later block is compared with the first parent")
	mut("C22", "revert-fix-genesis", cl, "if c.lastBlock.GetTimestamp() < minTimestamp.Load() || c.lastBlock.GetHeight() == 0 {\n\t\t\t\tclose(resultChan)", "if c.lastBlock.GetTimestamp() < minTimestamp.Load() {\n\t\t\t\tclose(resultChan)", "loop-top genesis completion removed")

	vw := "internal/validitywindow/validitywindow.go"
	mut("C10", "expiry-boundary", vw, "case containerTimestamp < executionTimestamp:", "case containerTimestamp <= executionTimestamp:", "expiry equal to block time rejected")
	mut("C10", "future-boundary", vw, "case containerTimestamp > executionTimestamp+validityWindow:", "case containerTimestamp >= executionTimestamp+validityWindow:", "upper boundary off by one")
	mut("C10", "misaligned-dropped", vw, "case containerTimestamp%divisor != 0:", "case divisor == 0:", "alignment never checked")
	mut("C10", "args-swapped", "chain/base.go", "VerifyTimestamp(b.Timestamp, timestamp, ", "VerifyTimestamp(timestamp, b.Timestamp, ", "expiry and execution time swapped")
	mut("C10", "chainid-ignored", "chain/base.go", "if b.ChainID != r.GetChainID() {", "if b.ChainID != r.GetChainID() && b.ChainID != (ids.ID{}) {", "empty chain ID accepted")
	mut("C10", "action-end-boundary", "chain/transaction.go", "\t\tif end >= 0 && timestamp > end {\n\t\t\treturn fmt.Errorf", "\t\tif end > 0 && timestamp > end {\n\t\t\treturn fmt.Errorf", "end == 0 treated as unbounded")
	mut("C10", "auth-start-dropped", "chain/transaction.go", "\tif start >= 0 && timestamp < start {\n\t\treturn ErrAuthNotActivated\n\t}", "\t_ = start", "auth activation start ignored")
	mut("C10", "two-clocks", "chain/pre_executor.go", "tx.PreExecute(ctx, nextFeeManager, p.balanceHandler, r, im, now)", "tx.PreExecute(ctx, nextFeeManager, p.balanceHandler, r, im, time.Now().UnixMilli())", "admission checks use a second clock reading")
}
