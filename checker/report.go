package main

import (
	"encoding/json"
	"fmt"
	"go/token"
	"os"
	"path/filepath"
	"sort"
	"strings"
	"time"

	"golang.org/x/tools/go/ssa"
)

type Obligation struct {
	Property  string `json:"property"`
	Rule      string `json:"rule"`
	Construct string `json:"construct"`
	Status    string `json:"status"` // discharged | violated | mechanism-missing | known
	Where     string `json:"where,omitempty"`
	Detail    string `json:"detail,omitempty"`
}

func (o Obligation) Key() string { return o.Property + "/" + o.Rule + "/" + o.Construct }

type KnownFinding struct {
	Property  string `json:"property"`
	Rule      string `json:"rule"`
	Construct string `json:"construct"`
	What      string `json:"what"`
}

type FixedEntry struct {
	Property string `json:"property"`
	Commit   string `json:"commit"`
	What     string `json:"what"`
	Rule     string `json:"rule,omitempty"`
}

type KnownFile struct {
	Findings []KnownFinding `json:"findings"`
	Fixed    []FixedEntry   `json:"fixed"`
	FixedTxt []string       `json:"fixed_lines,omitempty"`
}

// Run is the state of one property check.
type Run struct {
	Prop    string
	Tier    string
	Seed    int64
	W       *World // root module
	mw      *World // morpheusvm module (lazy)
	mwErr   error
	Obs     []Obligation
	fnsSeen map[string]bool
	rules   map[string]*ruleInfo
	ruleIDs []string
	overlay map[string][]byte
	explain string
	assume  []string
	counter map[string]int
	// isImport: this run executes another property's rules on behalf of importRules
	isImport bool
}

type ruleInfo struct {
	ID        string `json:"id"`
	Kind      string `json:"kind"`
	Text      string `json:"text"`
	ExpectMin int    `json:"expect_min"`
	Matched   int    `json:"matched"`
}

func (r *Run) MW() *World {
	if r.mw == nil && r.mwErr == nil {
		r.mw, r.mwErr = loadWorld(filepath.Join(repoDir(), "examples/morpheusvm"), morpheusPatterns, 4, r.overlay)
		if r.mwErr != nil {
			fatal2("cannot analyse examples/morpheusvm: %v", r.mwErr)
		}
	}
	return r.mw
}

// rule declares a rule instance; expectMin is the number of constructs confirmed by hand on today's tree.
func (r *Run) rule(id, kind, text string, expectMin int) {
	if r.rules == nil {
		r.rules = map[string]*ruleInfo{}
	}
	if _, ok := r.rules[id]; !ok {
		r.rules[id] = &ruleInfo{ID: id, Kind: kind, Text: text, ExpectMin: expectMin}
		r.ruleIDs = append(r.ruleIDs, id)
	}
}

// importRules runs another property's rules and adopts the obligations of the named rules under this property
// (rule id "<this>.<=<origin rule>"): used where a property's behaviour rests on a mechanism decided elsewhere.
func (r *Run) importRules(f func(*Run), rules ...string) {
	if r.isImport {
		// imports are one level deep: only native rules of the origin property can be imported (this also breaks cycles)
		return
	}
	sub := &Run{Prop: r.Prop, Tier: r.Tier, Seed: r.Seed, W: r.W, mw: r.mw, overlay: r.overlay, isImport: true}
	f(sub)
	r.mw = sub.mw
	want := map[string]bool{}
	for _, x := range rules {
		want[x] = true
	}
	for _, o := range sub.Obs {
		if !want[o.Rule] {
			continue
		}
		id := r.Prop + "<=" + o.Rule
		if r.rules[id] == nil {
			ri := sub.rules[o.Rule]
			txt, kind := "", ""
			if ri != nil {
				txt, kind = ri.Text, ri.Kind
			}
			r.rule(id, kind, "imported: "+txt, 1)
		}
		r.rules[id].Matched++
		o.Rule = id
		o.Property = r.Prop
		r.Obs = append(r.Obs, o)
	}
	for k := range sub.fnsSeen {
		if r.fnsSeen == nil {
			r.fnsSeen = map[string]bool{}
		}
		r.fnsSeen[k] = true
	}
}

func (r *Run) saw(fn *ssa.Function) {
	if fn == nil {
		return
	}
	if r.fnsSeen == nil {
		r.fnsSeen = map[string]bool{}
	}
	r.fnsSeen[short(fnName(fn))] = true
}

func (r *Run) add(rule, construct, status, where, detail string) {
	if r.rules[rule] == nil {
		r.rule(rule, "", "", 0)
	}
	// make construct keys unique by occurrence
	if r.counter == nil {
		r.counter = map[string]int{}
	}
	k := rule + "/" + construct
	r.counter[k]++
	if n := r.counter[k]; n > 1 {
		construct = fmt.Sprintf("%s:%d", construct, n)
	}
	r.rules[rule].Matched++
	r.Obs = append(r.Obs, Obligation{Property: r.Prop, Rule: rule, Construct: construct, Status: status, Where: where, Detail: detail})
}

func (r *Run) wpos(w *World, p token.Pos) string {
	if w == nil {
		w = r.W
	}
	return w.rel(p)
}

func (r *Run) ok(rule, construct string, where string, detail string) {
	r.add(rule, construct, "discharged", where, detail)
}
func (r *Run) bad(rule, construct string, where string, detail string) {
	r.add(rule, construct, "violated", where, detail)
}
func (r *Run) missing(rule, construct string, detail string) {
	r.add(rule, construct, "mechanism-missing", "", detail)
}

// check records an obligation that holds iff cond.
func (r *Run) check(cond bool, rule, construct, where, okDetail, badDetail string) bool {
	if cond {
		r.ok(rule, construct, where, okDetail)
	} else {
		r.bad(rule, construct, where, badDetail)
	}
	return cond
}

// fn looks a function up; a missing function is a mechanism-missing obligation of the rule.
func (r *Run) fn(w *World, rule, name string) *ssa.Function {
	f := w.Fn(name)
	if f == nil {
		r.missing(rule, short(name), "function not found: "+name)
		return nil
	}
	r.saw(f)
	return f
}

func (r *Run) at(w *World, ins ssa.Instruction) string {
	if ins == nil {
		return "?"
	}
	return w.rel(instrPos(ins))
}

// --------------------------------------------------------------------------

func loadKnown() KnownFile {
	var kf KnownFile
	b, err := os.ReadFile(filepath.Join(verifDir(), "known_findings.json"))
	if err != nil {
		return kf
	}
	if err := json.Unmarshal(b, &kf); err != nil {
		fatal2("known_findings.json: %v", err)
	}
	return kf
}

func verifDir() string {
	if d := os.Getenv("VERIF_DIR"); d != "" {
		return d
	}
	return "/verif"
}

type Evidence struct {
	PropertyID  string         `json:"property_id"`
	Tier        string         `json:"tier"`
	Seed        int64          `json:"seed"`
	Level       string         `json:"level"`
	Coverage    map[string]any `json:"coverage"`
	Assumptions []string       `json:"assumptions"`
	WallS       float64        `json:"wall_s"`
	Violations  int            `json:"violations"`
}

// finish applies known findings and vacuity guards, writes evidence and violation files,
// prints the verdict lines and returns the exit code.
func (r *Run) finish(start time.Time, extra map[string]any, writeEvidence bool) int {
	kf := loadKnown()
	known := map[string]KnownFinding{}
	for _, k := range kf.Findings {
		known[k.Property+"/"+k.Rule+"/"+k.Construct] = k
	}
	// vacuity guard
	for _, id := range r.ruleIDs {
		ri := r.rules[id]
		if ri.Matched < ri.ExpectMin {
			r.Obs = append(r.Obs, Obligation{Property: r.Prop, Rule: id, Construct: "vacuity-guard", Status: "mechanism-missing",
				Detail: fmt.Sprintf("rule matched %d constructs, at least %d were confirmed on the reference tree", ri.Matched, ri.ExpectMin)})
		}
	}
	viol := 0
	var knownLines []string
	var violObs []Obligation
	disch := 0
	for i := range r.Obs {
		o := &r.Obs[i]
		switch o.Status {
		case "discharged":
			disch++
		case "violated", "mechanism-missing":
			if k, ok := known[o.Key()]; ok {
				o.Status = "known"
				knownLines = append(knownLines, fmt.Sprintf("KNOWN-FINDING: property=%s %s/%s %s", r.Prop, o.Rule, o.Construct, k.What))
			} else {
				viol++
				violObs = append(violObs, *o)
			}
		}
	}
	distinct := map[string]bool{}
	for _, o := range r.Obs {
		distinct[o.Rule+"/"+o.Construct] = true
	}
	var rules []*ruleInfo
	for _, id := range r.ruleIDs {
		rules = append(rules, r.rules[id])
	}
	samples := r.samples()
	fns := sortedKeys(r.fnsSeen)
	cov := map[string]any{
		"explanation":         r.explain,
		"obligations":         len(r.Obs),
		"discharged":          disch,
		"evaluations":         len(r.Obs),
		"distinct_nontrivial": len(distinct),
		"rule":                "one obligation per (rule, matched construct) of the current /repo tree; a case is distinct by its rule/construct key and non-trivial because every obligation is bound to a concrete SSA site (function, call, branch, field access) that the matcher found in the type-checked source",
		"samples":             samples,
		"rules":               rules,
		"functions_analysed":  fns,
		"packages_loaded":     len(r.W.Pkgs),
		"known_findings":      len(knownLines),
		"checker_cmd":         fmt.Sprintf("./bin/hsdkcheck -property %s -tier %s", r.Prop, r.Tier),
		"trusted_base":        []string{"go/types type checker", "golang.org/x/tools/go/ssa v0.29.0 SSA construction", "rule tables in /verif/checker/props_*.go", "third-party libraries as specified"},
		"exhaustive":          false,
	}
	for k, v := range extra {
		cov[k] = v
	}
	if r.assume == nil {
		r.assume = []string{}
	}
	r.assume = append(r.assume, "source files parse and type-check as the Go toolchain sees them (no build tags in the repository)", "third-party libraries behave as documented")
	ev := Evidence{PropertyID: r.Prop, Tier: r.Tier, Seed: r.Seed, Level: "other", Coverage: cov, Assumptions: r.assume, WallS: time.Since(start).Seconds(), Violations: viol}
	if writeEvidence {
		dir := filepath.Join(verifDir(), "evidence")
		_ = os.MkdirAll(dir, 0o755)
		b, _ := json.MarshalIndent(ev, "", " ")
		if err := os.WriteFile(filepath.Join(dir, r.Prop+".json"), append(b, '\n'), 0o644); err != nil {
			fatal2("write evidence: %v", err)
		}
	}
	fmt.Printf("property=%s tier=%s obligations=%d discharged=%d known=%d violations=%d functions=%d wall=%.1fs\n",
		r.Prop, r.Tier, len(r.Obs), disch, len(knownLines), viol, len(fns), time.Since(start).Seconds())
	sort.Strings(knownLines)
	for _, l := range knownLines {
		fmt.Println(l)
	}
	if viol > 0 {
		vdir := filepath.Join(verifDir(), "evidence", "violations")
		_ = os.MkdirAll(vdir, 0o755)
		for i, o := range violObs {
			path := filepath.Join(vdir, fmt.Sprintf("%s.%s.%d.json", r.Prop, sanitize(o.Rule), i+1))
			if writeEvidence {
				b, _ := json.MarshalIndent(o, "", " ")
				_ = os.WriteFile(path, append(b, '\n'), 0o644)
			}
			fmt.Printf("  %s %s/%s at %s: %s\n", o.Status, o.Rule, o.Construct, o.Where, o.Detail)
			fmt.Printf("VIOLATION property=%s replay=%s\n", r.Prop, path)
		}
		return 1
	}
	return 0
}

func sanitize(s string) string {
	return strings.Map(func(r rune) rune {
		if r >= 'a' && r <= 'z' || r >= 'A' && r <= 'Z' || r >= '0' && r <= '9' || r == '-' || r == '_' {
			return r
		}
		return '_'
	}, s)
}

func (r *Run) samples() []Obligation {
	// deterministic spread selected by seed: first of each rule, then a few more
	var out []Obligation
	seenRule := map[string]bool{}
	for _, o := range r.Obs {
		if !seenRule[o.Rule] {
			seenRule[o.Rule] = true
			out = append(out, o)
		}
	}
	n := len(r.Obs)
	if n > 0 {
		step := n/8 + 1
		off := int(r.Seed % int64(step))
		if off < 0 {
			off = -off
		}
		for i := off; i < n && len(out) < 24; i += step {
			out = append(out, r.Obs[i])
		}
	}
	return out
}

func fatal2(format string, a ...any) {
	fmt.Fprintf(os.Stderr, "hsdkcheck: cannot analyse: "+format+"\n", a...)
	os.Exit(2)
}
