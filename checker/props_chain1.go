package main

import (
	"fmt"
	"go/types"
	"strings"

	"golang.org/x/tools/go/ssa"
)

const (
	pkgChain      = H + "/chain"
	nmExecTxs     = "(*" + pkgChain + ".Processor).executeTxs"
	nmProcExecute = "(*" + pkgChain + ".Processor).Execute"
	nmBuildBlock  = "(*" + pkgChain + ".Builder).BuildBlock"
	nmRun         = "(*" + H + "/internal/executor.Executor).Run"
	nmConsume     = "(*" + H + "/internal/fees.Manager).Consume"
	nmNewView     = "(*" + H + "/state/tstate.TState).NewView"
	nmCommit      = "(*" + H + "/state/tstate.TStateView).Commit"
)

func init() {
	register(&propDef{
		ID: "C01",
		Explain: "Decides the structural preconditions under which the conflict-ordered executor makes parallel block execution deterministic: " +
			"tasks never mutate the fee manager (consumption happens sequentially, in block order, before each task is queued); the keys used for " +
			"conflict ordering are exactly the scope of the task's state view; tasks write shared captured variables only as a per-transaction result " +
			"slot (verifier) or under the designated mutex (builder); the block diff is only touched under its lock; inside a task the order is " +
			"fetch -> scoped view -> PreExecute -> Execute -> result -> Commit with Commit only after a successful Execute; results are returned " +
			"only after both the fetcher and the executor finished without error. Not decided: equality of outcomes with the sequential fold for " +
			"all blocks and interleavings (additionally needs C04, C05, C08).",
		Run: c01,
	})
	register(&propDef{
		ID: "C02",
		Explain: "Decides that builder and verifier are agreeing siblings: both write the same three metadata keys with the same encodings; in the builder one " +
			"timestamp value feeds rules, fee manager, replay check, PreExecute/Execute, the state timestamp and the header, parent height+1 feeds state " +
			"and header, the parent's merkle root is the header's state root and one fee manager object is used for transactions, consumption, state and " +
			"results; a transaction is committed, appended to the block and its result appended together, only after PreExecute and Execute succeeded and " +
			"Consume accepted it; both sides call PreExecute/Execute with the same argument roles; the builder's block-level timing guards mirror the " +
			"verifier's. Not decided: equality of results/roots for all mempools and timings.",
		Run: c02,
	})
}

// taskLiterals returns the (caller, Run call, literal) triples for Executor.Run calls in fn.
type runSite struct {
	caller *ssa.Function
	call   ssa.CallInstruction
	lit    *ssa.Function
}

func runSites(w *World, fnName_ string) []runSite {
	var out []runSite
	fn := w.Fn(fnName_)
	if fn == nil {
		return nil
	}
	for _, c := range callsNamed(fn, nmRun) {
		if lit := literalArg(c, 2); lit != nil {
			out = append(out, runSite{fn, c, lit})
		}
	}
	return out
}

func inFuncs(f *ssa.Function, set []*ssa.Function) bool {
	for _, x := range set {
		if x == f {
			return true
		}
	}
	return false
}

// sharedWrites checks K18 for a task literal: every write (and map read) through a variable captured from outside
// the task is either a per-iteration result slot or happens with the designated mutex held.
func (r *Run) sharedWrites(w *World, rule string, site runSite, lockOf map[string]string, slotVar string) {
	lits := withNested(site.lit)
	for _, lit := range lits {
		r.saw(lit)
		ls := locksets(lit, lockState{})
		eachInstr(lit, func(ins ssa.Instruction) {
			var target ssa.Value
			kind := ""
			switch x := ins.(type) {
			case *ssa.Store:
				target, kind = x.Addr, "store"
			case *ssa.MapUpdate:
				target, kind = x.Map, "map update"
			case *ssa.Lookup:
				if _, isMap := x.X.Type().Underlying().(*types.Map); isMap {
					target, kind = x.X, "map read"
				}
			case ssa.CallInstruction:
				if n := calleeName(x); n == "builtin.delete" || n == "builtin.clear" {
					target, kind = x.Common().Args[0], "map delete"
				}
			}
			if target == nil {
				return
			}
			root := rootVar(target)
			al, ok := root.(*ssa.Alloc)
			if !ok {
				return
			}
			if inFuncs(al.Parent(), lits) {
				return // task-local variable
			}
			name := al.Comment
			cons := short(fnName(lit)) + ":" + kind + ":" + name
			if name == slotVar && kind == "store" {
				// results[i] = ... with i a per-iteration variable
				st := ins.(*ssa.Store)
				okk := false
				if ia, ok := st.Addr.(*ssa.IndexAddr); ok {
					idxRoot := rootVar(ia.Index)
					if ial, ok := idxRoot.(*ssa.Alloc); ok && ial.Parent() == site.caller {
						if h, _ := innermostLoop(ial.Block()); h != nil {
							if sv := singleStore(ial); sv != nil && isLoopIndex(sv) {
								okk = true
							}
						}
					}
				}
				r.check(okk, rule, cons, r.at(w, ins), "result slot indexed by the per-iteration copy of the loop index", "store to the shared result slice is not indexed by a per-iteration copy of the loop index")
				return
			}
			lk, has := lockOf[name]
			if !has {
				if kind == "map read" {
					return
				}
				r.bad(rule, cons, r.at(w, ins), fmt.Sprintf("task %s shared captured variable %q, for which no mutex is designated", kind+"s", name))
				return
			}
			rec := ls[ins.Block()]
			if rec == nil {
				return
			}
			st := rec[instrIndex(ins)]
			need := 2
			if kind == "map read" {
				need = 1
			}
			r.check(st["fv:"+lk] >= need, rule, cons, r.at(w, ins), "with "+lk+" held", fmt.Sprintf("%s of shared captured variable %q without %s held (held: %s)", kind, name, lk, lockStr(st)))
		})
	}
}

// isLoopIndex: v is (a copy of) a range-loop index: 1 + phi(-1, ...).
func isLoopIndex(v ssa.Value) bool {
	t := term(v)
	return strings.HasPrefix(t, "(1 + phi(-1, ")
}

func c01(r *Run) {
	w := r.W
	// parallel == sequential additionally rests on the executor's conflict edges and on the view's equality oracle
	defer func() {
		r.importRules(c08, "C08.R2", "C08.R3", "C08.R6")
		r.importRules(c04, "C04.R3", "C04.R4", "C04.R5")
		// each task sees the complete prefetched state of its own transaction
		r.importRules(c24, "C24.R7")
	}()
	r.rule("C01.R1", "K3", "tasks never mutate the fee manager; Consume is sequential and its ok edge dominates the task's queueing", 3)
	r.rule("C01.R2", "K5", "view scope == conflict keys at every Executor.Run site in package chain", 2)
	r.rule("C01.R3", "K18", "tasks write shared captured variables only as a per-iteration result slot or under the designated mutex", 8)
	r.rule("C01.R4", "K4", "TState.changedKeys/ops only under TState.l", 5)
	r.rule("C01.R5", "K1", "task order: Get -> NewView -> PreExecute -> Execute -> result -> Commit; Commit only after a successful Execute; errors returned", 6)
	r.rule("C01.R6", "K2", "results returned only after fetcher.Wait and executor.Wait returned nil", 2)

	et := r.fn(w, "C01.R1", nmExecTxs)
	vsites := runSites(w, nmExecTxs)
	bsites := runSites(w, nmBuildBlock)
	if len(vsites) != 1 || len(bsites) != 1 {
		r.missing("C01.R1", "Run-sites", fmt.Sprintf("expected one Executor.Run site with a function literal in executeTxs and one in BuildBlock, found %d and %d", len(vsites), len(bsites)))
		return
	}
	vs, bs := vsites[0], bsites[0]

	// R1
	mutators := []string{nmConsume, "(*" + H + "/internal/fees.Manager).SetLastConsumed", "(*" + H + "/internal/fees.Manager).SetUnitPrice", "(*" + H + "/internal/fees.Manager).setLastConsumed", "(*" + H + "/internal/fees.Manager).setUnitPrice"}
	bad := ""
	for _, lit := range withNested(vs.lit) {
		for _, c := range callsNamed(lit, mutators...) {
			bad = short(calleeName(c)) + " at " + r.at(w, c)
		}
	}
	r.check(bad == "", "C01.R1", "executeTxs-task:no-fee-manager-mutation", w.rel(vs.lit.Pos()), "no mutator of fees.Manager reachable in the task literal", "the parallel task mutates the fee manager: "+bad)
	cons := callsNamed(et, nmConsume)
	if len(cons) == 1 {
		okv := resultN(cons[0], 0)
		okk := len(okv) == 1 && dominatesI(cons[0], vs.call) && onlyViaTruth(okv[0], cons[0], vs.call, true)
		// same loop iteration: both in the same innermost loop
		h1, _ := innermostLoop(cons[0].Block())
		h2, _ := innermostLoop(vs.call.Block())
		r.check(okk && h1 != nil && h1 == h2, "C01.R1", "executeTxs:Consume-ok-dominates-Run", r.at(w, cons[0]), "sequential consumption precedes queueing of the same transaction", "feeManager.Consume (ok) does not dominate e.Run within the same loop iteration")
		// consumed units are this transaction's units, limits from the rules
		r.check(glob("(*chain.Transaction).Units(p2.StatelessBlock.Block.Txs[*], p0.balanceHandler, p5)#0", term(cons[0].Common().Args[1])) && term(cons[0].Common().Args[2]) == "(chain.Rules).GetMaxBlockUnits(p5)" && term(cons[0].Common().Args[0]) == "p4", "C01.R1", "executeTxs:Consume(tx.Units, rules.MaxBlockUnits)", r.at(w, cons[0]), strings.Join(argTerms(cons[0]), " | "), "Consume is not called on the passed fee manager with the transaction's units and the rules' block maximum: "+strings.Join(argTerms(cons[0]), " | "))
	} else {
		r.missing("C01.R1", "executeTxs:Consume", "expected exactly one feeManager.Consume in executeTxs")
	}

	// R2
	c01ScopeEqualsKeys(r, "C01.R2")

	// R3
	r.sharedWrites(w, "C01.R3", vs, map[string]string{}, "results")
	r.sharedWrites(w, "C01.R3", bs, map[string]string{
		"blockTransactions": "blockLock", "results": "blockLock", "stop": "blockLock",
		"restorable": "restorableLock", "pending": "pendingLock", "cache": "cacheLock",
	}, "")

	// R4
	r.guardedBy(w, lockSpec{Rule: "C01.R4", Owner: pkgTstate + ".TState", Fields: []string{"changedKeys", "ops"}, Mutex: "l", Pkgs: []string{pkgTstate}, MinSites: 5})

	// R5: order inside both task literals
	for _, s := range []runSite{vs, bs} {
		lit := s.lit
		name := short(fnName(lit))
		nv := callsNamed(lit, nmNewView)
		pe := callsNamed(lit, nmTxPreExecute)
		ex := callsNamed(lit, nmTxExecute)
		cm := callsNamed(lit, nmCommit)
		if len(nv) != 1 || len(pe) != 1 || len(ex) != 1 || len(cm) != 1 {
			r.missing("C01.R5", name+":sequence", "expected one NewView, PreExecute, Execute and Commit in the task literal")
			continue
		}
		r.requireOrder(w, "C01.R5", name+":NewView-before-PreExecute", nv[0], pe[0])
		r.successGuards(w, "C01.R5", name+":Commit-after-successful-Execute", ex[0], cm[0])
		// commit is on the view that was executed on
		r.check(sameValue(cm[0].Common().Args[0], nv[0].(*ssa.Call)) && sameValue(ex[0].Common().Args[5], nv[0].(*ssa.Call)), "C01.R5", name+":same-view", r.at(w, cm[0]), "the executed view is the committed view", "the committed view is not the view the transaction executed on")
		if s.caller.Name() == "executeTxs" {
			get := callsNamed(lit, "(*"+H+"/internal/fetcher.Fetcher).Get")
			if len(get) == 1 {
				r.successGuards(w, "C01.R5", name+":Get-before-NewView", get[0], nv[0])
				// storage of the view is the fetched map of this transaction
				g0 := resultN(get[0], 0)
				st := strip(nv[0].Common().Args[2])
				if cv, ok := st.(*ssa.ChangeType); ok {
					st = cv.X
				}
				r.check(len(g0) == 1 && sameValue(st, g0[0]) && term(get[0].Common().Args[1]) == "fv:txID", "C01.R5", name+":view-storage-is-fetched-map", r.at(w, nv[0]), "view reads from the map fetched for this transaction", "the view's storage is not the map the fetcher returned for this transaction")
			} else {
				r.missing("C01.R5", name+":Get", "fetcher.Get not found in the verifier task")
			}
			r.failureLeadsToErrorReturn(w, "C01.R5", name+":PreExecute-error-returned", pe[0])
			r.failureLeadsToErrorReturn(w, "C01.R5", name+":Execute-error-returned", ex[0])
			// result slot written after Execute success, before/with Commit
			for _, e := range findEffects(lit, "store fv:results[fv:i] = *") {
				r.successGuards(w, "C01.R5", name+":result-after-successful-Execute", ex[0], e.Ins)
				r.check(sameValue(e.Ins.(*ssa.Store).Val, resultN(ex[0], 0)[0]), "C01.R5", name+":result-is-Execute-result", r.at(w, e.Ins), "", "the stored result is not the value returned by tx.Execute")
			}
		}
	}

	// R6
	if et != nil {
		fw := callsNamed(et, "(*"+H+"/internal/fetcher.Fetcher).Wait")
		ew := callsNamed(et, "(*"+H+"/internal/executor.Executor).Wait")
		if len(fw) == 1 && len(ew) == 1 {
			for _, o := range returnOutcomes(et) {
				if !hasStr(o.Sentinels, "nil") {
					continue
				}
				r.check(onlyViaSuccess(fw[0], o.Ret, true) && onlyViaSuccess(ew[0], o.Ret, true), "C01.R6", "executeTxs:success-after-both-waits", w.rel(instrPos(o.Ret)), "results returned only after f.Wait()==nil and e.Wait()==nil", "executeTxs can return results without f.Wait() and e.Wait() having returned nil")
				// returns the result slice and the tstate the tasks wrote to
				r.check(len(o.Vals) == 3 && term(o.Vals[0]) == "alloc(results)" || strings.HasPrefix(term(o.Vals[0]), "makeslice([]*chain.Result"), "C01.R6", "executeTxs:returns-task-results", w.rel(instrPos(o.Ret)), "", "executeTxs does not return the slice the tasks wrote their results to")
			}
			// executor and fetcher waited on are the ones used
			r.check(sameValue(ew[0].Common().Args[0], vs.call.Common().Args[0]), "C01.R6", "executeTxs:waits-on-the-executor-used", r.at(w, ew[0]), "", "e.Wait is called on a different executor than the one tasks were queued on")
		} else {
			r.missing("C01.R6", "executeTxs:waits", "f.Wait / e.Wait not found")
		}
	}
}

// ----------------------------------------------------------------------------- C02

func c02(r *Run) {
	w := r.W
	// the builder skips transactions Consume rejects and keeps packing: agreement on consumption rests on Consume being all-or-nothing
	defer r.importRules(c12, "C12.R3")
	// the builder relies on the mempool's streamed-items marks to keep a transaction out of the block under
	// construction twice (the verifier rejects such a block)
	defer r.importRules(c09, "C09.R8")
	r.rule("C02.R1", "K12", "builder and verifier write the same metadata keys with the same encodings", 7)
	r.rule("C02.R2", "K5", "one timestamp / height / root / fee manager feeds every consumer in the builder", 10)
	r.rule("C02.R3", "K1", "Commit, block append and result append are together, after PreExecute/Execute succeeded and Consume accepted", 4)
	r.rule("C02.R4", "K12", "both sides call PreExecute/Execute with the same argument roles", 2)
	r.rule("C02.R5", "K6", "builder block-level timing guards mirror the verifier's", 2)

	wb := r.fn(w, "C02.R1", "(*"+pkgChain+".Processor).writeBlockContext")
	bb := r.fn(w, "C02.R1", nmBuildBlock)
	cbc := r.fn(w, "C02.R1", "(*"+pkgChain+".Processor).createBlockContext")
	app := "(encoding/binary.bigEndian).AppendUint64(encoding/binary.BigEndian, nil, "
	type kv struct{ label, key, val string }
	want := []kv{
		{"height", "chain.HeightKey((chain.MetadataManager).HeightPrefix(*))", app + "*)"},
		{"timestamp", "chain.TimestampKey((chain.MetadataManager).TimestampPrefix(*))", app + "uint64(*))"},
		{"fee", "chain.FeeKey((chain.MetadataManager).FeePrefix(*))", "(*internal/fees.Manager).Bytes(*)"},
	}
	inserts := func(f *ssa.Function) map[string][2]string {
		out := map[string][2]string{}
		if f == nil {
			return out
		}
		eachInstr(f, func(i ssa.Instruction) {
			ci, ok := i.(ssa.CallInstruction)
			if !ok {
				return
			}
			n := calleeName(ci)
			if n != "("+H+"/state.Mutable).Insert" && n != nmView+"Insert" {
				return
			}
			a := callArgs(ci)
			if len(a) < 4 {
				return
			}
			k, v := term(a[2]), term(a[3])
			for _, x := range want {
				if glob(x.key, k) {
					out[x.label] = [2]string{k, v}
				}
			}
		})
		return out
	}
	vi, bi := inserts(wb), inserts(bb)
	for _, x := range want {
		a, okA := vi[x.label]
		b, okB := bi[x.label]
		r.check(okA && okB && glob(x.val, a[1]) && glob(x.val, b[1]), "C02.R1", "metadata-write:"+x.label, "", "verifier: "+a[1]+" ; builder: "+b[1],
			fmt.Sprintf("builder and verifier do not both write %s with encoding %s (verifier %q, builder %q)", x.label, x.val, a[1], b[1]))
	}
	r.check(len(vi) == 3 && len(bi) == 3, "C02.R1", "metadata-write:exactly-three", "", "", "the two sides do not write exactly the three metadata keys")
	// the verifier's context fields come from the header / the parent's fee bytes
	if cbc != nil {
		r.requireEffect(w, "C02.R1", "createBlockContext:height=block.Hght", cbc, "store alloc(complit).height = p3.StatelessBlock.Block.Hght")
		r.requireEffect(w, "C02.R1", "createBlockContext:timestamp=block.Tmstmp", cbc, "store alloc(complit).timestamp = p3.StatelessBlock.Block.Tmstmp")
		r.requireEffect(w, "C02.R1", "createBlockContext:fee=ComputeNext(parent fee, block.Tmstmp, rules)", cbc, "store alloc(complit).feeManager = (*internal/fees.Manager).ComputeNext(internal/fees.NewManager((state.Immutable).GetValue(p2, *, chain.FeeKey((chain.MetadataManager).FeePrefix(*)))#0), p3.StatelessBlock.Block.Tmstmp, p4)")
	}
	if wb != nil {
		// values written are the context's fields
		for _, x := range []string{"p3.height", "uint64(p3.timestamp)", "(*internal/fees.Manager).Bytes(p3.feeManager)"} {
			found := false
			for _, v := range vi {
				if strings.Contains(v[1], x) {
					found = true
				}
			}
			r.check(found, "C02.R1", "writeBlockContext:writes:"+x, w.rel(wb.Pos()), "", "writeBlockContext does not write the context field "+x)
		}
	}

	if bb == nil {
		return
	}
	bsites := runSites(w, nmBuildBlock)
	if len(bsites) != 1 {
		r.missing("C02.R2", "BuildBlock:Run-site", "expected one Executor.Run site in BuildBlock")
		return
	}
	lit := bsites[0].lit
	// R2: the timestamp
	var nextTime *ssa.Call
	for _, c := range callsNamed(bb, "(time.Time).UnixMilli") {
		if cv, ok := c.(*ssa.Call); ok && nextTime == nil {
			nextTime = cv
		}
	}
	if nextTime == nil {
		r.missing("C02.R2", "BuildBlock:nextTime", "time.Now().UnixMilli() not found")
		return
	}
	same := func(rule, label string, v ssa.Value, root ssa.Value, at ssa.Instruction) {
		r.check(sameOuter(v, root), rule, "BuildBlock:"+label, r.at(w, at), "same value", label+" does not use the builder's single value ("+term(root)+"): "+term(v))
	}
	argOf := func(fn *ssa.Function, callee string, idx int, label string, root ssa.Value) {
		cs := callsNamed(fn, callee)
		if len(cs) == 0 {
			r.missing("C02.R2", "BuildBlock:"+label, "call of "+short(callee)+" not found")
			return
		}
		for _, c := range cs {
			same("C02.R2", label, callArgs(c)[idx], root, c)
		}
	}
	argOf(bb, "("+pkgChain+".RuleFactory).GetRules", 1, "GetRules(nextTime)", nextTime)
	argOf(bb, "(*"+H+"/internal/fees.Manager).ComputeNext", 1, "ComputeNext(nextTime)", nextTime)
	argOf(bb, "("+pkgChain+".ValidityWindow).IsRepeat", 3, "IsRepeat(nextTime)", nextTime)
	argOf(lit, nmTxPreExecute, 6, "PreExecute(nextTime)", nextTime)
	argOf(lit, nmTxExecute, 6, "Execute(nextTime)", nextTime)
	argOf(bb, pkgChain+".NewStatelessBlock", 1, "header-timestamp", nextTime)
	if t, ok := bi["timestamp"]; ok {
		r.check(strings.Contains(t[1], "uint64("+term(nextTime)+")"), "C02.R2", "BuildBlock:state-timestamp", w.rel(bb.Pos()), "", "the timestamp written to state is not the builder's nextTime: "+t[1])
	}
	// terms of two clock readings render alike: the builder must read the millisecond clock exactly once
	clocks := 0
	for _, f := range withNested(bb) {
		clocks += len(callsNamed(f, "(time.Time).UnixMilli"))
	}
	r.check(clocks == 1, "C02.R2", "BuildBlock:single-clock-reading", r.at(w, nextTime), "one UnixMilli reading", fmt.Sprintf("the builder reads the millisecond clock %d times: consumers of different readings disagree on the block time", clocks))
	// height
	nsb := callsNamed(bb, pkgChain+".NewStatelessBlock")
	if len(nsb) == 1 {
		a := nsb[0].Common().Args
		ht := term(a[2])
		r.check(ht == "(p3.ExecutionBlock.StatelessBlock.Block.Hght + 1)" || ht == "(1 + p3.ExecutionBlock.StatelessBlock.Block.Hght)", "C02.R2", "BuildBlock:header-height=parent+1", r.at(w, nsb[0]), ht, "header height is not parent height + 1: "+ht)
		if hv, ok := bi["height"]; ok {
			r.check(strings.Contains(hv[1], ht), "C02.R2", "BuildBlock:state-height=header-height", r.at(w, nsb[0]), "", "state height and header height differ: "+hv[1]+" vs "+ht)
		}
		r.check(term(a[4]) == "(ago/x/merkledb.MerkleRootGetter).GetMerkleRoot(p3.View,*)#0" || glob("(ago/x/merkledb.*).GetMerkleRoot(p3.View,*)#0", term(a[4])), "C02.R2", "BuildBlock:header-root=parent-view-root", r.at(w, nsb[0]), term(a[4]), "the header's state root is not the parent view's merkle root: "+term(a[4]))
		r.check(term(a[0]) == "(*chain.StatelessBlock).GetID(p3.ExecutionBlock.StatelessBlock)" || glob("*GetID(p3.ExecutionBlock*", term(a[0])), "C02.R2", "BuildBlock:header-parent=parent-id", r.at(w, nsb[0]), term(a[0]), "the header's parent ID is not the parent block's ID: "+term(a[0]))
		// transactions in header are the ones appended by tasks
		r.check(rootVarName(a[3]) == "blockTransactions", "C02.R2", "BuildBlock:header-txs=appended-txs", r.at(w, nsb[0]), "", "the header's transaction list is not the list the tasks appended to")
	} else {
		r.missing("C02.R2", "BuildBlock:NewStatelessBlock", "expected one NewStatelessBlock call")
	}
	// fee manager object
	var fm *ssa.Call
	for _, c := range callsNamed(bb, "(*"+H+"/internal/fees.Manager).ComputeNext") {
		fm, _ = c.(*ssa.Call)
	}
	if fm != nil {
		argOf(lit, nmTxPreExecute, 2, "PreExecute(feeManager)", fm)
		argOf(lit, nmTxExecute, 2, "Execute(feeManager)", fm)
		argOf(lit, nmConsume, 0, "Consume-on-feeManager", fm)
		if fv, ok := bi["fee"]; ok {
			r.check(fv[1] == "(*internal/fees.Manager).Bytes("+term(fm)+")", "C02.R2", "BuildBlock:state-fee=feeManager.Bytes", w.rel(bb.Pos()), "", "the fee state written is not the bytes of the fee manager transactions consumed into: "+fv[1])
		}
		for _, nm := range []string{"UnitPrices", "UnitsConsumed"} {
			argOf(bb, "(*"+H+"/internal/fees.Manager)."+nm, 0, "results."+nm+"-from-feeManager", fm)
		}
		// parent fee manager comes from the parent view's fee key
		r.check(glob("(*internal/fees.Manager).ComputeNext(internal/fees.NewManager((ago/x/merkledb.*).GetValue(p3.View,*, chain.FeeKey((chain.MetadataManager).FeePrefix(*)))#0), *", term(fm)), "C02.R2", "BuildBlock:feeManager-from-parent-fee-state", r.at(w, fm), "", "the builder's fee manager is not derived from the parent view's fee state: "+term(fm))
	}
	// rules used for limits are the rules used for transactions
	var rules *ssa.Call
	for _, c := range callsNamed(bb, "("+pkgChain+".RuleFactory).GetRules") {
		rules, _ = c.(*ssa.Call)
	}
	if rules != nil {
		argOf(lit, nmTxPreExecute, 4, "PreExecute(rules)", rules)
		argOf(lit, nmTxExecute, 4, "Execute(rules)", rules)
		argOf(bb, "("+pkgChain+".Rules).GetMaxBlockUnits", 0, "MaxBlockUnits(rules)", rules)
	}

	// R3
	cons := callsNamed(lit, nmConsume)
	pe := callsNamed(lit, nmTxPreExecute)
	ex := callsNamed(lit, nmTxExecute)
	cm := callsNamed(lit, nmCommit)
	apTx := findEffects(lit, "store fv:blockTransactions = builtin.append(fv:blockTransactions, [fv:tx])")
	apRes := findEffects(lit, "store fv:results = builtin.append(fv:results, [(*chain.Transaction).Execute(*)#0])")
	if len(cons) == 1 && len(pe) == 1 && len(ex) == 1 && len(cm) == 1 && len(apTx) == 1 && len(apRes) == 1 {
		okv := resultN(cons[0], 0)
		for _, tgt := range []ssa.Instruction{cm[0], apTx[0].Ins, apRes[0].Ins} {
			okk := len(okv) == 1 && dominatesI(cons[0], tgt) && onlyViaTruth(okv[0], cons[0], tgt, true) && onlyViaSuccess(pe[0], tgt, true) && onlyViaSuccess(ex[0], tgt, true)
			r.check(okk, "C02.R3", "task:"+describe(tgt)+":after-accept", r.at(w, tgt), "behind PreExecute==nil, Execute==nil, Consume ok", describe(tgt)+" is reachable without PreExecute and Execute having succeeded and Consume having accepted the transaction")
		}
		r.check(cm[0].Block() == apTx[0].Ins.Block() && cm[0].Block() == apRes[0].Ins.Block(), "C02.R3", "task:commit-and-appends-together", r.at(w, cm[0]), "all three in one basic block", "Commit, the block append and the result append are not in one straight-line block (one could happen without the others)")
		// units consumed are the executed result's units and limits are the rules' maximum
		r.check(glob("(*chain.Transaction).Execute(*)#0.Units", term(cons[0].Common().Args[1])), "C02.R3", "task:Consume(result.Units)", r.at(w, cons[0]), "", "the builder does not consume the executed transaction's units: "+term(cons[0].Common().Args[1]))
		r.check(term(outerValue(cons[0].Common().Args[2])) == "(chain.Rules).GetMaxBlockUnits("+term(rules)+")", "C02.R3", "task:Consume-limit=MaxBlockUnits", r.at(w, cons[0]), "", "the builder's consumption limit is not rules.GetMaxBlockUnits(): "+term(outerValue(cons[0].Common().Args[2])))
	} else {
		r.missing("C02.R3", "task:shape", "expected one Consume, PreExecute, Execute, Commit and the two appends in the builder task")
	}

	// R4: argument roles agree between the two PreExecute / Execute sites
	vsites := runSites(w, nmExecTxs)
	if len(vsites) == 1 {
		for _, callee := range []string{nmTxPreExecute, nmTxExecute} {
			vc := callsNamed(vsites[0].lit, callee)
			bc := callsNamed(lit, callee)
			if len(vc) != 1 || len(bc) != 1 {
				r.missing("C02.R4", short(callee)+":sites", "call not found on both sides")
				continue
			}
			role := func(c ssa.CallInstruction) string {
				a := c.Common().Args
				var rs []string
				for i, x := range a {
					t := term(outerValue(x))
					switch {
					case i == 0:
						rs = append(rs, "tx")
					case strings.HasPrefix(t, "(*internal/fees.Manager).ComputeNext(") || t == "p4" && c.Parent().Parent().Name() == "executeTxs":
						rs = append(rs, "block-fee-manager")
					case strings.HasSuffix(t, ".balanceHandler"):
						rs = append(rs, "balance-handler")
					case strings.HasPrefix(t, "(*state/tstate.TState).NewView("):
						rs = append(rs, "scoped-view")
					case strings.HasPrefix(t, "(chain.RuleFactory).GetRules(") || t == "p5":
						rs = append(rs, "rules")
					case strings.HasSuffix(t, ".Tmstmp") || strings.HasPrefix(t, "(time.Time).UnixMilli("):
						rs = append(rs, "block-timestamp")
					case i == 1:
						rs = append(rs, "ctx")
					default:
						rs = append(rs, "?"+t)
					}
				}
				return strings.Join(rs, ",")
			}
			rv, rb := role(vc[0]), role(bc[0])
			r.check(rv == rb && !strings.Contains(rv, "?"), "C02.R4", short(callee)+":argument-roles", r.at(w, bc[0]), rv, "argument roles differ between verifier ("+rv+") and builder ("+rb+")")
		}
	}

	// R6: the builder task's view storage holds a key exactly when the parent state has it (as the verifier's prefetched map does):
	// cache hits contribute only entries marked as existing, fresh reads only successful reads; not-found is cached as absent.
	r.rule("C02.R6", "K6", "builder view storage = parent value or absence (cache hit: only existing entries; miss: only successful reads; not-found cached as absent)", 4)
	gv := "(ago/x/merkledb.Trie).GetValue(fv:parentView, fv:ctx, []byte(*))"
	nStore := 0
	for _, e := range findEffects(lit, "mapupdate makemap(map[string][]byte)[*] = *") {
		nStore++
		switch {
		case glob("* = fv:cache[*]#0.v", e.Str):
			r.check(hasMatch(e.Conds(), "fv:cache[*]#1") && hasMatch(e.Conds(), "fv:cache[*]#0.exists"), "C02.R6", "task:cache-hit-only-existing", r.at(w, e.Ins), "", "a key cached as absent from the parent state is handed to the transaction as present: {"+strings.Join(e.Conds(), " ; ")+"}")
		case glob("* = "+gv+"#0", e.Str):
			r.check(hasMatch(e.Conds(), "!errors.Is("+gv+"#1, ago/database.ErrNotFound)") && hasMatch(e.Conds(), gv+"#1 == nil"), "C02.R6", "task:fresh-read-only-on-success", r.at(w, e.Ins), "", "a failed or not-found parent read is stored as a value")
		default:
			r.bad("C02.R6", "task:storage-source", r.at(w, e.Ins), "the task's view storage is filled from something other than the cache or the parent view: "+e.Str)
		}
	}
	if nStore < 2 {
		r.missing("C02.R6", "task:storage-writes", "expected the cache-hit and fresh-read stores into the task's storage map")
	}
	nf := findEffects(lit, "store alloc(complit).exists = false")
	r.check(len(nf) == 1 && hasMatch(nf[0].Conds(), "errors.Is("+gv+"#1, ago/database.ErrNotFound)"), "C02.R6", "task:not-found-cached-as-absent", w.rel(lit.Pos()), "", "a not-found parent read is not cached as absent")
	exs := findEffects(lit, "store alloc(complit).exists = true")
	r.check(len(exs) == 1 && hasMatch(exs[0].Conds(), gv+"#1 == nil"), "C02.R6", "task:found-cached-as-present", w.rel(lit.Pos()), "", "a successful parent read is not cached as present")
	// read errors other than not-found abort the task
	for _, c := range callsTo(lit, func(n string) bool { return strings.HasSuffix(n, "merkledb.Trie).GetValue") }) {
		okk := false
		for _, o := range returnOutcomes(lit) {
			if o.ErrTerm == term(c.(*ssa.Call))+"#1" && hasMatch(o.Conds, "!errors.Is(*") {
				okk = true
			}
		}
		r.check(okk, "C02.R6", "task:read-error-returned", r.at(w, c), "", "a parent read error other than not-found is not returned by the task")
	}

	// R5
	r.guardTable(w, "C02.R5", bb, []guardRow{
		{Preds: []string{"(time.Time).UnixMilli(time.Now()) < ((chain.Rules).GetMinBlockGap(*) + p3.ExecutionBlock.StatelessBlock.Block.Tmstmp)"}, Sentinel: "chain.ErrTimestampTooEarly", Label: "min-block-gap"},
		{Preds: []string{"0 == builtin.len(alloc(blockTransactions))", "(time.Time).UnixMilli(time.Now()) < ((chain.Rules).GetMinEmptyBlockGap(*) + p3.ExecutionBlock.StatelessBlock.Block.Tmstmp)"}, Sentinel: "chain.ErrNoTxs", Label: "min-empty-block-gap"},
	})
}

func rootVarName(v ssa.Value) string {
	if al, ok := rootVar(v).(*ssa.Alloc); ok {
		return al.Comment
	}
	return ""
}
