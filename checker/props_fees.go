package main

import (
	"fmt"
	"go/token"
	"go/types"
	"regexp"
	"strconv"
	"strings"

	"golang.org/x/tools/go/ssa"
)

const pkgIFees = H + "/internal/fees"

func init() {
	register(&propDef{
		ID: "C13",
		Explain: "Decides that every arithmetic step of the fee-market update is exact or saturating (no unchecked 64-bit +, -, * outside guarded idioms), that the " +
			"price moves up by a checked add (overflow -> max) exactly when window usage exceeds the target and down by a checked subtract (underflow -> 0) exactly " +
			"when it is below, with the change clamped to at least one unit and the result clamped to the minimum price on every path, that the parent's consumption " +
			"enters the window only when the gap is inside the window, and that the byte offsets written by ComputeNext/setUnitPrice/setLastConsumed are the offsets " +
			"read by unitPrice/window/lastConsumed (encode/decode agree by construction; Bytes/NewManager pass the buffer through unchanged). Not decided: the numeric " +
			"value of the proportional change and monotonicity as arithmetic facts.",
		Run: c13,
	})
	register(&propDef{
		ID: "C33",
		Explain: "Decides that LargestSet's selection marks an index as skipped exactly when it cannot be added and accumulates it exactly otherwise, that CanAdd uses a " +
			"checked add and a strict limit test, and that the compaction of the index list makes progress on every path (the element tested changes between iterations) " +
			"and keeps every unmarked index. Not decided: optimality of the greedy order.",
		Run: c33,
	})
}

// uncheckedArith reports unchecked +,-,* (and <<) on 64-bit unsigned operands in fn, except the guarded idioms:
//
//	x - y where a controlling condition establishes y < x or y <= x;
//	v * c (c constant) whose every use is controlled by a bound v <= K / v < K.
func uncheckedArith(fn *ssa.Function) []string {
	var out []string
	for _, b := range binops(fn, token.ADD, token.SUB, token.MUL, token.SHL) {
		bt, ok := b.Type().Underlying().(*types.Basic)
		if !ok || bt.Kind() != types.Uint64 {
			continue
		}
		if _, c1 := b.X.(*ssa.Const); c1 {
			if _, c2 := b.Y.(*ssa.Const); c2 {
				continue
			}
		}
		conds := condStrings(ctrlConds(b.Block()))
		x, y := term(b.X), term(b.Y)
		switch b.Op {
		case token.SUB:
			if hasStr(conds, y+" < "+x) || hasStr(conds, y+" <= "+x) {
				continue
			}
		case token.MUL:
			v := b.X
			if _, isC := b.X.(*ssa.Const); isC {
				v = b.Y
			}
			_, c1 := b.X.(*ssa.Const)
			_, c2 := b.Y.(*ssa.Const)
			if c1 || c2 {
				vt := term(v)
				allGuarded := true
				n := 0
				for _, ref := range *b.Referrers() {
					if _, dbg := ref.(*ssa.DebugRef); dbg {
						continue
					}
					n++
					cs := condStrings(ctrlConds(ref.Block()))
					g := false
					for _, c := range cs {
						if strings.HasPrefix(c, vt+" <= ") || strings.HasPrefix(c, vt+" < ") {
							if _, err := strconv.ParseUint(c[strings.LastIndex(c, " ")+1:], 10, 32); err == nil {
								g = true
							}
						}
					}
					if !g {
						allGuarded = false
					}
				}
				if allGuarded && n > 0 {
					continue
				}
			}
		}
		out = append(out, fmt.Sprintf("%s (%s)", term(b), b.Op))
	}
	return out
}

func c13(r *Run) {
	w := r.W
	r.rule("C13.R1", "K8", "no unchecked 64-bit arithmetic in the price/window update", 5)
	r.rule("C13.R2", "K6", "direction and clamps of the price update", 7)
	r.rule("C13.R3", "K12", "encoder/decoder offset agreement of the fee state", 7)

	cn := r.fn(w, "C13.R1", pkgIFees+".computeNextPriceWindow")
	fns := []*ssa.Function{cn}
	for _, n := range []string{"Roll", "Sum", "Update"} {
		fns = append(fns, r.fn(w, "C13.R1", H+"/internal/window."+n))
	}
	// helpers called by computeNextPriceWindow inside the package (e.g. an exact mul-div)
	if cn != nil {
		for _, c := range callsTo(cn, func(n string) bool { return strings.HasPrefix(n, pkgIFees+".") }) {
			if f := w.Fn(calleeName(c)); f != nil {
				r.saw(f)
				fns = append(fns, f)
			}
		}
	}
	for _, f := range fns {
		if f == nil {
			continue
		}
		bad := uncheckedArith(f)
		r.check(len(bad) == 0, "C13.R1", short(fnName(f))+":checked-arithmetic", w.rel(f.Pos()), "every uint64 +,-,* is checked, guarded or 128-bit", "unchecked 64-bit arithmetic that can wrap: "+strings.Join(bad, "; "))
	}

	// R4: an exact mul-div helper may saturate only on evidence about the FINAL quotient: the condition of every saturating
	// return must depend on all divisors (saturating on an intermediate quotient over-approximates the proportional change)
	r.rule("C13.R4", "K5", "saturation of the proportional change is decided on the final quotient", 1)
	if cn != nil {
		// the proportional-change helpers called by the update, directly or through helpers that did not exist on the
		// reference tree
		var propCalls []ssa.CallInstruction
		var collect func(f *ssa.Function, depth int)
		collect = func(f *ssa.Function, depth int) {
			for _, c := range callsTo(f, func(n string) bool { return strings.HasPrefix(n, pkgIFees+".") }) {
				if g := transparentCallee(c); g != nil && depth < maxLiftDepth {
					collect(g, depth+1)
					continue
				}
				propCalls = append(propCalls, c)
			}
		}
		collect(cn, 0)
		seenH := map[*ssa.Function]bool{}
		for _, c := range propCalls {
			h := w.Fn(calleeName(c))
			if h == nil || len(h.Params) < 3 || seenH[h] {
				continue
			}
			seenH[h] = true
			okk := true
			detail := ""
			nsat := 0
			for _, b := range h.Blocks {
				ret, ok := b.Instrs[len(b.Instrs)-1].(*ssa.Return)
				if !ok || len(ret.Results) != 1 {
					continue
				}
				if cst, ok := ret.Results[0].(*ssa.Const); !ok || cst.Value == nil || cst.Value.ExactString() != "18446744073709551615" {
					continue
				}
				nsat++
				// a return decided only by "some divisor is zero" saturates because the exact quotient is unbounded
				zeroOnly := len(ctrlConds(b)) > 0
				for _, cc := range ctrlConds(b) {
					bo, ok := cc.If.Cond.(*ssa.BinOp)
					isZ := false
					if ok && (bo.Op == token.EQL || bo.Op == token.NEQ) {
						for _, pr := range [][2]ssa.Value{{bo.X, bo.Y}, {bo.Y, bo.X}} {
							if c0, ok := pr[1].(*ssa.Const); ok && c0.Value != nil && c0.Value.ExactString() == "0" {
								for pi, p := range h.Params {
									if pi >= 2 && pr[0] == ssa.Value(p) {
										isZ = true
									}
								}
							}
						}
					}
					if !isZ {
						zeroOnly = false
					}
				}
				if zeroOnly {
					continue
				}
				// the condition that decides saturation (the innermost one) depends on every divisor
				ccs := ctrlConds(b)
				if len(ccs) == 0 {
					continue // not a conditional saturation (a constant helper)
				}
				last := ccs[len(ccs)-1]
				for _, cc := range ccs {
					if cc.If.Block() == b.Preds[0] || len(b.Preds) > 0 && cc.If == b.Preds[0].Instrs[len(b.Preds[0].Instrs)-1] {
						last = cc
					}
				}
				for pi, p := range h.Params {
					if pi < 2 {
						continue // the factors
					}
					pp := p
					if !derivesFrom(last.If.Cond, func(v ssa.Value) bool { return v == ssa.Value(pp) }) {
						okk = false
						detail = fmt.Sprintf("the saturating return at %s is decided by %s, which does not depend on divisor %s", w.rel(ret.Pos()), predString(last.If.Cond, last.Succ == 0), p.Name())
					}
				}
			}
			if nsat > 0 {
				r.check(okk, "C13.R4", short(fnName(h))+":saturate-on-final-quotient", w.rel(h.Pos()), "", detail)
			}
		}
	}

	if cn != nil {
		total := "internal/window.Sum(*)"
		// increase
		adds := findEffects(cn, "call ago/utils/math.Add(p2, *)")
		subs := findEffects(cn, "call ago/utils/math.Sub(p2, *)")
		r.check(len(adds) == 1 && hasMatch(adds[0].Conds(), "p3 < "+total) && len(adds[0].Conds()) == 1, "C13.R2", "increase-iff-usage-above-target", w.rel(cn.Pos()), "", "the price is not increased by a checked add exactly when window usage exceeds the target")
		r.check(len(subs) == 1 && hasMatch(subs[0].Conds(), total+" < p3") && hasMatch(subs[0].Conds(), total+" <= p3"), "C13.R2", "decrease-iff-usage-below-target", w.rel(cn.Pos()), "", "the price is not decreased by a checked subtract exactly when window usage is below the target")
		// the returned price: phi over {max on overflow, add result, 0 on underflow, sub result, previous} then clamped
		outs := returnOutcomes(cn)
		okk := len(outs) >= 1
		clampMax := false
		for _, o := range outs {
			if len(o.Vals) != 2 {
				okk = false
				continue
			}
			v := term(o.Vals[0])
			// clamp: value is phi(p5, X) where the p5 edge is taken when X < p5
			// ... or the same clamp written with the max builtin
			isMax := strings.HasPrefix(v, "builtin.max(") && (strings.HasSuffix(v, ", p5)") || strings.HasPrefix(v, "builtin.max(p5, "))
			if !(strings.HasPrefix(v, "phi(") && strings.Contains(v, "p5")) && !isMax {
				okk = false
			}
			if isMax {
				clampMax = true
			}
			for _, need := range []string{"18446744073709551615", "ago/utils/math.Add(p2, ", "ago/utils/math.Sub(p2, ", "0"} {
				if !strings.Contains(v, need) {
					okk = false
				}
			}
		}
		r.check(okk, "C13.R2", "result-saturates-and-clamps", w.rel(cn.Pos()), "returned price ranges over {max on overflow, checked sum, 0 on underflow, checked difference, previous} clamped to minPrice", "the returned price is not the saturating result clamped to the minimum price")
		// the min clamp branch exists: an If with cond "X < p5"
		clamp := false
		one := 0
		for _, b := range cn.Blocks {
			if ifi, ok := b.Instrs[len(b.Instrs)-1].(*ssa.If); ok {
				ps := predString(ifi.Cond, true)
				if strings.HasSuffix(ps, " < p5") {
					// must lie on every path to return
					if okp, _ := mustPass(entry(cn), isReturn, isInstr(ifi)); okp {
						clamp = true
					}
				}
				if strings.HasSuffix(ps, " < 1") {
					one++
				}
			}
		}
		// the builtin forms: max(x, 1) for the unit floor, max(x, minPrice) as the returned value (on every path by construction)
		eachInstr(cn, func(i ssa.Instruction) {
			if c, ok := i.(*ssa.Call); ok && calleeName(c) == "builtin.max" && len(c.Call.Args) == 2 {
				if a, b := term(c.Call.Args[0]), term(c.Call.Args[1]); a == "1" || b == "1" {
					one++
				}
			}
		})
		clamp = clamp || (clampMax && len(outs) == 1)
		r.check(clamp, "C13.R2", "min-price-clamp-on-every-path", w.rel(cn.Pos()), "", "the minimum-price clamp does not lie on every path to the return")
		// ... or decided on the amounts handed to the checked add / subtract (the floor may sit in a helper)
		floored := func(es []*effect) bool {
			if len(es) != 1 {
				return false
			}
			a := callArgs(es[0].Ins.(ssa.CallInstruction))
			d := term(a[len(a)-1])
			return strings.Contains(d, "phi(1, ") || strings.Contains(d, "builtin.max(") && (strings.Contains(d, ", 1)") || strings.Contains(d, "max(1, "))
		}
		if one != 2 && floored(adds) && floored(subs) {
			one = 2
		}
		r.check(one == 2, "C13.R2", "change-at-least-one", w.rel(cn.Pos()), "", "the price change is not clamped to at least one unit in both directions")
		// overflow/underflow edges
		ovf := strings.Contains(term(outs[0].Vals[0]), "18446744073709551615")
		r.check(ovf, "C13.R2", "overflow-saturates", w.rel(cn.Pos()), "", "overflow of the increase does not saturate at the maximum")
		// window update guarded by since < WindowSize and uses slot WindowSize-1-since
		r.requireEffect(w, "C13.R2", "window-update-iff-gap-inside-window", cn, "call internal/window.Update(*, ((9 - int(p6)) * 8), p1)", "p6 < 10")
		r.requireEffect(w, "C13.R2", "window-rolled-by-gap", cn, "call internal/window.Roll(p0, p6)")
	}
	roll := w.Fn(H + "/internal/window.Roll")
	if roll != nil {
		// roll > WindowSize => empty window
		okk := false
		for _, o := range returnOutcomes(roll) {
			if hasStr(o.Conds, "10 < p1") {
				okk = true
			}
		}
		r.check(okk, "C13.R2", "Roll:beyond-window-is-empty", w.rel(roll.Pos()), "", "Roll does not return an empty window when the gap exceeds the window")
	}

	// R3 offsets
	M := "(*" + pkgIFees + ".Manager)."
	off := func(name string) (string, bool) {
		f := r.fn(w, "C13.R3", M+name)
		if f == nil {
			return "", false
		}
		var low string
		eachInstr(f, func(i ssa.Instruction) {
			if sl, ok := i.(*ssa.Slice); ok && low == "" && term(sl.X) == "p0.raw" && sl.Low != nil {
				low = term(sl.Low)
			}
		})
		return low, low != ""
	}
	offs := map[string]string{}
	for _, n := range []string{"unitPrice", "setUnitPrice", "window", "lastConsumed", "setLastConsumed"} {
		if o, ok := off(n); ok {
			offs[n] = o
		} else {
			r.missing("C13.R3", n+":offset", "slice offset into the fee state not found")
		}
	}
	if len(offs) == 5 {
		r.check(offs["unitPrice"] == offs["setUnitPrice"], "C13.R3", "unitPrice:read-offset=write-offset", "", offs["unitPrice"], "unit price is written at "+offs["setUnitPrice"]+" but read at "+offs["unitPrice"])
		r.check(offs["lastConsumed"] == offs["setLastConsumed"], "C13.R3", "lastConsumed:read-offset=write-offset", "", offs["lastConsumed"], "consumption is written at "+offs["setLastConsumed"]+" but read at "+offs["lastConsumed"])
		bu, su, ok1 := linear(offs["unitPrice"])
		bw, sw, ok2 := linear(offs["window"])
		bl, sl, ok3 := linear(offs["lastConsumed"])
		r.check(ok1 && ok2 && ok3 && su == sw && sw == sl && bw == bu+8 && bl == bw+80 && su == 96 && bu == 8, "C13.R3", "layout:price|window|consumed", "", fmt.Sprintf("price@%d window@%d consumed@%d stride %d", bu, bw, bl, su),
			fmt.Sprintf("the per-dimension layout is not timestamp(8) | price(8) window(80) consumed(8) per dimension: price %s, window %s, consumed %s", offs["unitPrice"], offs["window"], offs["lastConsumed"]))
	}
	cx := r.fn(w, "C13.R3", M+"ComputeNext")
	if cx != nil {
		// writes: PutUint64(bytes[start:start+8], price) and copy(bytes[start+8:start+88], window)
		var plow, wlow string
		eachInstr(cx, func(i ssa.Instruction) {
			ci, ok := i.(ssa.CallInstruction)
			if !ok {
				return
			}
			switch calleeName(ci) {
			case "(encoding/binary.bigEndian).PutUint64":
				if sl, ok := callArgs(ci)[1].(*ssa.Slice); ok && sl.Low != nil {
					if _, isC := sl.Low.(*ssa.Const); !isC {
						plow = term(sl.Low)
					}
				}
			case "builtin.copy":
				if sl, ok := callArgs(ci)[0].(*ssa.Slice); ok && sl.Low != nil {
					wlow = term(sl.Low)
				}
			}
		})
		bp, sp, ok1 := linear(plow)
		bw, sw, ok2 := linear(wlow)
		r.check(ok1 && ok2 && bp == 8 && sp == 96 && bw == 16 && sw == 96, "C13.R3", "ComputeNext:writes-at-reader-offsets", w.rel(cx.Pos()), plow+" / "+wlow, "ComputeNext writes price/window at offsets that differ from the readers': "+plow+" / "+wlow)
		// timestamp at [0:8] in seconds, since = currSeconds - lastSeconds
		r.requireEffect(w, "C13.R3", "ComputeNext:timestamp-seconds", cx, "call (encoding/binary.bigEndian).PutUint64(encoding/binary.BigEndian, *[0:8], uint64((p1 / 1000)))")
		cc := callsNamed(cx, pkgIFees+".computeNextPriceWindow")
		if len(cc) == 1 {
			a := argTerms(cc[0])
			okk := len(a) == 7 && glob("(*internal/fees.Manager).Window(p0, phi(*))", a[0]) && glob("(*internal/fees.Manager).LastConsumed(p0, phi(*))", a[1]) && glob("(*internal/fees.Manager).UnitPrice(p0, phi(*))", a[2]) &&
				glob("(internal/fees.Rules).GetWindowTargetUnits(p2)[phi(*)]", a[3]) && glob("(internal/fees.Rules).GetUnitPriceChangeDenominator(p2)[phi(*)]", a[4]) && glob("(internal/fees.Rules).GetMinUnitPrice(p2)[phi(*)]", a[5]) &&
				strings.Contains(a[6], "uint64(((p1 / 1000) - int64((encoding/binary.bigEndian).Uint64(encoding/binary.BigEndian, p0.raw[0:8]))))")
			// the elapsed time is the difference only where the clock is ahead of the fee state, else 0 (an unsigned
			// conversion of a negative difference wraps to ~2^64 seconds and wipes the window)
			clamped := len(a) == 7 && strings.HasPrefix(a[6], "phi(") && (strings.HasPrefix(a[6], "phi(0, ") || strings.HasSuffix(a[6], ", 0)"))
			if clamped {
				clamped = false
				if phi, ok := cc[0].Common().Args[6].(*ssa.Phi); ok {
					for i, e := range phi.Edges {
						if term(e) == "0" {
							continue
						}
						pred := phi.Block().Preds[i]
						si := 0
						for k, sx := range pred.Succs {
							if sx == phi.Block() {
								si = k
							}
						}
						for _, c := range condStrings(ctrlCondsEdge(pred, si)) {
							if strings.HasPrefix(c, "int64(") && strings.HasSuffix(c, "p0.raw[0:8])) < (p1 / 1000)") {
								clamped = true
							}
						}
					}
				}
			}
			r.check(clamped, "C13.R3", "ComputeNext:elapsed-clamped-at-zero", r.at(w, cc[0]), "", "the elapsed seconds are converted to unsigned without a 'clock is ahead' test: a clock behind the fee state's timestamp wraps to ~2^64 seconds, the window is wiped and the price collapses")
			r.check(okk, "C13.R3", "ComputeNext:per-dimension-inputs", r.at(w, cc[0]), "", "computeNextPriceWindow is not fed (window, consumed, price, target, denominator, minimum)[i] and the elapsed seconds: "+strings.Join(a, " | "))
		} else {
			r.missing("C13.R3", "ComputeNext:per-dimension-inputs", "computeNextPriceWindow call not found")
		}
		h := findLoopBound(cx, "5")
		r.check(h != nil && loopExitsOnlyAtHeader(h), "C13.R3", "ComputeNext:every-dimension", w.rel(cx.Pos()), "", "ComputeNext does not update every fee dimension")
	}
	// Bytes returns raw; NewManager stores raw unchanged
	if bf := r.fn(w, "C13.R3", M+"Bytes"); bf != nil {
		outs := returnOutcomes(bf)
		r.check(len(outs) == 1 && len(outs[0].Vals) == 1 && term(outs[0].Vals[0]) == "p0.raw", "C13.R3", "Bytes:identity", w.rel(bf.Pos()), "", "Bytes does not return the state buffer unchanged")
	}
	if nm := r.fn(w, "C13.R3", pkgIFees+".NewManager"); nm != nil {
		es := findEffects(nm, "store alloc(complit).raw = *")
		r.check(len(es) == 1 && strings.Contains(es[0].Str, "p0"), "C13.R3", "NewManager:identity", w.rel(nm.Pos()), "", "NewManager does not keep the given state buffer")
	}
}

// findLoopBound: header whose bound is "phi(..) < n".
func findLoopBound(fn *ssa.Function, n string) *ssa.BasicBlock {
	for _, h := range loopHeaders(fn) {
		if ifi, ok := h.Instrs[len(h.Instrs)-1].(*ssa.If); ok && glob("phi(*) < "+n, predString(ifi.Cond, true)) {
			return h
		}
	}
	return nil
}

var reVar = regexp.MustCompile(`int\(p[0-9]+\)|p[0-9]+|phi\([^()]*(\([^()]*\))*[^()]*\)`)

// linear evaluates an offset term that is linear in one variable: returns (value at 0, value at 1 - value at 0).
func linear(t string) (int64, int64, bool) {
	if t == "" {
		return 0, 0, false
	}
	ev := func(x int64) (int64, bool) {
		s := reVar.ReplaceAllString(t, strconv.FormatInt(x, 10))
		return evalInt(s)
	}
	a, ok1 := ev(0)
	b, ok2 := ev(1)
	return a, b - a, ok1 && ok2
}

// evalInt evaluates an expression of integers, + * - and parentheses.
func evalInt(s string) (int64, bool) {
	p := &exprParser{s: strings.ReplaceAll(s, " ", "")}
	v, ok := p.expr()
	return v, ok && p.i == len(p.s)
}

type exprParser struct {
	s string
	i int
}

func (p *exprParser) expr() (int64, bool) {
	v, ok := p.termP()
	for ok && p.i < len(p.s) && (p.s[p.i] == '+' || p.s[p.i] == '-') {
		op := p.s[p.i]
		p.i++
		var w int64
		w, ok = p.termP()
		if op == '+' {
			v += w
		} else {
			v -= w
		}
	}
	return v, ok
}

func (p *exprParser) termP() (int64, bool) {
	v, ok := p.atom()
	for ok && p.i < len(p.s) && p.s[p.i] == '*' {
		p.i++
		var w int64
		w, ok = p.atom()
		v *= w
	}
	return v, ok
}

func (p *exprParser) atom() (int64, bool) {
	if p.i >= len(p.s) {
		return 0, false
	}
	if p.s[p.i] == '(' {
		p.i++
		v, ok := p.expr()
		if !ok || p.i >= len(p.s) || p.s[p.i] != ')' {
			return 0, false
		}
		p.i++
		return v, true
	}
	j := p.i
	for j < len(p.s) && p.s[j] >= '0' && p.s[j] <= '9' {
		j++
	}
	if j == p.i {
		// type conversions like int(3) / uint64(3)
		k := strings.IndexByte(p.s[p.i:], '(')
		if k > 0 && k < 8 {
			p.i += k
			return p.atom()
		}
		return 0, false
	}
	v, err := strconv.ParseInt(p.s[p.i:j], 10, 64)
	p.i = j
	return v, err == nil
}

// ----------------------------------------------------------------------------- C33

func c33(r *Run) {
	w := r.W
	r.rule("C33.R1", "K16", "the compaction loop makes progress and keeps every unmarked index", 2)
	r.rule("C33.R2", "K7", "an index is marked iff it cannot be added; the accumulator is updated iff it is not marked", 3)
	r.rule("C33.R3", "K6", "CanAdd: checked add and strict limit test per dimension", 2)
	ls := r.fn(w, "C33.R1", H+"/fees.LargestSet")
	if ls != nil {
		// selection loop: mark store under !CanAdd ; Add call under CanAdd
		can := "(fees.Dimensions).CanAdd(*)"
		mark := findEffects(ls, "store *[*] = uint64(builtin.len(p0))")
		adds := findEffects(ls, "call fees.Add(*")
		okMark := len(mark) == 1 && hasMatch(mark[0].Conds(), "!"+can)
		okAdd := len(adds) == 1 && hasMatch(adds[0].Conds(), can)
		r.check(okMark, "C33.R2", "LargestSet:mark-iff-cannot-add", w.rel(ls.Pos()), "", "an index is not marked as skipped exactly when CanAdd is false")
		r.check(okAdd, "C33.R2", "LargestSet:accumulate-iff-can-add", w.rel(ls.Pos()), "", "the accumulator is not updated exactly when CanAdd is true")
		if okAdd {
			a := argTerms(adds[0].Ins.(ssa.CallInstruction))
			cc := callsNamed(ls, "("+H+"/fees.Dimensions).CanAdd")
			okk := len(cc) == 1
			if okk {
				ca := argTerms(cc[0])
				okk = len(ca) == 3 && len(a) == 2 && ca[1] == a[1] && ca[2] == "p1"
			}
			r.check(okk, "C33.R2", "LargestSet:tested-vector-is-added-vector", r.at(w, adds[0].Ins), "", "the vector tested by CanAdd (against the limit) is not the vector added")
		}
		// compaction loop: the loop whose body compares an element with the sentinel
		var comp *ssa.BasicBlock
		for _, h := range loopHeaders(ls) {
			loop := naturalLoop(h)
			for b := range loop {
				if ifi, ok := b.Instrs[len(b.Instrs)-1].(*ssa.If); ok {
					ps := predString(ifi.Cond, true)
					if strings.Contains(ps, "== uint64(builtin.len(p0))") || strings.Contains(ps, "uint64(builtin.len(p0)) ==") {
						if len(findStoresIn(loop, "uint64(builtin.len(p0))")) == 0 {
							comp = h
						}
					}
				}
			}
		}
		if comp == nil {
			r.missing("C33.R1", "LargestSet:compaction-loop", "the loop that removes marked indices was not found")
		} else {
			loop := naturalLoop(comp)
			// progress: on every back edge path the read index (the index of the element compared with the sentinel) strictly advances:
			// the header phi for the read index must be updated by +1 on every path back to the header (no path with net 0).
			okk, why := loopIndexAdvances(comp, loop)
			r.check(okk, "C33.R1", "LargestSet:compaction-progress", w.rel(comp.Instrs[0].Pos()), "the tested element advances on every iteration", "the compaction loop can re-test the same element without writing it (it only ends by shrinking its bound, dropping the remaining indices): "+why)
			// keep: the unmarked branch stores the element read
			kept := false
			for b := range loop {
				for _, i := range b.Instrs {
					if st, ok := i.(*ssa.Store); ok {
						if _, ok := st.Addr.(*ssa.IndexAddr); ok && hasMatch(condStrings(ctrlConds(b)), "*[*] != uint64(builtin.len(p0))") {
							kept = true
						}
					}
				}
			}
			r.check(kept, "C33.R1", "LargestSet:compaction-keeps-unmarked", w.rel(comp.Instrs[0].Pos()), "", "the compaction loop does not keep unmarked indices")
		}
	}
	ca := r.fn(w, "C33.R3", "("+H+"/fees.Dimensions).CanAdd")
	if ca != nil {
		add := callsNamed(ca, "github.com/ava-labs/avalanchego/utils/math.Add")
		okk := len(add) == 1 && len(uncheckedArith(ca)) == 0
		var ovf, lim, tr bool
		for _, o := range returnOutcomes(ca) {
			if len(o.Vals) != 1 {
				continue
			}
			v := term(o.Vals[0])
			if v == "false" && hasMatch(o.Conds, "ago/utils/math.Add(*)#1 != nil") {
				ovf = true
			}
			if v == "false" && hasMatch(o.Conds, "p2[*] < ago/utils/math.Add(p0[*], p1[*])#0") {
				lim = true
			}
			if v == "true" && hasMatch(o.Conds, "5 <= phi(*)") {
				tr = true
			}
		}
		r.check(okk && ovf && lim && tr, "C33.R3", "CanAdd", w.rel(ca.Pos()), "", fmt.Sprintf("CanAdd is not 'for every dimension: checked d[i]+a[i] (overflow -> false) and > l[i] -> false, else true' (overflow %v, limit %v, true-after-all %v)", ovf, lim, tr))
		h := findLoopBound(ca, "5")
		r.check(h != nil, "C33.R3", "CanAdd:every-dimension", w.rel(ca.Pos()), "", "CanAdd does not range over every dimension")
	}
}

func findStoresIn(loop map[*ssa.BasicBlock]bool, valTerm string) []*ssa.Store {
	var out []*ssa.Store
	for b := range loop {
		for _, i := range b.Instrs {
			if st, ok := i.(*ssa.Store); ok && term(st.Val) == valTerm {
				out = append(out, st)
			}
		}
	}
	return out
}

// loopIndexAdvances: for the loop's induction phis at the header, every path from the header back to the header
// changes at least one induction variable by a non-zero net amount, considering +c / -c updates along the path.
// It reports false when some back-edge path leaves all induction variables with net change 0 in combination
// (e.g. i++ in the post statement and i-- in the body).
func loopIndexAdvances(h *ssa.BasicBlock, loop map[*ssa.BasicBlock]bool) (bool, string) {
	// collect header phis of integer type
	var phis []*ssa.Phi
	for _, i := range h.Instrs {
		if p, ok := i.(*ssa.Phi); ok {
			if bt, ok := p.Type().Underlying().(*types.Basic); ok && bt.Info()&types.IsInteger != 0 {
				phis = append(phis, p)
			}
		}
	}
	if len(phis) == 0 {
		return false, "no induction variable"
	}
	// the read index: the phi that is used (possibly through +/- const) as index of the element compared with the sentinel
	// For each back edge (pred in loop), compute the net delta of each phi along that edge's incoming value, symbolically:
	// value = phi + k  or unknown.
	// net returns the set of possible net changes of target along the value v (nil = not understood).
	var net func(v ssa.Value, target *ssa.Phi, d int) map[int64]bool
	shift := func(s map[int64]bool, k int64) map[int64]bool {
		if s == nil {
			return nil
		}
		out := map[int64]bool{}
		for x := range s {
			out[x+k] = true
		}
		return out
	}
	net = func(v ssa.Value, target *ssa.Phi, d int) map[int64]bool {
		if d > 8 {
			return nil
		}
		if v == target {
			return map[int64]bool{0: true}
		}
		switch x := v.(type) {
		case *ssa.BinOp:
			if c, ok := x.Y.(*ssa.Const); ok && (x.Op == token.ADD || x.Op == token.SUB) {
				if x.Op == token.ADD {
					return shift(net(x.X, target, d+1), c.Int64())
				}
				return shift(net(x.X, target, d+1), -c.Int64())
			}
			if c, ok := x.X.(*ssa.Const); ok && x.Op == token.ADD {
				return shift(net(x.Y, target, d+1), c.Int64())
			}
		case *ssa.Phi:
			out := map[int64]bool{}
			for _, e := range x.Edges {
				s := net(e, target, d+1)
				if s == nil {
					return nil
				}
				for k := range s {
					out[k] = true
				}
			}
			return out
		}
		return nil
	}
	for _, p := range phis {
		// is p used to index the tested element?
		// is p the index of the element the loop tests (an element load that feeds a branch condition of the loop)?
		usedAsIndex := false
		for _, ref := range *p.Referrers() {
			ia, ok := ref.(*ssa.IndexAddr)
			if !ok {
				continue
			}
			for _, r2 := range *ia.Referrers() {
				ld, ok := r2.(*ssa.UnOp)
				if !ok {
					continue
				}
				for _, r3 := range *ld.Referrers() {
					if bo, ok := r3.(*ssa.BinOp); ok && loop[bo.Block()] {
						for _, r4 := range *bo.Referrers() {
							if _, ok := r4.(*ssa.If); ok {
								usedAsIndex = true
							}
						}
					}
				}
			}
		}
		if !usedAsIndex {
			continue
		}
		for i, e := range p.Edges {
			pred := h.Preds[i]
			if !loop[pred] {
				continue
			}
			dl := net(e, p, 0)
			if dl == nil {
				return false, "index update not understood: " + term(e)
			}
			if dl[0] {
				return false, "on some path around the loop the read index is unchanged (" + term(e) + ")"
			}
		}
		return true, ""
	}
	return false, "no induction variable indexes the tested element"
}
