package main

import (
	"strings"

	"golang.org/x/tools/go/ssa"
)

func init() {
	register(&propDef{
		ID: "C10",
		Explain: "Decides, for every path and every input, the exact predicates (including boundary equalities) under which " +
			"VerifyTimestamp, Base.Execute and Transaction.PreExecute reject: misaligned / expired / too-far-future expiry, chain ID, " +
			"action count, action and auth activation ranges; that the values compared are the transaction's expiry, the execution " +
			"timestamp, the 1000 ms divisor and the rules' validity window in that order; and that mempool admission (PreExecutor) " +
			"feeds one clock reading to rules, fee manager, replay check and PreExecute. Predicate extraction over the SSA " +
			"control-flow graph; not decided: behaviour of Rules implementations and of Action/Auth.ValidRange supplied by a VM.",
		Assume: []string{"Rules getters are pure", "the anchored functions keep their names (a re-implementation elsewhere is reported as mechanism-missing)"},
		Run:    c10,
	})
}

func c10(r *Run) {
	w := r.W
	r.rule("C10.R1", "K6", "VerifyTimestamp(c,e,d,w): c%d!=0 -> ErrMisalignedTime; c<e -> ErrTimestampExpired; c>e+w -> ErrFutureTimestamp; else nil", 3)
	vt := r.fn(w, "C10.R1", H+"/internal/validitywindow.VerifyTimestamp")
	r.guardTable(w, "C10.R1", vt, []guardRow{
		{Preds: []string{"(p0 % p2) != 0"}, Sentinel: "internal/validitywindow.ErrMisalignedTime", Global: true, Label: "misaligned"},
		{Preds: []string{"p0 < p1"}, Sentinel: "internal/validitywindow.ErrTimestampExpired", Global: true, Label: "expired"},
		{Preds: []string{"(p1 + p3) < p0"}, Sentinel: "internal/validitywindow.ErrFutureTimestamp", Global: true, Label: "future"},
	})

	r.rule("C10.R2", "K6", "Base.Execute rejects a foreign chain ID; PreExecute: Base.Execute error returns; too many actions; action/auth activation range", 7)
	be := r.fn(w, "C10.R2", "(*"+H+"/chain.Base).Execute")
	r.guardTable(w, "C10.R2", be, []guardRow{
		{Preds: []string{"(chain.Rules).GetChainID(p1) != p0.ChainID"}, Sentinel: "chain.ErrInvalidChainID", Global: true, Label: "chainID"},
	})
	pe := r.fn(w, "C10.R2", "(*"+H+"/chain.Transaction).PreExecute")
	if pe != nil {
		r.guardTable(w, "C10.R2", pe, []guardRow{
			{Preds: []string{"int((chain.Rules).GetMaxActionsPerTx(p4)) < builtin.len(p0.TransactionData.Actions)"}, Sentinel: "chain.ErrTooManyActions", Global: true, Label: "too-many-actions"},
			{Preds: []string{"0 <= (chain.Action).ValidRange(p0.TransactionData.Actions[*], p4)#0", "p6 < (chain.Action).ValidRange(p0.TransactionData.Actions[*], p4)#0"}, Sentinel: "chain.ErrActionNotActivated", Label: "action-start"},
			{Preds: []string{"0 <= (chain.Action).ValidRange(p0.TransactionData.Actions[*], p4)#1", "(chain.Action).ValidRange(p0.TransactionData.Actions[*], p4)#1 < p6"}, Sentinel: "chain.ErrActionNotActivated", Label: "action-end"},
			{Preds: []string{"0 <= (chain.Auth).ValidRange(p0.Auth, p4)#0", "p6 < (chain.Auth).ValidRange(p0.Auth, p4)#0"}, Sentinel: "chain.ErrAuthNotActivated", Label: "auth-start"},
			{Preds: []string{"0 <= (chain.Auth).ValidRange(p0.Auth, p4)#1", "(chain.Auth).ValidRange(p0.Auth, p4)#1 < p6"}, Sentinel: "chain.ErrAuthNotActivated", Label: "auth-end"},
		})
		// Base.Execute is called on the transaction's own base with (rules, timestamp) and its failure returns
		if bc := r.oneCall(w, "C10.R2", pe, "(*"+H+"/chain.Base).Execute"); bc != nil {
			r.requireArgs(w, "C10.R2", "PreExecute:Base.Execute:args", bc, []string{"p0.TransactionData.Base", "p4", "p6"})
			r.failureLeadsToErrorReturn(w, "C10.R2", "PreExecute:Base.Execute:error-returns", bc)
			// every other return is reachable only after Base.Execute succeeded
			okAll := true
			where := ""
			for _, o := range returnOutcomes(pe) {
				if hasStr(o.Sentinels, "err:(*chain.Base).Execute") {
					continue
				}
				if !onlyViaSuccess(bc, o.Ret, true) {
					okAll = false
					where = w.rel(instrPos(o.Ret))
				}
			}
			r.check(okAll, "C10.R2", "PreExecute:Base.Execute:guards-all", r.at(w, bc), "all other returns lie behind the nil edge", "return at "+where+" reachable without Base.Execute having succeeded")
		}
		// the action loop visits every action: loop over t.Actions without break/continue-skipping before ValidRange
		vr := callsNamed(pe, "("+H+"/chain.Action).ValidRange")
		if len(vr) == 1 {
			okk := strings.HasPrefix(term(callArgs(vr[0])[0]), "p0.TransactionData.Actions[")
			r.check(okk, "C10.R2", "PreExecute:ValidRange:every-action", r.at(w, vr[0]), "called on each element of t.Actions", "ValidRange is not called on the elements of t.Actions: "+term(callArgs(vr[0])[0]))
			// no path from loop header to the success return that skips the loop (range over all indices): the loop bound is len(Actions)
			h, _ := innermostLoop(vr[0].Block())
			okh := false
			if h != nil {
				if ifi, ok := h.Instrs[len(h.Instrs)-1].(*ssa.If); ok {
					ps := predString(ifi.Cond, true)
					okh = glob("* < builtin.len(p0.TransactionData.Actions)", ps)
				}
			}
			r.check(okh, "C10.R2", "PreExecute:ValidRange:loop-bound", r.at(w, vr[0]), "loop bound is len(t.Actions)", "the loop containing Action.ValidRange is not bounded by len(t.Actions)")
		} else {
			r.missing("C10.R2", "PreExecute:ValidRange:every-action", "expected exactly one Action.ValidRange call site in PreExecute")
		}
	}

	r.rule("C10.R3", "K5", "Base.Execute passes (b.Timestamp, timestamp, 1000, r.GetValidityWindow()) to VerifyTimestamp and returns its result", 2)
	if be != nil {
		if vc := r.oneCall(w, "C10.R3", be, H+"/internal/validitywindow.VerifyTimestamp"); vc != nil {
			r.requireArgs(w, "C10.R3", "Base.Execute:VerifyTimestamp:args", vc, []string{"p0.Timestamp", "p2", "1000", "(chain.Rules).GetValidityWindow(p1)"})
			// result is returned
			ret := false
			for _, o := range returnOutcomes(be) {
				if hasStr(o.Sentinels, "err:internal/validitywindow.VerifyTimestamp") {
					ret = true
				}
			}
			r.check(ret, "C10.R3", "Base.Execute:VerifyTimestamp:returned", r.at(w, vc), "result returned", "result of VerifyTimestamp is not returned")
		}
	}

	r.rule("C10.R4", "K5", "mempool admission uses one clock reading for rules, fee manager, replay check and PreExecute; processor/builder pass the block timestamp", 4)
	px := r.fn(w, "C10.R4", "(*"+H+"/chain.PreExecutor).PreExecute")
	if px != nil {
		nowT := "(time.Time).UnixMilli(time.Now())"
		if c := r.oneCall(w, "C10.R4", px, "("+H+"/chain.RuleFactory).GetRules"); c != nil {
			r.requireArgs(w, "C10.R4", "PreExecutor:GetRules(now)", c, []string{"", nowT})
		}
		if c := r.oneCall(w, "C10.R4", px, "(*"+H+"/internal/fees.Manager).ComputeNext"); c != nil {
			r.requireArgs(w, "C10.R4", "PreExecutor:ComputeNext(now)", c, []string{"", nowT})
		}
		if c := r.oneCall(w, "C10.R4", px, "("+H+"/chain.ValidityWindow).IsRepeat"); c != nil {
			r.requireArgs(w, "C10.R4", "PreExecutor:IsRepeat(now)", c, []string{"", "", "", nowT})
		}
		if c := r.oneCall(w, "C10.R4", px, "(*"+H+"/chain.Transaction).PreExecute"); c != nil {
			got := argTerms(c)
			okk := len(got) == 7 && got[6] == nowT && got[4] == "(chain.RuleFactory).GetRules(p0.ruleFactory, "+nowT+")" && strings.HasPrefix(got[2], "(*internal/fees.Manager).ComputeNext(")
			r.check(okk, "C10.R4", "PreExecutor:tx.PreExecute(now)", r.at(w, c), "rules, next fee manager and timestamp all derive from one now", "tx.PreExecute arguments do not derive from the single clock reading: "+strings.Join(got, " | "))
			r.failureLeadsToErrorReturn(w, "C10.R4", "PreExecutor:tx.PreExecute:error-returns", c)
			// time.Now is read once
			n := len(callsNamed(px, "time.Now"))
			r.check(n == 1, "C10.R4", "PreExecutor:single-clock", r.at(w, c), "time.Now called once", "time.Now is called more than once")
		}
	}
	// R5: who may admit. Transactions enter the mempool through Submit (which runs the admission checks) or are put back
	// by the builder / the rejected-block handler; a put-back outside the builder has to be pruned against the last
	// accepted timestamp, because the accepted sibling has already pruned the mempool
	r.rule("C10.R5", "K3", "mempool.Add outside VM.Submit is followed by a prune against the last accepted block's timestamp", 2)
	nAdd := 0
	for _, fn := range w.FnsInPkg(H + "/vm") {
		adds := findEffects(fn, "call (*internal/mempool.Mempool).Add(*")
		if len(adds) == 0 {
			continue
		}
		name := short(fnName(fn))
		if name == "(*vm.VM).Submit" {
			nAdd++
			r.ok("C10.R5", name+":admission-path", w.rel(fn.Pos()), "admission through Submit (checked by R4)")
			continue
		}
		for _, a := range adds {
			nAdd++
			okk := false
			for _, pr := range findEffects(fn, "call (*internal/mempool.Mempool).SetMinTimestamp(*, *, (*vm.VM).LastAcceptedBlock(*)#0.Block.Tmstmp)") {
				if found, _ := pathExists(after(a.Ins), isInstr(pr.Ins), nil, nil); found {
					okk = true
				}
			}
			r.check(okk, "C10.R5", name+":re-admission-pruned", r.at(w, a.Ins), "", "transactions are put back into the mempool without the admission checks and without pruning against the last accepted timestamp: an expired transaction is admitted again")
		}
	}
	if nAdd < 2 {
		r.missing("C10.R5", "mempool-add-sites", "expected the Submit path and the rejected-block handler")
	}

}
