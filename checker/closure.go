package main

import (
	"go/token"

	"golang.org/x/tools/go/ssa"
)

// makeClosureOf finds the MakeClosure instruction that creates literal lit in its parent.
func makeClosureOf(lit *ssa.Function) *ssa.MakeClosure {
	p := lit.Parent()
	if p == nil {
		return nil
	}
	var out *ssa.MakeClosure
	eachInstr(p, func(i ssa.Instruction) {
		if mc, ok := i.(*ssa.MakeClosure); ok && mc.Fn == lit {
			out = mc
		}
	})
	return out
}

// bindingOf returns the parent-function value bound to free variable fv.
func bindingOf(fv *ssa.FreeVar) ssa.Value {
	lit := fv.Parent()
	mc := makeClosureOf(lit)
	if mc == nil {
		return nil
	}
	for i, f := range lit.FreeVars {
		if f == fv && i < len(mc.Bindings) {
			return mc.Bindings[i]
		}
	}
	return nil
}

// outerValue resolves a value used inside a function literal to the value it denotes in the outermost
// enclosing function when it is a load of a captured variable that is assigned exactly once (and never by a literal).
// Other values are returned unchanged.
func outerValue(v ssa.Value) ssa.Value {
	v = strip(v)
	for depth := 0; depth < 8; depth++ {
		ld, ok := v.(*ssa.UnOp)
		if !ok || ld.Op != token.MUL {
			return v
		}
		addr := ld.X
		// resolve chains of free variables to the allocation in an enclosing function
		for {
			fv, ok := addr.(*ssa.FreeVar)
			if !ok {
				break
			}
			b := bindingOf(fv)
			if b == nil {
				return v
			}
			addr = b
		}
		al, ok := addr.(*ssa.Alloc)
		if !ok {
			return v
		}
		sv := singleStore(al)
		if sv == nil {
			return v
		}
		v = strip(sv)
	}
	return v
}

// outerAddr resolves a captured variable (FreeVar chain) to its allocation in an enclosing function.
func outerAddr(addr ssa.Value) ssa.Value {
	for {
		fv, ok := addr.(*ssa.FreeVar)
		if !ok {
			return addr
		}
		b := bindingOf(fv)
		if b == nil {
			return addr
		}
		addr = b
	}
}

// sameOuter: a and b denote the same value once captured variables are resolved.
func sameOuter(a, b ssa.Value) bool {
	return sameValue(outerValue(a), outerValue(b))
}

// literalArg returns the function literal passed as argument idx of call, or nil.
func literalArg(ci ssa.CallInstruction, idx int) *ssa.Function {
	args := ci.Common().Args
	if idx >= len(args) {
		return nil
	}
	if mc, ok := args[idx].(*ssa.MakeClosure); ok {
		if f, ok := mc.Fn.(*ssa.Function); ok {
			return f
		}
	}
	if f, ok := args[idx].(*ssa.Function); ok {
		return f
	}
	return nil
}

// withNested returns lit and all literals nested in it.
func withNested(lit *ssa.Function) []*ssa.Function {
	out := []*ssa.Function{lit}
	for _, a := range lit.AnonFuncs {
		out = append(out, withNested(a)...)
	}
	return out
}

// rootVar returns the captured variable (outer allocation) that an address or value is derived from:
// follows field/index addressing, loads, slices and appends down to a FreeVar / Alloc.
func rootVar(v ssa.Value) ssa.Value {
	for d := 0; d < 20; d++ {
		switch x := v.(type) {
		case *ssa.FieldAddr:
			v = x.X
		case *ssa.IndexAddr:
			v = x.X
		case *ssa.Field:
			v = x.X
		case *ssa.Index:
			v = x.X
		case *ssa.Slice:
			v = x.X
		case *ssa.UnOp:
			if x.Op != token.MUL {
				return v
			}
			v = x.X
		case *ssa.ChangeType:
			v = x.X
		case *ssa.FreeVar:
			return outerAddr(x)
		default:
			return v
		}
	}
	return v
}
