package main

import (
	"regexp"
	"strconv"
	"strings"

	"golang.org/x/tools/go/ssa"
)

func init() {
	register(&propDef{
		ID: "C08",
		Explain: "Decides the structural conditions the conflict-ordered executor needs: the per-task sets blocked/readers/executed " +
			"are only touched with that same task's mutex held (instance-sensitive lockset); Run registers every kind of conflict " +
			"edge (reader registration, writer blocked on every other reader, blocked on the unexecuted last writer, node hand-over) " +
			"under the right branch conditions; the dependency counter protocol (add max first, enqueue iff the adjusted counter is <= 0, " +
			"completion enqueues a blocked task iff its counter reaches <= 0); outstanding.Add/Done pairing on every exit of a task; " +
			"first-error handling by compare-and-swap and the order of Wait. Not decided: the order and liveness of the resulting " +
			"schedule over all interleavings (a property of histories).",
		Assume: []string{"the mechanism is the per-key node map with per-task blocked/readers sets named in the anchors", "Run is called from one goroutine (documented contract)"},
		Run:    c08,
	})
}

var reHold = regexp.MustCompile(`^\((\d+) \+ p0\.maxDependencies\)$`)

func c08(r *Run) {
	w := r.W
	pkg := H + "/internal/executor"
	E := "(*" + pkg + ".Executor)."

	r.rule("C08.R1", "K4", "task.blocked/readers/executed accessed only with l of the same task value held", 9)
	r.guardedBy(w, lockSpec{
		Rule: "C08.R1", Owner: pkg + ".task", Fields: []string{"blocked", "readers", "executed"}, Mutex: "l",
		Pkgs: []string{pkg}, MinSites: 9,
	})

	run := r.fn(w, "C08.R2", E+"Run")
	r.rule("C08.R2", "K6", "Run registers reader / writer-vs-readers / blocked-on-unexecuted / node hand-over edges under the right conditions", 10)
	if run != nil {
		LT := "p0.nodes[*]#0"
		RT := "next(range(p0.nodes[*]#0.readers))#2"
		T := "alloc(complit)"
		exists := "p0.nodes[*]#1"
		isRead := "1 == next(range(p1))#2"
		notRead := "1 != next(range(p1))#2"
		r.requireEffect(w, "C08.R2", "Run:reader:reading[lt.id]=lt", run, "mapupdate "+T+".reading["+LT+".id] = "+LT, exists, isRead)
		r.requireEffect(w, "C08.R2", "Run:reader:lt.readers[id]=t", run, "mapupdate "+LT+".readers[p0.tasks] = "+T, exists, isRead)
		r.requireEffect(w, "C08.R2", "Run:writer:rt.blocked[id]=t", run, "mapupdate "+RT+".blocked[p0.tasks] = "+T, exists, notRead, RT+".id != p0.tasks")
		r.requireEffect(w, "C08.R2", "Run:writer:dependencies.Add(rt.id)", run, "call (*ago/utils/set.Set).Add(alloc(dependencies), ["+RT+".id])", exists, notRead, RT+".id != p0.tasks")
		r.requireEffect(w, "C08.R2", "Run:writer:nodes[k]=t", run, "mapupdate p0.nodes[next(range(p1))#1] = "+T+"*", "next(range(p1))#0")
		r.requireEffect(w, "C08.R2", "Run:unexecuted:lt.blocked[id]=t", run, "mapupdate "+LT+".blocked[p0.tasks] = "+T, exists, "!"+LT+".executed")
		r.requireEffect(w, "C08.R2", "Run:unexecuted:dependencies.Add(lt.id)", run, "call (*ago/utils/set.Set).Add(alloc(dependencies), ["+LT+".id])", exists, "!"+LT+".executed")
		// the writer is blocked on every reader, and every key is registered: both loops run to completion
		hr := findLoopOver(run, "p0.nodes[next(range(p1))#1]#0.readers")
		r.check(hr != nil && loopExitsOnlyAtHeader(hr), "C08.R2", "Run:writer:every-reader", w.rel(run.Pos()), "the loop over lt.readers has no early exit", "the loop over the existing node's readers is missing or can exit early (the writer would not wait for every reader)")
		hk := findLoopOver(run, "p1")
		r.check(hk != nil && loopExitsOnlyAtHeader(hk), "C08.R2", "Run:every-key", w.rel(run.Pos()), "the loop over the task's keys has no early exit", "the loop over the task's keys is missing or can exit early")
		// node hand-over happens exactly in the two cases "no node yet" and "exclusive access"
		nodesUpd := findEffects(run, "mapupdate p0.nodes[next(range(p1))#1] = "+T)
		nNew, nExcl, nOther := 0, 0, 0
		for _, e := range nodesUpd {
			switch {
			case hasMatch(e.Conds(), "!"+exists):
				nNew++
			case hasMatch(e.Conds(), exists) && hasMatch(e.Conds(), notRead):
				nExcl++
			default:
				nOther++
			}
		}
		r.check(nNew >= 1 && nExcl >= 1 && nOther == 0, "C08.R2", "Run:nodes-handover-cases", w.rel(run.Pos()),
			"e.nodes[k]=t exactly when no node exists or access is exclusive",
			"e.nodes[k]=t must happen when no node exists and when access is not read-only, and in no other case")
		// the !executed test and the registration happen while lt.l is held: Lock dominates, Unlock follows
		locks := findEffects(run, "call (*sync.Mutex).Lock("+LT+".l)")
		unlocks := findEffects(run, "call (*sync.Mutex).Unlock("+LT+".l)")
		if len(locks) == 1 && len(unlocks) == 1 {
			okk := true
			for _, e := range effectsOf(run) {
				if strings.HasPrefix(e.Str, "mapupdate "+"p0.nodes[") && strings.Contains(e.Str, "#0.") {
					if !dominatesI(locks[0].Ins, e.Ins) || !alwaysFollowedBy(e.Ins, unlocks[0].Ins) {
						okk = false
					}
				}
			}
			r.check(okk, "C08.R2", "Run:registration-inside-lt-critical-section", r.at(w, locks[0].Ins), "all registrations on lt lie between lt.l.Lock and lt.l.Unlock", "a registration on the existing node escapes its critical section")
		} else {
			r.missing("C08.R2", "Run:registration-inside-lt-critical-section", "expected one Lock and one Unlock of the existing node's mutex in Run")
		}
	}

	// R6: a task's readers / blocked sets cover all keys the task owns: an entry leaves them only when that reader
	// (resp. the task itself) completes. No clear, delete or reassignment anywhere else (e.g. when one key is handed over).
	r.rule("C08.R6", "K3", "task.readers / task.blocked shrink only in the completion routine (a reader leaving, the task finishing)", 2)
	{
		n := 0
		// the completion routine: the literal runTask defers (or a new function it defers), and the new helpers it calls
		completion := map[*ssa.Function]bool{}
		var addCompletion func(f *ssa.Function, d int)
		addCompletion = func(f *ssa.Function, d int) {
			if f == nil || completion[f] || d > maxLiftDepth {
				return
			}
			completion[f] = true
			eachInstr(f, func(i ssa.Instruction) {
				if ci, ok := i.(ssa.CallInstruction); ok {
					addCompletion(transparentCallee(ci), d+1)
				}
			})
		}
		addCompletion(w.Fn(E+"runTask$1"), 0)
		if rtk := w.Fn(E + "runTask"); rtk != nil {
			eachInstr(rtk, func(i ssa.Instruction) {
				if d, ok := i.(*ssa.Defer); ok {
					if c := d.Call.StaticCallee(); c != nil && c.Blocks != nil && !knownFuncs[fnName(c)] {
						addCompletion(c, 0)
					}
				}
			})
		}
		for _, fn := range w.FnsInPkg(pkg) {
			isCompletion := completion[fn]
			for _, e := range effectsOf(fn) {
				s := e.Str
				shrink := ""
				switch {
				case strings.HasPrefix(s, "call builtin.clear(") && (strings.Contains(s, ".readers)") || strings.Contains(s, ".blocked)")):
					shrink = "cleared"
				case strings.HasPrefix(s, "call builtin.delete(") && (strings.Contains(s, ".readers, ") || strings.Contains(s, ".blocked, ")):
					shrink = "entry deleted"
				case (strings.HasPrefix(s, "store ") && (strings.Contains(s, ".readers = ") || strings.Contains(s, ".blocked = "))) && !strings.HasPrefix(s, "store alloc(complit)."):
					shrink = "reassigned"
				}
				if shrink == "" {
					continue
				}
				n++
				r.check(isCompletion, "C08.R6", short(fnName(fn))+":"+shrink, r.at(w, e.Ins), s,
					"a task's readers/blocked set is "+shrink+" outside the completion routine ("+s+"): the set spans every key the task owns, so readers of its other keys (or tasks blocked on it) are forgotten and a later conflicting task is scheduled without waiting for them")
			}
		}
		if n < 2 {
			r.missing("C08.R6", "completion:shrinks", "the completion routine's removal from readers and release of blocked were not found")
		}
	}

	r.rule("C08.R3", "K6", "dependency counter protocol", 5)
	// the completion routine: the literal deferred by runTask on the reference tree; if a refactoring turned it into
	// a named function (one that did not exist on the reference tree), that function, with its parameters rendered as
	// the free variables of the same name so that the rule instances keep their keys
	rt1 := w.Fn(E + "runTask$1")
	deferPat := "defer (*internal/executor.Executor).runTask$1()"
	if rt1 == nil {
		if rtk := w.Fn(E + "runTask"); rtk != nil {
			eachInstr(rtk, func(i ssa.Instruction) {
				if d, ok := i.(*ssa.Defer); ok {
					if c := d.Call.StaticCallee(); c != nil && c.Blocks != nil && c.Parent() == nil && !knownFuncs[fnName(c)] {
						rt1 = c
						deferPat = "defer " + short(fnName(c)) + "(*"
					}
				}
			})
		}
		if rt1 != nil {
			if paramEnv == nil {
				paramEnv = map[ssa.Value]string{}
			}
			for _, p := range rt1.Params {
				paramEnv[p] = "fv:" + p.Name()
			}
			defer func(ps []*ssa.Parameter) {
				for _, p := range ps {
					delete(paramEnv, p)
				}
			}(rt1.Params)
			r.saw(rt1)
		}
	}
	if rt1 == nil {
		rt1 = r.fn(w, "C08.R3", E+"runTask$1")
	} else {
		r.saw(rt1)
	}
	if run != nil {
		// the initial hold: dependencies.Add(H) with H derived from maxDependencies; it has to exceed the largest allowed
		// number of dependencies, otherwise a task with exactly that many can reach zero before the final adjustment
		var addMax []*effect
		for _, e := range findEffects(run, "call (*sync/atomic.Int64).Add(alloc(complit).dependencies, *p0.maxDependencies*)") {
			if !strings.HasPrefix(term(e.Ins.(ssa.CallInstruction).Common().Args[1]), "-") {
				addMax = append(addMax, e)
			}
		}
		hold := "p0.maxDependencies"
		if len(addMax) == 1 {
			hold = term(addMax[0].Ins.(ssa.CallInstruction).Common().Args[1])
			above := false
			if m := reHold.FindStringSubmatch(hold); m != nil {
				if k, err := strconv.Atoi(m[1]); err == nil && k >= 1 {
					above = true
				}
			}
			r.check(above, "C08.R3", "Run:hold-exceeds-maxDependencies", r.at(w, addMax[0].Ins), hold, "the counter is held at "+hold+" while the task is enqueued: a task with exactly maxDependencies predecessors that all finish early reaches zero twice and runs twice")
		}
		firstLock := findEffects(run, "call (*sync.Mutex).Lock(*")
		if len(addMax) == 1 && len(firstLock) > 0 {
			okk := true
			for _, l := range firstLock {
				if !dominatesI(addMax[0].Ins, l.Ins) {
					okk = false
				}
			}
			r.check(okk, "C08.R3", "Run:dependencies.Add(max)-before-registration", r.at(w, addMax[0].Ins), "dominates every registration", "dependencies.Add(maxDependencies) does not precede registration")
		} else {
			r.missing("C08.R3", "Run:dependencies.Add(max)-before-registration", "t.dependencies.Add(e.maxDependencies) not found")
		}
		adj := "(*sync/atomic.Int64).Add(alloc(complit).dependencies, -(" + hold + " - int64((ago/utils/set.Set).Len(alloc(dependencies)))))"
		sends := findEffects(run, "send *")
		if len(sends) == 1 {
			r.check(sends[0].Str == "send p0.executable <- alloc(complit)" && hasStr(sends[0].Conds(), adj+" <= 0") && hasStr(sends[0].Conds(), "!next(range(p1))#0"),
				"C08.R3", "Run:enqueue-iff-no-dependencies", r.at(w, sends[0].Ins), "t enqueued after the key loop iff adjusted counter <= 0",
				"the enqueue in Run is not exactly 'after all keys, iff dependencies.Add(-(max-len)) <= 0': "+sends[0].Str+" {"+strings.Join(sends[0].Conds(), " ; ")+"}")
		} else {
			r.missing("C08.R3", "Run:enqueue-iff-no-dependencies", "expected exactly one channel send in Run")
		}
		// the blocked exit must not enqueue: a return reachable with counter > 0 does not pass the send (implied by conds above), and
		// every return passes through the adjust call
		adjCalls := findEffects(run, "call "+adj)
		if len(adjCalls) == 1 {
			okk, _ := mustPass(entry(run), isReturn, isInstr(adjCalls[0].Ins))
			r.check(okk, "C08.R3", "Run:adjust-on-every-exit", r.at(w, adjCalls[0].Ins), "every return passes the counter adjustment", "a return of Run skips the dependency counter adjustment")
		} else {
			r.missing("C08.R3", "Run:adjust-on-every-exit", "adjustment dependencies.Add(-(max-len(deps))) not found")
		}
	}
	if rt1 != nil {
		BT := "next(range(fv:t.blocked))#2"
		dec := "(*sync/atomic.Int64).Add(" + BT + ".dependencies, -1)"
		sends := findEffects(rt1, "send *")
		if len(sends) == 1 {
			r.check(sends[0].Str == "send fv:e.executable <- "+BT && hasStr(sends[0].Conds(), dec+" <= 0"), "C08.R3", "runTask$1:enqueue-blocked-iff-last-dependency", r.at(w, sends[0].Ins),
				"blocked task enqueued iff Add(-1) <= 0", "completion path enqueue is not 'iff dependencies.Add(-1) <= 0': "+sends[0].Str+" {"+strings.Join(sends[0].Conds(), " ; ")+"}")
		} else {
			r.missing("C08.R3", "runTask$1:enqueue-blocked-iff-last-dependency", "expected exactly one send in the completion closure")
		}
		decs := findEffects(rt1, "call "+dec)
		onlyLoops := len(decs) == 1
		if onlyLoops {
			// nothing but "this loop is iterating" (and "the earlier loop has finished") controls the decrement
			for _, c := range decs[0].Conds() {
				if !isLoopCond(c) {
					onlyLoops = false
				}
			}
		}
		r.check(onlyLoops && containsAll(decs[0].Conds(), []string{"next(range(fv:t.blocked))#0"}), "C08.R3", "runTask$1:decrement-every-blocked", w.rel(rt1.Pos()),
			"every element of t.blocked is decremented once", "not every blocked task has its dependency counter decremented exactly once")
	}

	r.rule("C08.R4", "K20", "outstanding.Add(1) in Run paired with outstanding.Done() on every exit of runTask, after deregistration, notification and executed=true", 6)
	rtask := r.fn(w, "C08.R4", E+"runTask")
	if run != nil {
		adds := findEffects(run, "call (*sync.WaitGroup).Add(p0.outstanding, 1)")
		r.check(len(adds) == 1 && len(adds[0].Conds()) == 0, "C08.R4", "Run:outstanding.Add(1)", w.rel(run.Pos()), "unconditional, once", "Run must call outstanding.Add(1) exactly once, unconditionally")
	}
	if rtask != nil && rt1 != nil {
		defs := findEffects(rtask, deferPat)
		if len(defs) == 1 {
			okk := true
			eachInstr(rtask, func(i ssa.Instruction) {
				if ci, ok := i.(ssa.CallInstruction); ok && i != defs[0].Ins {
					if _, isDefer := i.(*ssa.Defer); !isDefer && !dominatesI(defs[0].Ins, ci) {
						okk = false
					}
				}
			})
			r.check(okk, "C08.R4", "runTask:defer-first", r.at(w, defs[0].Ins), "the completion closure is deferred before any call", "the completion closure is not deferred before the task body can run or return")
		} else {
			r.missing("C08.R4", "runTask:defer-first", "runTask does not defer its completion closure")
		}
		done := findEffects(rt1, "call (*sync.WaitGroup).Done(fv:e.outstanding)")
		if len(done) == 1 {
			okp, _ := mustPass(entry(rt1), isReturn, isInstr(done[0].Ins))
			r.check(okp && len(findEffects(rt1, "call (*sync.WaitGroup).Done(*")) == 1, "C08.R4", "runTask$1:Done-on-every-exit-once", r.at(w, done[0].Ins), "every exit passes exactly one Done", "an exit of the completion closure misses outstanding.Done or it is called more than once")
			for _, pre := range []struct{ label, pat string }{
				{"readers-deregistered", "call builtin.delete(next(range(fv:t.reading))#2.readers, fv:t.id)"},
				{"executed=true", "store fv:t.executed = true"},
				{"blocked-notified", "call (*sync/atomic.Int64).Add(next(range(fv:t.blocked))#2.dependencies, -1)"},
			} {
				es := findEffects(rt1, pre.pat)
				if len(es) == 0 {
					r.missing("C08.R4", "runTask$1:"+pre.label+"-before-Done", "effect not found: "+pre.pat)
					continue
				}
				// Done is not reachable from entry on a path that could still execute the effect afterwards:
				// i.e. no path from Done back to the effect, and the loops containing the effect are exited before Done
				back, _ := pathExists(after(done[0].Ins), isInstr(es[0].Ins), nil, nil)
				reach, _ := pathExists(entry(rt1), isInstr(es[0].Ins), nil, nil)
				r.check(!back && reach && blockReachableOrSame(es[0].Ins.Block(), done[0].Ins.Block()), "C08.R4", "runTask$1:"+pre.label+"-before-Done", r.at(w, es[0].Ins), "precedes Done", pre.label+" does not precede outstanding.Done")
			}
			// executed=true is unconditional w.r.t. the loops (set on every path to Done)
			ex := findEffects(rt1, "store fv:t.executed = true")
			if len(ex) == 1 {
				r.check(dominatesI(ex[0].Ins, done[0].Ins), "C08.R4", "runTask$1:executed-set-on-every-path", r.at(w, ex[0].Ins), "dominates Done", "t.executed = true is not set on every path to Done")
			}
			// the readers loop ranges over t.reading and the notify loop over t.blocked (complete iteration: no break)
			for _, lp := range []string{"fv:t.reading", "fv:t.blocked"} {
				hdr := findLoopOver(rt1, lp)
				r.check(hdr != nil && loopExitsOnlyAtHeader(hdr), "C08.R4", "runTask$1:complete-iteration:"+lp, w.rel(rt1.Pos()), "range over "+lp+" has no early exit", "the loop over "+lp+" is missing or can exit early")
			}
		} else {
			r.missing("C08.R4", "runTask$1:Done-on-every-exit-once", "outstanding.Done not found in the completion closure")
		}
	}

	r.rule("C08.R5", "K3", "first error kept by CompareAndSwap(nil, err); tasks skipped once an error is recorded; Wait order", 5)
	if rtask != nil {
		// all operations on Executor.err across the package
		n := 0
		okk := true
		where := ""
		for _, fn := range w.FnsInPkg(pkg) {
			eachInstr(fn, func(i ssa.Instruction) {
				ci, ok := i.(ssa.CallInstruction)
				if !ok {
					return
				}
				args := ci.Common().Args
				if len(args) == 0 || !strings.HasSuffix(term(args[0]), ".err") || !strings.HasPrefix(calleeName(ci), "(*go.uber.org/atomic.Error).") {
					return
				}
				n++
				switch calleeName(ci) {
				case "(*go.uber.org/atomic.Error).Load":
				case "(*go.uber.org/atomic.Error).CompareAndSwap":
					if term(args[1]) != "nil" {
						okk = false
						where = w.rel(instrPos(i))
					}
				default:
					okk = false
					where = w.rel(instrPos(i))
				}
			})
		}
		r.check(okk && n >= 4, "C08.R5", "Executor.err:writers", w.rel(rtask.Pos()), "only Load and CompareAndSwap(nil, _)", "Executor.err is written other than by CompareAndSwap(nil, err) at "+where)
		calls := findEffects(rtask, "call dyn:*.f()")
		if len(calls) == 1 {
			r.check(hasMatch(calls[0].Conds(), "(*go.uber.org/atomic.Error).Load(*.err) == nil"), "C08.R5", "runTask:skip-after-error", r.at(w, calls[0].Ins), "t.f() runs only if no error is recorded", "t.f() is not guarded by e.err.Load() == nil")
			cas := findEffects(rtask, "call (*go.uber.org/atomic.Error).CompareAndSwap(*.err, nil, dyn:*.f())")
			r.check(len(cas) == 1 && hasMatch(cas[0].Conds(), "dyn:*.f() != nil"), "C08.R5", "runTask:record-first-error", r.at(w, calls[0].Ins), "error of t.f() recorded by CAS", "the error returned by t.f() is not recorded with CompareAndSwap(nil, err)")
			// exactly one invocation of the task function in the package
			cnt := 0
			for _, fn := range w.FnsInPkg(pkg) {
				cnt += len(findEffects(fn, "call dyn:*.f()"))
			}
			r.check(cnt == 1, "C08.R5", "task.f:single-call-site", r.at(w, calls[0].Ins), "one call site", "the task function is invoked from more than one site")
		} else {
			r.missing("C08.R5", "runTask:skip-after-error", "call of t.f() not found in runTask")
		}
	}
	wait := r.fn(w, "C08.R5", E+"Wait")
	if wait != nil {
		seq := []string{"call (*sync.WaitGroup).Wait(p0.outstanding)", "call builtin.close(p0.executable)", "call (*sync.WaitGroup).Wait(p0.workers)", "call (*go.uber.org/atomic.Error).Load(p0.err)"}
		var prev ssa.Instruction
		okk := true
		for _, s := range seq {
			es := findEffects(wait, s)
			if len(es) != 1 || (prev != nil && !dominatesI(prev, es[0].Ins)) {
				okk = false
				break
			}
			prev = es[0].Ins
		}
		if okk {
			outs := returnOutcomes(wait)
			okk = len(outs) == 1 && hasStr(outs[0].Sentinels, "err:(*go.uber.org/atomic.Error).Load")
		}
		r.check(okk, "C08.R5", "Wait:order", w.rel(wait.Pos()), "outstanding.Wait -> close(executable) -> workers.Wait -> return err.Load()", "Wait does not follow outstanding.Wait -> close(executable) -> workers.Wait -> return e.err.Load()")
	}
	work := r.fn(w, "C08.R5", E+"work")
	if work != nil {
		es := findEffects(work, "call (*internal/executor.Executor).runTask(p0, <-p0.executable#0)")
		r.check(len(es) == 1 && hasStr(es[0].Conds(), "<-p0.executable#1") && len(findEffects(work, "defer (*sync.WaitGroup).Done(p0.workers)")) == 1, "C08.R5", "work:loop", w.rel(work.Pos()), "runs every received task until the channel is closed; workers.Done deferred", "worker loop does not run every received task or does not signal workers.Done")
	}
}

func blockReachableOrSame(a, b *ssa.BasicBlock) bool { return a == b || blockReachable(a, b) }

// findLoopOver returns the header of a range loop over the value rendered as x.
func findLoopOver(fn *ssa.Function, x string) *ssa.BasicBlock {
	for _, h := range loopHeaders(fn) {
		for _, ins := range h.Instrs {
			if n, ok := ins.(*ssa.Next); ok && term(n.Iter) == "range("+x+")" {
				return h
			}
		}
	}
	// the loop may have moved into a helper that did not exist on the reference tree: look through its calls, on
	// every path of fn (the call must not be conditional), with the arguments substituted
	var found *ssa.BasicBlock
	if liftDepth < maxLiftDepth {
		eachInstr(fn, func(i ssa.Instruction) {
			ci, ok := i.(ssa.CallInstruction)
			if !ok || found != nil {
				return
			}
			callee := transparentCallee(ci)
			if callee == nil {
				return
			}
			// the call must not be conditional, other than on earlier calls having succeeded
			for _, c := range condStrings(ctrlConds(i.Block())) {
				if !(strings.HasSuffix(c, " == nil") || strings.HasPrefix(c, "nil == ")) {
					return
				}
			}
			withCallEnv(ci, callee, func() { found = findLoopOver(callee, x) })
		})
	}
	return found
}

// loopExitsOnlyAtHeader: the only edges leaving the natural loop start at the header (no break / return inside the body).
func loopExitsOnlyAtHeader(h *ssa.BasicBlock) bool {
	loop := naturalLoop(h)
	if loop == nil {
		return false
	}
	for b := range loop {
		if b == h {
			continue
		}
		if len(b.Succs) == 0 {
			return false // return/panic inside the loop
		}
		for _, s := range b.Succs {
			if !loop[s] {
				return false
			}
		}
	}
	return true
}
