package main

import (
	"fmt"
	"sort"
	"strings"

	"golang.org/x/tools/go/ssa"
)

// K4 GuardedBy: every access to the listed fields of Owner happens with Owner.Mutex of the same base value held.

type lockSpec struct {
	Rule         string
	Owner        string   // "pkgpath.Type"
	Fields       []string // protected fields
	Mutex        string   // mutex field of Owner
	Pkgs         []string // package paths whose functions are scanned
	HeldByCaller map[string]int
	// functions in which accesses are exempt, with the reason (constructors, single-threaded initialisation)
	ExemptFn map[string]string
	// single accesses exempt: "fnname:field" -> reason
	ExemptAccess map[string]string
	// ReadOK: fields for which a read lock suffices even for what looks like a write (none by default)
	MinSites int
}

type lockState map[string]int // lock key -> 1 (read) / 2 (write)

func (s lockState) clone() lockState {
	n := lockState{}
	for k, v := range s {
		n[k] = v
	}
	return n
}

func meet(a, b lockState) lockState {
	n := lockState{}
	for k, v := range a {
		if w, ok := b[k]; ok {
			if w < v {
				v = w
			}
			n[k] = v
		}
	}
	return n
}

func eqState(a, b lockState) bool {
	if len(a) != len(b) {
		return false
	}
	for k, v := range a {
		if b[k] != v {
			return false
		}
	}
	return true
}

// lockOp classifies a call as a mutex operation: returns key (term of the struct holding the mutex + "." + mutex field), op.
func lockOp(ci ssa.CallInstruction) (key string, op string) {
	n := calleeName(ci)
	switch n {
	case "(*sync.Mutex).Lock", "(*sync.RWMutex).Lock":
		op = "lock"
	case "(*sync.RWMutex).RLock":
		op = "rlock"
	case "(*sync.Mutex).Unlock", "(*sync.RWMutex).Unlock", "(*sync.RWMutex).RUnlock":
		op = "unlock"
	case "(*sync.Mutex).TryLock", "(*sync.RWMutex).TryLock":
		return "", ""
	default:
		return "", ""
	}
	args := ci.Common().Args
	if len(args) == 0 {
		return "", ""
	}
	return term(args[0]), op
}

// locksets computes, for every instruction index of every block, the must-hold lockset before it.
func locksets(fn *ssa.Function, init lockState) map[*ssa.BasicBlock][]lockState {
	in := map[*ssa.BasicBlock]lockState{}
	out := map[*ssa.BasicBlock]lockState{}
	visited := map[*ssa.BasicBlock]bool{}
	transfer := func(b *ssa.BasicBlock, s lockState, record []lockState) lockState {
		s = s.clone()
		for i, ins := range b.Instrs {
			if record != nil {
				record[i] = s.clone()
			}
			if _, isDefer := ins.(*ssa.Defer); isDefer {
				continue
			}
			if _, isGo := ins.(*ssa.Go); isGo {
				continue
			}
			ci, ok := ins.(ssa.CallInstruction)
			if !ok {
				continue
			}
			key, op := lockOp(ci)
			switch op {
			case "lock":
				s[key] = 2
			case "rlock":
				if s[key] < 1 {
					s[key] = 1
				}
			case "unlock":
				delete(s, key)
			}
		}
		return s
	}
	work := []*ssa.BasicBlock{fn.Blocks[0]}
	in[fn.Blocks[0]] = init.clone()
	visited[fn.Blocks[0]] = true
	for len(work) > 0 {
		b := work[0]
		work = work[1:]
		o := transfer(b, in[b], nil)
		if prev, ok := out[b]; ok && eqState(prev, o) {
			continue
		}
		out[b] = o
		for _, s := range b.Succs {
			if !visited[s] {
				visited[s] = true
				in[s] = o.clone()
				work = append(work, s)
				continue
			}
			m := meet(in[s], o)
			if !eqState(m, in[s]) {
				in[s] = m
				work = append(work, s)
			} else if _, done := out[s]; !done {
				work = append(work, s)
			}
		}
	}
	res := map[*ssa.BasicBlock][]lockState{}
	for _, b := range fn.Blocks {
		if !visited[b] {
			continue
		}
		rec := make([]lockState, len(b.Instrs))
		transfer(b, in[b], rec)
		res[b] = rec
	}
	return res
}

func isLocalAlloc(v ssa.Value) bool {
	switch v := v.(type) {
	case *ssa.Alloc:
		return true
	case *ssa.Phi:
		for _, e := range v.Edges {
			if !isLocalAlloc(e) {
				return false
			}
		}
		return len(v.Edges) > 0
	case *ssa.FieldAddr:
		return isLocalAlloc(v.X)
	case *ssa.UnOp:
		// load of a local variable holding a fresh allocation
		if a, ok := v.X.(*ssa.Alloc); ok {
			if sv := singleStore(a); sv != nil {
				return isLocalAlloc(sv)
			}
		}
	}
	return false
}

func (r *Run) guardedBy(w *World, sp lockSpec) {
	fieldSet := map[string]bool{}
	for _, f := range sp.Fields {
		fieldSet[f] = true
	}
	sites := 0
	for _, pkg := range sp.Pkgs {
		for _, fn := range w.FnsInPkg(pkg) {
			name := fnName(fn)
			sname := short(name)
			// collect accesses and calls to held-by-caller helpers
			type acc struct {
				ins   ssa.Instruction
				base  ssa.Value
				field string
				write bool
			}
			var accs []acc
			type hcall struct {
				ci   ssa.CallInstruction
				mode int
				name string
			}
			var hcalls []hcall
			eachInstr(fn, func(ins ssa.Instruction) {
				switch v := ins.(type) {
				case *ssa.FieldAddr:
					o, f := fieldOwner(v.X, v.Field)
					if o == sp.Owner && fieldSet[f] {
						accs = append(accs, acc{ins, v.X, f, isWriteAccess(v)})
					}
				case *ssa.Field:
					o, f := fieldOwner(v.X, v.Field)
					if o == sp.Owner && fieldSet[f] {
						accs = append(accs, acc{ins, v.X, f, false})
					}
				}
				if ci, ok := ins.(ssa.CallInstruction); ok {
					if _, isGo := ins.(*ssa.Go); !isGo {
						if m, ok := sp.HeldByCaller[calleeName(ci)]; ok {
							hcalls = append(hcalls, hcall{ci, m, calleeName(ci)})
						}
					}
				}
			})
			if len(accs) == 0 && len(hcalls) == 0 {
				continue
			}
			r.saw(fn)
			if reason, ok := sp.ExemptFn[name]; ok {
				r.ok(sp.Rule, sname+":exempt", w.rel(fn.Pos()), fmt.Sprintf("%d accesses exempt: %s", len(accs), reason))
				sites++
				continue
			}
			init := lockState{}
			if m, ok := sp.HeldByCaller[name]; ok && len(fn.Params) > 0 {
				init["p0."+sp.Mutex] = m
			} else if !knownFuncs[name] && fn.Parent() == nil && len(fn.Params) > 0 {
				// a helper that did not exist on the reference tree (extracted by a refactoring): it runs in the
				// locking context of its call sites - exempt if only exempt functions call it, otherwise with the
				// weakest lock mode any caller holds for its receiver
				mode, exempt, sitesN := r.callerLockContext(w, sp, name)
				if sitesN > 0 && exempt == sitesN {
					r.ok(sp.Rule, sname+":exempt", w.rel(fn.Pos()), fmt.Sprintf("%d accesses exempt: new helper called only from exempt functions", len(accs)))
					sites++
					continue
				}
				if sitesN > 0 && mode > 0 {
					init["p0."+sp.Mutex] = mode
				}
			}
			ls := locksets(fn, init)
			for _, a := range accs {
				sites++
				cons := sname + ":" + a.field
				if reason, ok := sp.ExemptAccess[name+":"+a.field]; ok {
					r.ok(sp.Rule, cons, r.at(w, a.ins), "exempt: "+reason)
					continue
				}
				if isLocalAlloc(a.base) {
					r.ok(sp.Rule, cons, r.at(w, a.ins), "object allocated in this function, not yet published")
					continue
				}
				rec := ls[a.ins.Block()]
				if rec == nil {
					continue // unreachable block
				}
				st := rec[instrIndex(a.ins)]
				key := term(a.base) + "." + sp.Mutex
				need := 1
				if a.write {
					need = 2
				}
				have := st[key]
				kind := "read"
				if a.write {
					kind = "write"
				}
				r.check(have >= need, sp.Rule, cons, r.at(w, a.ins),
					fmt.Sprintf("%s with %s held", kind, key),
					fmt.Sprintf("%s of %s.%s without %s held (%s lock needed; held here: %s)", kind, short(sp.Owner), a.field, key, map[int]string{1: "read", 2: "write"}[need], lockStr(st)))
			}
			for _, h := range hcalls {
				sites++
				args := h.ci.Common().Args
				if len(args) == 0 {
					continue
				}
				cons := sname + ":call:" + short(h.name)
				rec := ls[h.ci.Block()]
				if rec == nil {
					continue
				}
				st := rec[instrIndex(h.ci)]
				key := term(args[0]) + "." + sp.Mutex
				if isLocalAlloc(args[0]) {
					r.ok(sp.Rule, cons, r.at(w, h.ci), "receiver allocated in this function")
					continue
				}
				r.check(st[key] >= h.mode, sp.Rule, cons, r.at(w, h.ci),
					"helper that requires "+key+" called with it held",
					fmt.Sprintf("%s requires %s to be held by its caller; held here: %s", short(h.name), key, lockStr(st)))
			}
		}
	}
	if sites < sp.MinSites {
		r.missing(sp.Rule, "sites", fmt.Sprintf("only %d accesses of %s{%s} found, expected at least %d", sites, short(sp.Owner), strings.Join(sp.Fields, ","), sp.MinSites))
	}
}

// callerLockContext looks at every static call of the named function in the spec's packages: how many call sites
// there are, how many are in exempt functions, and the weakest mode in which the other sites hold the mutex of the
// value passed as receiver.
func (r *Run) callerLockContext(w *World, sp lockSpec, name string) (mode int, exempt int, n int) {
	mode = 2
	for _, pkg := range sp.Pkgs {
		for _, g := range w.FnsInPkg(pkg) {
			calls := callsNamed(g, name)
			if len(calls) == 0 {
				continue
			}
			gname := fnName(g)
			var ls map[*ssa.BasicBlock][]lockState
			for _, c := range calls {
				n++
				if _, isGo := c.(*ssa.Go); isGo {
					mode = 0
					continue
				}
				if _, isDefer := c.(*ssa.Defer); isDefer {
					mode = 0
					continue
				}
				if _, ok := sp.ExemptFn[gname]; ok {
					exempt++
					continue
				}
				if ls == nil {
					init := lockState{}
					if m, ok := sp.HeldByCaller[gname]; ok && len(g.Params) > 0 {
						init["p0."+sp.Mutex] = m
					}
					ls = locksets(g, init)
				}
				args := c.Common().Args
				rec := ls[c.Block()]
				if len(args) == 0 || rec == nil {
					mode = 0
					continue
				}
				if isLocalAlloc(args[0]) {
					exempt++
					continue
				}
				if m := rec[instrIndex(c)][term(args[0])+"."+sp.Mutex]; m < mode {
					mode = m
				}
			}
		}
	}
	return mode, exempt, n
}

func lockStr(s lockState) string {
	if len(s) == 0 {
		return "none"
	}
	var ks []string
	for k, v := range s {
		ks = append(ks, fmt.Sprintf("%s(%s)", k, map[int]string{1: "R", 2: "W"}[v]))
	}
	sort.Strings(ks)
	return strings.Join(ks, ",")
}
