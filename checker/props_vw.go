package main

import (
	"fmt"
	"go/types"
	"strings"

	"golang.org/x/tools/go/ssa"
)

func init() {
	register(&propDef{
		ID: "C22",
		Explain: "Decides that the backfill client emits a block only after it parsed and its ID equals the parent ID expected from the previously emitted block " +
			"(hash link), that the expected parent and the resume height advance only from emitted blocks, that the syncer tracks a block's transactions only after " +
			"the block was saved and stops without signalling completion when saving fails, that the result channel is closed only once the oldest emitted block " +
			"is older than the minimum timestamp, and that the serving handler stops after the first block below the requested minimum and returns what it has on " +
			"error. Not decided: completion under arbitrary peer faults (liveness).",
		Run: c22,
	})
}

func c22(r *Run) {
	w := r.W
	// R4: the forward path of the syncer: every block consensus accepts while syncing enters the window
	r.rule("C22.R4", "K1", "Syncer.accept records every forward block in the validity window, whatever it reports about completion", 1)
	if sa := r.fn(w, "C22.R4", "(*"+pkgVW+".Syncer).accept"); sa != nil {
		ac := findEffects(sa, "call (*internal/validitywindow.TimeValidityWindow).Accept(p0.timeValidityWindow, p1)")
		okk := len(ac) == 1
		if okk {
			okp, _ := mustPass(entry(sa), isReturn, isInstr(ac[0].Ins))
			okk = okp
		}
		// completion is judged with the window that applies at the new block (rules may change the window over time)
		outs := returnOutcomes(sa)
		okW := len(outs) > 0
		for _, o := range outs {
			if !(len(o.Vals) == 1 && strings.Contains(term(o.Vals[0]), "getValidityWindow((internal/validitywindow.Block).GetTimestamp(p1)) < ((internal/validitywindow.Block).GetTimestamp(p1) - (internal/validitywindow.Block).GetTimestamp(p0.oldestBlock))")) {
				okW = false
			}
		}
		r.check(okW, "C22.R4", "Syncer.accept:complete-iff-span-exceeds-window-at-the-new-block", w.rel(sa.Pos()), "", "forward completion is not 'new block's timestamp - oldest block's timestamp > validity window at the new block's timestamp'")
		r.check(okk, "C22.R4", "Syncer.accept:window-accepts-on-every-path", w.rel(sa.Pos()), "", "a block accepted while syncing can return from Syncer.accept without having been recorded in the validity window: its transactions are invisible to the replay check after the hand-over")
	}
	r.rule("C22.R1", "K1", "emit only parsed, hash-linked blocks; lastBlock/expected parent/resume height advance only from emitted blocks", 5)
	r.rule("C22.R2", "K1", "AcceptHistorical only after SaveHistorical succeeded; a save error is reported and the syncer does not signal done", 3)
	r.rule("C22.R3", "K6", "completion conditions of client and handler", 4)

	fb := r.fn(w, "C22.R1", "(*"+pkgVW+".BlockFetcherClient).FetchBlocks$1")
	if fb != nil {
		// the select that sends on resultChan
		var sel *ssa.Select
		eachInstr(fb, func(i ssa.Instruction) {
			if s, ok := i.(*ssa.Select); ok {
				for _, st := range s.States {
					if st.Dir == types.SendOnly && term(st.Chan) == "fv:resultChan" {
						sel = s
					}
				}
			}
		})
		if sel == nil {
			r.missing("C22.R1", "FetchBlocks:emit", "the select sending on resultChan was not found")
		} else {
			cs := condStrings(ctrlConds(sel.Block()))
			parsed := hasMatch(cs, "(internal/validitywindow.BlockParser).ParseBlock(fv:c.parser, fv:ctx, *)#1 == nil")
			linked := hasMatch(cs, "(internal/validitywindow.Block).GetID((internal/validitywindow.BlockParser).ParseBlock(*)#0) == phi(*)") || hasMatch(cs, "phi(*) == (internal/validitywindow.Block).GetID((internal/validitywindow.BlockParser).ParseBlock(*)#0)")
			r.check(parsed, "C22.R1", "FetchBlocks:emit-only-parsed", r.at(w, sel), "", "a block can be emitted although ParseBlock failed: {"+strings.Join(cs, " ; ")+"}")
			r.check(linked, "C22.R1", "FetchBlocks:emit-only-hash-linked", r.at(w, sel), "", "a block can be emitted although its ID is not the expected parent ID: {"+strings.Join(cs, " ; ")+"}")
			// the value sent is the parsed block
			sent := ""
			for _, st := range sel.States {
				if st.Dir == types.SendOnly {
					sent = term(st.Send)
				}
			}
			r.check(glob("(internal/validitywindow.BlockParser).ParseBlock(*)#0", sent), "C22.R1", "FetchBlocks:emits-the-parsed-block", r.at(w, sel), sent, "the emitted value is not the parsed block: "+sent)
			// expected parent: phi(lastBlock.GetParent(), emitted block.GetParent())
			exp := ""
			for _, c := range cs {
				if strings.Contains(c, "GetID(") && strings.Contains(c, "phi(") {
					exp = c
				}
			}
			r.check(strings.Contains(exp, "(internal/validitywindow.Block).GetParent(fv:c.lastBlock)") && strings.Contains(exp, "(internal/validitywindow.Block).GetParent((internal/validitywindow.BlockParser).ParseBlock("), "C22.R1", "FetchBlocks:expected-parent-chain", r.at(w, sel), "", "the expected parent ID is not seeded from lastBlock.GetParent() and advanced by the accepted block's GetParent(): "+exp)
			// lastBlock and req.BlockHeight are stored only in the send case
			for _, pat := range []string{"store fv:c.lastBlock = *", "store *.BlockHeight = *"} {
				okk := true
				n := 0
				for _, e := range findEffects(fb, pat) {
					if !dominatesI(sel, e.Ins) {
						continue // initialisation before the loop
					}
					n++
					if !hasStr(e.Conds(), "1 == select#0") && !hasStr(e.Conds(), "select#0 == 1") {
						okk = false
					}
				}
				r.check(okk && n >= 1, "C22.R1", "FetchBlocks:"+pat+":only-after-emit", r.at(w, sel), "", "progress state ("+pat+") advances although the block was not emitted")
			}
		}
		// R3: close only when lastBlock.ts < min
		cl := findEffects(fb, "call builtin.close(fv:resultChan)")
		// the channel is closed only through "lastBlock older than the minimum" or "lastBlock is genesis", and each of
		// the two closes it at both test sites (loop top, after an emit)
		const tsOld = "(internal/validitywindow.Block).GetTimestamp(fv:c.lastBlock) < (*sync/atomic.Int64).Load(fv:minTimestamp)"
		const tsNew = "(*sync/atomic.Int64).Load(fv:minTimestamp) <= (internal/validitywindow.Block).GetTimestamp(fv:c.lastBlock)"
		const atGen = "(internal/validitywindow.Block).GetHeight(fv:c.lastBlock) == 0"
		const notGen = "(internal/validitywindow.Block).GetHeight(fv:c.lastBlock) != 0"
		done := map[edgeKey]bool{}
		nTS, nGen := 0, 0
		isClose := func(i ssa.Instruction) bool {
			for _, c := range cl {
				if c.Ins == i {
					return true
				}
			}
			return false
		}
		closesAlways := true
		for _, b := range fb.Blocks {
			ifi, ok := b.Instrs[len(b.Instrs)-1].(*ssa.If)
			if !ok {
				continue
			}
			idx := -1
			switch predString(ifi.Cond, true) {
			case tsOld:
				idx, nTS = 0, nTS+1
			case atGen:
				idx, nGen = 0, nGen+1
			case tsNew:
				idx, nTS = 1, nTS+1
			case notGen:
				idx, nGen = 1, nGen+1
			}
			if idx < 0 {
				continue
			}
			done[edgeKey{b.Index, idx}] = true
			// from the "done" edge every path closes before doing anything else (no path to a return or loop avoiding close)
			if found, _ := pathExists(point{b.Succs[idx], 0}, func(i ssa.Instruction) bool { _, ok := i.(*ssa.Return); return ok }, isClose, nil); found {
				closesAlways = false
			}
		}
		okk := len(cl) >= 1 && nTS >= 2
		for _, c := range cl {
			if found, _ := pathExists(point{fb.Blocks[0], 0}, isInstr(c.Ins), nil, done); found {
				okk = false
			}
		}
		r.check(okk, "C22.R3", "FetchBlocks:close-iff-window-covered", w.rel(fb.Pos()), "", "the result channel can be closed although the oldest emitted block is neither older than the minimum timestamp nor genesis")
		r.check(nGen >= 2 && closesAlways, "C22.R3", "FetchBlocks:genesis-completes", w.rel(fb.Pos()), "reaching height 0 closes the channel at both test sites", "reaching genesis does not complete the backfill: for a chain younger than the validity window the client requests height 0-1 forever and the syncer never finishes")
	}

	st := r.fn(w, "C22.R2", "(*"+pkgVW+".Syncer).Start$1")
	if st != nil {
		sv := callsTo(st, func(n string) bool { return strings.HasSuffix(n, ").SaveHistorical") })
		ah := callsNamed(st, nmTVW+"AcceptHistorical")
		sd := callsNamed(st, "(*"+pkgVW+".Syncer).signalDone")
		if len(sv) == 1 && len(ah) == 1 && len(sd) == 1 {
			r.successGuards(w, "C22.R2", "Syncer.Start:AcceptHistorical-after-SaveHistorical", sv[0], ah[0])
			r.check(sameValue(callArgs(sv[0])[1], ah[0].Common().Args[1]), "C22.R2", "Syncer.Start:same-block", r.at(w, ah[0]), "", "the block tracked is not the block saved")
			okk, tested := failEdgeAvoids(sv[0], isInstr(sd[0]))
			es := findEffects(st, "send fv:s.errChan <- *")
			r.check(okk && tested && len(es) == 1, "C22.R2", "Syncer.Start:save-error-reported-not-done", r.at(w, sv[0]), "", "a failing SaveHistorical is not reported on errChan, or the syncer still signals completion")
			// the stream consumed is the client's result channel for the oldest known block
			r.requireEffect(w, "C22.R2", "Syncer.Start:fetch-from-oldest-block", st, "call (internal/validitywindow.BlockFetcher).FetchBlocks(fv:s.blockFetcherClient, *, fv:s.oldestBlock, fv:s.minTimestamp)")
		} else {
			r.missing("C22.R2", "Syncer.Start", "SaveHistorical / AcceptHistorical / signalDone not found in the syncer goroutine")
		}
	}

	hf := r.fn(w, "C22.R3", "(*"+pkgVW+".BlockFetcherHandler).fetchBlocks")
	if hf != nil {
		var stopMin, errEmpty, errSome bool
		hdrs := loopHeaders(hf)
		for _, b := range hf.Blocks {
			ifi, ok := b.Instrs[len(b.Instrs)-1].(*ssa.If)
			if !ok || !glob("(internal/validitywindow.*).GetTimestamp(*) < p2.MinTimestamp", predString(ifi.Cond, true)) {
				continue
			}
			// from the 'below minimum' edge the loop is not continued
			back := false
			for _, h := range hdrs {
				if b.Succs[0] == h || blockReachable(b.Succs[0], h) {
					back = true
				}
			}
			stopMin = !back
		}
		for _, o := range returnOutcomes(hf) {
			if hasStr(o.Sentinels, "err:(internal/validitywindow.BlockRetriever).GetBlockByHeight") && hasMatch(o.Conds, "phi((0 == builtin.len(*") {
				errEmpty = true
			}
			if hasStr(o.Sentinels, "nil") && hasMatch(o.Conds, "(internal/validitywindow.BlockRetriever).GetBlockByHeight(*)#1 != nil") {
				errSome = true
			}
		}
		r.check(stopMin, "C22.R3", "handler:stops-after-first-block-below-minimum", w.rel(hf.Pos()), "", "the handler does not stop after the first block whose timestamp is below the requested minimum")
		r.check(errEmpty && errSome, "C22.R3", "handler:error=>what-it-has", w.rel(hf.Pos()), "", "on a retrieval error the handler does not return the blocks gathered so far (or the error when it has none)")
		// descending heights
		es := findEffects(hf, "call (internal/validitywindow.BlockRetriever).GetBlockByHeight(p0.retriever, *, phi(*))")
		r.check(len(es) == 1 && strings.Contains(es[0].Str, "p2.BlockHeight") && strings.Contains(es[0].Str, " - 1)"), "C22.R3", "handler:descending-from-requested-height", w.rel(hf.Pos()), "", "the handler does not walk heights downward from the requested height")
		// an answer above the network's message size limit cannot be delivered: the response is cut at a byte budget
		// below that limit, after at least one block
		limit := int64(2_044_723)
		if p := w.Pkgs[H+"/consts"]; p != nil {
			if c, ok := p.Types.Scope().Lookup("NetworkSizeLimit").(*types.Const); ok {
				limit, _ = constantInt(c)
			}
		}
		budget := false
		for _, b := range hf.Blocks {
			ifi, ok := b.Instrs[len(b.Instrs)-1].(*ssa.If)
			if !ok {
				continue
			}
			bo, ok := ifi.Cond.(*ssa.BinOp)
			if !ok {
				continue
			}
			for _, pr := range [][2]ssa.Value{{bo.X, bo.Y}, {bo.Y, bo.X}} {
				c0, ok := pr[1].(*ssa.Const)
				if !ok || c0.Value == nil {
					continue
				}
				var v int64
				if _, err := fmt.Sscan(c0.Value.ExactString(), &v); err != nil || v <= 0 || v > limit {
					continue
				}
				if strings.Contains(term(pr[0]), "builtin.len((internal/validitywindow.HandlerBlock).GetBytes(") {
					// the over-budget edge returns what was gathered
					for s := 0; s < 2; s++ {
						if _, isRet := b.Succs[s].Instrs[len(b.Succs[s].Instrs)-1].(*ssa.Return); isRet && hasMatch(condStrings(ctrlCondsEdge(b, s)), "0 < builtin.len(*") {
							budget = true
						}
					}
				}
			}
		}
		r.check(budget, "C22.R3", "handler:response-below-message-size-limit", w.rel(hf.Pos()), "", "the handler packs blocks without a byte budget below the network message size limit: an honest answer can be undeliverable, the requester retries the same range forever and backfill never completes")
	}
}
