package main

import (
	"fmt"
	"go/token"
	"go/types"
	"strings"

	"golang.org/x/tools/go/ssa"
)

const (
	pkgVW  = H + "/internal/validitywindow"
	nmTVW  = "(*" + pkgVW + ".TimeValidityWindow)."
	nmVERP = "(" + pkgChain + ".ValidityWindow).VerifyExpiryReplayProtection"
)

func init() {
	register(&propDef{
		ID: "C07",
		Explain: "Decides whether a comparison between the fee computed from feeManager.Fee(units) and the signed Base.MaxFee guards the balance check/deduction " +
			"on every path (PreExecute is the common gate of admission, building and verification; Execute inherits it through C03.R4), and that MaxFee is part of " +
			"the signed body. This is the necessary structure for 'never charged more than the signed maximum'; amounts themselves are not computed.",
		Run: c07,
	})
	register(&propDef{
		ID: "C09",
		Explain: "Decides that every inclusion path consults the replay window: verification in normal operation calls VerifyExpiryReplayProtection before any " +
			"transaction executes and a failure rejects the block; the builder checks each streamed batch and skips flagged transactions before queueing; " +
			"admission rejects repeats; the window's own guards (in-block duplicates, stop/lookup/walk conditions of isRepeat, parent-fetch errors returned); " +
			"Accept evicts, records and advances the height under the window's mutex before the state is committed; the seen set and height are only touched " +
			"under that mutex; normal operation starts only once the window is complete. Not decided: correctness over fork/accept/restart histories.",
		Run: c09,
	})
	register(&propDef{
		ID: "C11",
		Explain: "Decides the exact predicates under which block verification rejects a header (height != parent+1, timestamp < parent timestamp + gap, empty-block gap, " +
			"timestamp beyond the future bound, state root != parent root), that parent height/timestamp/fee are read from the view the block executes on, that the " +
			"root check lies on every path to success, and the inductive invariant 'the timestamp stored in a block's post-state equals its header timestamp' at every " +
			"writer (verifier, builder, genesis). Not decided: sanity of the local clock.",
		Run: c11,
	})
	register(&propDef{
		ID: "C12",
		Explain: "Decides that metering is computed only with overflow-checked operators whose errors are all returned, that each dimension of the unit vector is fed by " +
			"exactly the intended sources (size; base+action+auth compute; per-key and per-chunk read/allocate/write costs over the declared keys), that Consume checks " +
			"every dimension (overflow and limit) before it commits any, storing the value it checked, under the write lock, that a transaction which does not fit stops " +
			"verification before it is fetched or queued and is skipped by the builder, and that reported consumption is read from the manager consumed into. Not decided: numeric equality of sums.",
		Run: c12,
	})
}

// ----------------------------------------------------------------------------- C07

func c07(r *Run) {
	w := r.W
	// what is charged is Fee(Units(tx)) and is what the result reports (the quantity MaxFee would have to bound)
	defer r.importRules(c03, "C03.R2", "C03.R1", "C03.R4")
	// builder and verifier pre-execute a transaction on the same kind of view (the one it then executes on): a
	// transaction the sponsor can no longer pay is skipped by the builder and invalidates a block
	defer r.importRules(c02, "C02.R4")
	// R3: the fee charged in a block is Fee(Units(tx, rules of that block)): Units keeps no memo in the transaction
	// (a memo has no key: the units of the first rule set seen would be charged under every later one)
	r.rule("C07.R3", "K3", "Transaction.Units and the fee computation write no field of the transaction (no unkeyed memo of rule-dependent values)", 2)
	for _, n := range []string{nmUnits, nmTxPreExecute} {
		if f := r.fn(w, "C07.R3", n); f != nil {
			r.forbidEffect(w, "C07.R3", short(n)+":no-memo-in-transaction", f, "store p0.* = *", "a rule-dependent value is stored in the transaction object and reused under whatever rules apply later")
		}
	}
	r.rule("C07.R1", "K5/K1", "a comparison of the computed fee with Base.MaxFee, whose exceeding edge returns an error, dominates CanDeduct/Deduct", 1)
	r.rule("C07.R2", "K10", "MaxFee is part of the signed body", 2)
	pe := r.fn(w, "C07.R1", nmTxPreExecute)
	if pe != nil {
		cds := callsNamed(pe, nmCanDeduct, nmDeduct)
		fees := callsNamed(pe, nmFee)
		if len(cds) == 0 || len(fees) == 0 {
			r.missing("C07.R1", short(nmTxPreExecute), "PreExecute no longer computes the fee and checks the balance")
		}
		for _, cd := range cds {
			// look for a branch whose condition compares (something derived from) Fee's result with a load of Base.MaxFee
			guard := false
			for _, b := range pe.Blocks {
				ifi, ok := b.Instrs[len(b.Instrs)-1].(*ssa.If)
				if !ok {
					continue
				}
				bo, ok := ifi.Cond.(*ssa.BinOp)
				if !ok {
					continue
				}
				isMax := func(v ssa.Value) bool {
					return derivesFrom(v, func(x ssa.Value) bool {
						switch y := x.(type) {
						case *ssa.FieldAddr:
							o, f := fieldOwner(y.X, y.Field)
							return o == pkgChain+".Base" && f == "MaxFee"
						case *ssa.Field:
							o, f := fieldOwner(y.X, y.Field)
							return o == pkgChain+".Base" && f == "MaxFee"
						}
						return false
					})
				}
				isFee := func(v ssa.Value) bool {
					return derivesFrom(v, func(x ssa.Value) bool { return isCallTo(x, nmFee) })
				}
				if !(isMax(bo.X) && isFee(bo.Y) || isMax(bo.Y) && isFee(bo.X)) {
					continue
				}
				// the edge on which fee > maxFee must not reach the deduction; accept either polarity as long as one edge avoids cd
				for s := 0; s < 2; s++ {
					reach, _ := pathExists(point{b.Succs[s], 0}, isInstr(cd), nil, nil)
					if !reach && dominatesI(ifi, cd) {
						guard = true
					}
				}
			}
			r.check(guard, "C07.R1", short(nmTxPreExecute), r.at(w, cd),
				"fee compared with Base.MaxFee before the balance check",
				"the fee computed by feeManager.Fee is never compared with the signed Base.MaxFee before "+short(calleeName(cd))+": a transaction is charged whatever the block's prices yield, even above its maximum fee")
		}
	}
	// MaxFee read anywhere else? (cross-reference for the report)
	// R2
	if p := w.Pkgs[pkgChain]; p != nil {
		base, _ := p.Types.Scope().Lookup("Base").(*types.TypeName)
		okTag := false
		if base != nil {
			if st, ok := base.Type().Underlying().(*types.Struct); ok {
				for i := 0; i < st.NumFields(); i++ {
					if st.Field(i).Name() == "MaxFee" && strings.Contains(st.Tag(i), `canoto:"`) && !strings.Contains(st.Tag(i), `canoto:"-"`) {
						okTag = true
					}
				}
			}
		}
		r.check(okTag, "C07.R2", "Base.MaxFee:serialized", "", "Base.MaxFee carries a canoto field tag", "Base.MaxFee is not a serialized (signed) field")
		td, _ := p.Types.Scope().Lookup("SerializeTx").(*types.TypeName)
		okBase := false
		if td != nil {
			if st, ok := td.Type().Underlying().(*types.Struct); ok {
				for i := 0; i < st.NumFields(); i++ {
					if st.Field(i).Name() == "Base" && strings.Contains(st.Tag(i), `canoto:"`) {
						okBase = true
					}
				}
			}
		}
		r.check(okBase, "C07.R2", "SerializeTx.Base:serialized", "", "Base is a serialized field of the signed transaction encoding", "Base is not part of the serialized (signed) transaction encoding")
	}
}

// ----------------------------------------------------------------------------- C09

func c09(r *Run) {
	w := r.W
	// blocks accepted while state sync runs reach the window through the syncer's forward path
	defer r.importRules(c22, "C22.R4")
	r.rule("C09.R1", "K2", "verification in normal operation checks the replay window before executing; VM passes the normal-operation flag", 4)
	r.rule("C09.R2", "K1", "builder: IsRepeat per streamed batch, error aborts the batch, flagged transactions skipped before queueing", 3)
	r.rule("C09.R3", "K6", "admission: repeats rejected with ErrDuplicateTx before PreExecute", 2)
	r.rule("C09.R4", "K6", "window guards: in-block duplicates; isRepeat stop / seen-lookup / ancestor walk; errors returned", 8)
	r.rule("C09.R5", "K1", "Accept before CommitToDB; Accept = SetMin, Add, height under mu; populate accepts oldest first", 4)
	r.rule("C09.R6", "K1", "normal operation starts only after the window is complete", 1)
	r.rule("C09.R7", "K4", "seen / lastAcceptedBlockHeight under TimeValidityWindow.mu", 6)

	// R1
	pe := r.fn(w, "C09.R1", nmProcExecute)
	if pe != nil {
		verp := callsNamed(pe, nmVERP)
		ets := callsNamed(pe, nmExecTxs)
		if len(verp) == 1 && len(ets) == 1 {
			v, e := verp[0], ets[0]
			es := findEffects(pe, "call (chain.ValidityWindow).VerifyExpiryReplayProtection(p0.validityWindow, *, p3)")
			r.check(len(es) == 1 && len(es[0].Conds()) > 0 && hasStr(es[0].Conds(), "p4"), "C09.R1", "Execute:VERP-when-normal-op", r.at(w, v), "called on the executed block when isNormalOp", "VerifyExpiryReplayProtection is not called on the block under exactly the isNormalOp condition")
			// no path to executeTxs that takes the isNormalOp edge and avoids a successful VERP
			blocked := map[edgeKey]bool{}
			for _, b := range pe.Blocks {
				if ifi, ok := b.Instrs[len(b.Instrs)-1].(*ssa.If); ok && predString(ifi.Cond, true) == "p4" {
					blocked[edgeKey{b.Index, 1}] = true
				}
			}
			found, _ := pathExists(entry(pe), isInstr(e), isInstr(v), blocked)
			succ, has := failKnownEdges(v)
			found2 := true
			if has {
				found2, _ = pathExists(after(v), isInstr(e), isInstr(v), succ)
			}
			r.check(len(blocked) > 0 && !found && !found2, "C09.R1", "Execute:VERP-success-before-executeTxs", r.at(w, e), "in normal operation executeTxs is reachable only after VERP returned nil", "executeTxs is reachable in normal operation without a successful replay-protection check")
			okk := false
			for _, o := range returnOutcomes(pe) {
				if hasStr(o.Sentinels, "chain.ErrDuplicateTx") && hasMatch(o.Conds, "(chain.ValidityWindow).VerifyExpiryReplayProtection(*) != nil") {
					okk = true
				}
			}
			r.check(okk, "C09.R1", "Execute:VERP-failure-returns-ErrDuplicateTx", r.at(w, v), "", "a replay-protection failure does not return an error wrapping ErrDuplicateTx")
		} else {
			r.missing("C09.R1", "Execute:VERP", "VerifyExpiryReplayProtection / executeTxs call not found in Processor.Execute")
		}
	}
	vb := r.fn(w, "C09.R1", "(*"+H+"/vm.VM).VerifyBlock")
	if vb != nil {
		es := findEffects(vb, "call (*chain.Chain).Execute(*")
		const nop = "(*sync/atomic.Bool).Load(p0.normalOp)"
		okF, okS := false, false
		if len(es) == 1 {
			args := callArgs(es[0].Ins.(ssa.CallInstruction))
			flag := args[len(args)-1]
			switch x := flag.(type) {
			case *ssa.Phi:
				okF = true
				for i, e := range x.Edges {
					switch term(e) {
					case nop:
					case "true":
						// the forced check applies to undecided blocks once the sync client started
						pred := x.Block().Preds[i]
						si := 0
						for k, sx := range pred.Succs {
							if sx == x.Block() {
								si = k
							}
						}
						cs := condStrings(ctrlCondsEdge(pred, si))
						okS = hasMatch(cs, "(*statesync.Client).Started(p0.SyncClient)") && hasMatch(cs, "(*chainindex.ChainIndex).GetLastAcceptedHeight(p0.chainStore, *)#0 < p3.StatelessBlock.Block.Hght")
						okF = okF && okS
					default:
						okF = false
					}
				}
			default:
				okF = term(flag) == nop
			}
		}
		r.check(okF, "C09.R1", "VM.VerifyBlock:passes-normalOp", w.rel(vb.Pos()), "", "VM.VerifyBlock does not pass vm.normalOp.Load() (or true for undecided blocks during the state-sync hand-over) as the normal-operation flag")
		r.check(okS, "C09.R1", "VM.VerifyBlock:undecided-blocks-checked-at-sync-finish", w.rel(vb.Pos()), "", "blocks above the last accepted height that are re-verified when state sync finishes (normal operation not yet switched on) are executed without the replay check: a processing block repeating an accepted transaction is verified")
	}

	// R2
	bb := r.fn(w, "C09.R2", nmBuildBlock)
	bsites := runSites(w, nmBuildBlock)
	if bb != nil && len(bsites) == 1 {
		ir := callsNamed(bb, "("+pkgChain+".ValidityWindow).IsRepeat")
		if len(ir) == 1 {
			run := bsites[0].call
			r.successGuards(w, "C09.R2", "BuildBlock:IsRepeat-success-before-Run", ir[0], run)
			a := callArgs(ir[0])
			r.check(glob("(chain.Mempool).Stream(*", term(a[4])) && term(a[2]) == "p3.ExecutionBlock", "C09.R2", "BuildBlock:IsRepeat(parent, streamed batch)", r.at(w, ir[0]), "", "IsRepeat is not applied to the streamed batch on the parent block: "+strings.Join(argTerms(ir[0]), " | "))
			// same loop (per batch)
			h1, _ := innermostLoop(ir[0].Block())
			r.check(h1 != nil, "C09.R2", "BuildBlock:IsRepeat-per-batch", r.at(w, ir[0]), "inside the streaming loop", "IsRepeat is not evaluated per streamed batch")
			// dup.Contains(i) => continue dominates Run
			okk := false
			for _, c := range condStrings(ctrlConds(run.Block())) {
				if glob("!(ago/utils/set.Bits).Contains((chain.ValidityWindow).IsRepeat(*)#0, (1 + phi(-1, ↺)))", c) {
					okk = true
				}
			}
			r.check(okk, "C09.R2", "BuildBlock:flagged-tx-skipped", r.at(w, run), "e.Run only when !dup.Contains(i)", "a transaction flagged by IsRepeat can still be queued for execution")
			// the tx queued is txs[i]
			r.check(glob("(chain.Mempool).Stream(*)[(1 + phi(-1, ↺))]", term(outerValue(firstFreeLoad(bsites[0].lit, "tx")))), "C09.R2", "BuildBlock:index-agreement", r.at(w, run), "", "the transaction queued is not the batch element whose index was tested against the duplicate set")
		} else {
			r.missing("C09.R2", "BuildBlock:IsRepeat", "IsRepeat call not found in BuildBlock")
		}
	}

	// R3
	px := r.fn(w, "C09.R3", "(*"+pkgChain+".PreExecutor).PreExecute")
	if px != nil {
		r.guardTable(w, "C09.R3", px, []guardRow{{Preds: []string{"0 < (ago/utils/set.Bits).BitLen((chain.ValidityWindow).IsRepeat(p0.validityWindow, p1, p2, *, [p4])#0)"}, Sentinel: "chain.ErrDuplicateTx", Global: true, Label: "repeat-rejected"}})
		ir := callsNamed(px, "("+pkgChain+".ValidityWindow).IsRepeat")
		tp := callsNamed(px, nmTxPreExecute)
		if len(ir) == 1 && len(tp) == 1 {
			r.successGuards(w, "C09.R3", "PreExecutor:IsRepeat-before-PreExecute", ir[0], tp[0])
		}
	}

	// R4
	verp := r.fn(w, "C09.R4", nmTVW+"VerifyExpiryReplayProtection")
	if verp != nil {
		r.guardTable(w, "C09.R4", verp, []guardRow{
			{Preds: []string{"(*ago/utils/set.Set).Contains(*, (internal/emap.Item).GetID(*))"}, Sentinel: "internal/validitywindow.ErrDuplicateContainer", Label: "in-block-duplicate"},
			{Preds: []string{"0 < (ago/utils/set.Bits).Len((*internal/validitywindow.TimeValidityWindow).isRepeat(*)#0)"}, Sentinel: "internal/validitywindow.ErrDuplicateContainer", Label: "ancestor-duplicate"},
		})
		ir := callsNamed(verp, nmTVW+"isRepeat")
		if len(ir) == 1 {
			a := argTerms(ir[0])
			okk := len(a) == 6 && glob("(internal/validitywindow.ChainIndex).GetExecutionBlock(p0.chainIndex, *, (internal/validitywindow.*).GetParent(p2))#0", a[2]) &&
				glob("(*internal/validitywindow.TimeValidityWindow).calculateOldestAllowed(p0, (internal/validitywindow.*).GetTimestamp(p2))", a[3]) &&
				glob("(internal/validitywindow.*).GetContainers(p2)", a[4]) && a[5] == "true"
			r.check(okk, "C09.R4", "VERP:isRepeat(parent, oldest(block ts), block containers, stop)", r.at(w, ir[0]), "", "isRepeat is not applied to (parent of the block, oldestAllowed(block timestamp), the block's containers, stop=true): "+strings.Join(a, " | "))
			r.failureLeadsToErrorReturn(w, "C09.R4", "VERP:isRepeat-error-returned", ir[0])
		}
		for _, c := range callsNamed(verp, "("+pkgVW+".ChainIndex).GetExecutionBlock") {
			r.failureLeadsToErrorReturn(w, "C09.R4", "VERP:parent-fetch-error-returned", c)
		}
		// in-block loop visits every container
		h := findIndexLoopOver(verp, "(internal/validitywindow.*).GetContainers(p2)")
		r.check(h != nil && loopExitsOnlyByReturnErr(h), "C09.R4", "VERP:every-container", w.rel(verp.Pos()), "", "the in-block duplicate loop does not visit every container")
		// the early success exit is only for already-accepted heights
		okk := false
		for _, o := range returnOutcomes(verp) {
			if hasStr(o.Sentinels, "nil") && len(o.Conds) == 1 && glob("(internal/validitywindow.*).GetHeight(p2) <= p0.lastAcceptedBlockHeight", o.Conds[0]) {
				okk = true
			}
		}
		r.check(okk, "C09.R4", "VERP:early-exit-only-for-accepted-heights", w.rel(verp.Pos()), "", "the early nil return is not exactly 'height <= lastAcceptedBlockHeight'")
	}
	isr := r.fn(w, "C09.R4", nmTVW+"isRepeat")
	if isr != nil {
		EB := "(internal/validitywindow.*)."
		anc := "phi(*)"
		_ = anc
		var stopOK, seenOK, walkOK, errOK bool
		for _, o := range returnOutcomes(isr) {
			cs := strings.Join(o.Conds, " ; ")
			v0 := ""
			if len(o.Vals) > 0 {
				v0 = term(o.Vals[0])
			}
			if hasMatch(o.Conds, EB+"GetTimestamp(*) < p3") && hasStr(o.Sentinels, "nil") && !strings.Contains(v0, "Contains(") {
				stopOK = true
			}
			if strings.HasPrefix(v0, "(*internal/emap.EMap).Contains(p0.seen, p4, ") && hasMatch(o.Conds, "p3 <= "+EB+"GetTimestamp(*)") {
				// reached via height <= lastAccepted or height == 0
				seenOK = true
			}
			_ = cs
			if hasStr(o.Sentinels, "err:(internal/validitywindow.ChainIndex).GetExecutionBlock") || strings.Contains(strings.Join(o.Sentinels, ","), "GetExecutionBlock") {
				errOK = true
			}
		}
		// seen lookup edge conditions
		for _, e := range findEffects(isr, "call (*internal/emap.EMap).Contains(p0.seen, p4, *, p5)") {
			cs := e.Conds()
			if hasMatch(cs, "p3 <= "+EB+"GetTimestamp(*)") {
				seenOK = seenOK && true
			}
		}
		seenEdges := 0
		for _, b := range isr.Blocks {
			if ifi, ok := b.Instrs[len(b.Instrs)-1].(*ssa.If); ok {
				ps := predString(ifi.Cond, true)
				if glob(EB+"GetHeight(*) <= p0.lastAcceptedBlockHeight", ps) || glob(EB+"GetHeight(*) == 0", ps) {
					seenEdges++
				}
			}
		}
		for _, e := range findEffects(isr, "call "+EB+"Contains(*, (*).GetID(*))") {
			if hasMatch(e.Conds(), "!(ago/utils/set.Bits).Contains(*, *)") {
				walkOK = true
			}
		}
		r.check(stopOK, "C09.R4", "isRepeat:stop-iff-ancestor-older-than-window", w.rel(isr.Pos()), "", "isRepeat does not stop exactly when the ancestor's timestamp is below oldestAllowed")
		r.check(seenOK && seenEdges == 2, "C09.R4", "isRepeat:seen-set-iff-accepted-or-genesis", w.rel(isr.Pos()), "", "the seen-set lookup is not taken exactly for heights <= lastAccepted or height 0")
		r.check(walkOK, "C09.R4", "isRepeat:ancestor.Contains-per-container", w.rel(isr.Pos()), "", "processing ancestors are not searched for every not-yet-marked container")
		r.check(errOK, "C09.R4", "isRepeat:parent-fetch-error-returned", w.rel(isr.Pos()), "", "an error fetching an ancestor is not returned")
		// step to the parent
		r.requireEffect(w, "C09.R4", "isRepeat:step-to-parent", isr, "call (internal/validitywindow.ChainIndex).GetExecutionBlock(p0.chainIndex, p1, "+EB+"GetParent(*))")
		// marker.Add(i) under ancestor.Contains
		r.requireEffect(w, "C09.R4", "isRepeat:mark-on-hit", isr, "call (ago/utils/set.Bits).Add(*", EB+"Contains(*, (*).GetID(*))")
	}
	// IsRepeat wrapper
	irf := r.fn(w, "C09.R4", nmTVW+"IsRepeat")
	if irf != nil {
		es := findEffects(irf, "call (*internal/validitywindow.TimeValidityWindow).isRepeat(p0, *, p2, (*internal/validitywindow.TimeValidityWindow).calculateOldestAllowed(p0, p3), p4, false)")
		r.check(len(es) == 1, "C09.R4", "IsRepeat:delegates", w.rel(irf.Pos()), "", "IsRepeat does not delegate to isRepeat(parent, oldestAllowed(currentTimestamp), containers, stop=false)")
	}
	coa := r.fn(w, "C09.R4", nmTVW+"calculateOldestAllowed")
	if coa != nil {
		outs := returnOutcomes(coa)
		got := ""
		if len(outs) == 1 && len(outs[0].Vals) == 1 {
			got = term(outs[0].Vals[0])
		}
		r.check(got == "builtin.max(0, (p1 - dyn:p0.getTimeValidityWindow(p1)))", "C09.R4", "calculateOldestAllowed", w.rel(coa.Pos()), got, "oldestAllowed is not max(0, timestamp - validityWindow(timestamp)): "+got)
	}

	// R5
	acc := r.fn(w, "C09.R5", nmTVW+"Accept")
	if acc != nil {
		sm := findEffects(acc, "call (*internal/emap.EMap).SetMin(p0.seen, (internal/validitywindow.*).GetTimestamp(p1))")
		ad := findEffects(acc, "call (*internal/emap.EMap).Add(p0.seen, (internal/validitywindow.*).GetContainers(p1))")
		hs := findEffects(acc, "store p0.lastAcceptedBlockHeight = (internal/validitywindow.*).GetHeight(p1)")
		r.check(len(sm) == 1 && len(ad) == 1 && len(hs) == 1 && len(sm[0].Conds()) == 0 && len(ad[0].Conds()) == 0 && len(hs[0].Conds()) == 0, "C09.R5", "Accept:SetMin+Add+height", w.rel(acc.Pos()), "all three unconditional", "Accept does not unconditionally evict (SetMin(ts)), record the containers and advance the height")
		if len(ad) == 1 && len(hs) == 1 {
			// Add and the height update happen in one critical section: no Unlock between them
			unl, _ := pathExists(after(ad[0].Ins), isInstr(hs[0].Ins), func(i ssa.Instruction) bool {
				if ci, ok := i.(ssa.CallInstruction); ok {
					if _, isDefer := i.(*ssa.Defer); isDefer {
						return false
					}
					_, op := lockOp(ci)
					return op == "unlock"
				}
				return false
			}, nil)
			r.check(unl, "C09.R5", "Accept:one-critical-section", r.at(w, ad[0].Ins), "recording and height update are atomic w.r.t. verification", "the containers are recorded and the height advanced in different critical sections (a concurrent verification can miss the block)")
		}
	}
	ab := r.fn(w, "C09.R5", "(*"+pkgChain+".Accepter).AcceptBlock")
	if ab != nil {
		va := findEffects(ab, "call (chain.ValidityWindow).Accept(p0.validityWindow, *)")
		cd := findEffects(ab, "call (ago/x/merkledb.View).CommitToDB(*")
		if len(va) == 1 && len(cd) == 1 {
			r.requireOrder(w, "C09.R5", "AcceptBlock:window-before-CommitToDB", va[0].Ins, cd[0].Ins)
		} else {
			r.missing("C09.R5", "AcceptBlock:window-before-CommitToDB", "validityWindow.Accept / View.CommitToDB not found in Accepter.AcceptBlock")
		}
	}
	pop := r.fn(w, "C09.R5", nmTVW+"populate")
	if pop != nil {
		rev := findEffects(pop, "call slices.Reverse(*")
		accs := findEffects(pop, "call (*internal/validitywindow.TimeValidityWindow).Accept(p0, *")
		if len(rev) == 1 && len(accs) == 1 {
			r.requireOrder(w, "C09.R5", "populate:oldest-first", rev[0].Ins, accs[0].Ins)
		} else {
			r.missing("C09.R5", "populate:oldest-first", "populate does not reverse the collected ancestors before accepting them")
		}
	}

	// R6
	sn := r.fn(w, "C09.R6", "(*"+H+"/vm.VM).startNormalOp")
	if sn != nil {
		es := findEffects(sn, "call (*sync/atomic.Bool).Store(p0.normalOp, true)")
		if len(es) == 1 {
			r.check(hasMatch(es[0].Conds(), "(*internal/validitywindow.TimeValidityWindow).Complete(*)") || hasMatch(es[0].Conds(), "(*).Complete(*)"), "C09.R6", "startNormalOp:requires-complete-window", r.at(w, es[0].Ins), "", "normalOp is set although the validity window was not reported complete: {"+strings.Join(es[0].Conds(), " ; ")+"}")
		} else {
			r.missing("C09.R6", "startNormalOp:requires-complete-window", "normalOp.Store(true) not found in startNormalOp")
		}
	}

	// R8: the builder's source of transactions never hands one out twice within a build
	r.rule("C09.R8", "K7", "mempool streaming marks every handed-out transaction until the build finishes", 4)
	r.streamMarks("C09.R8")

	// R7
	r.guardedBy(w, lockSpec{Rule: "C09.R7", Owner: pkgVW + ".TimeValidityWindow", Fields: []string{"seen", "lastAcceptedBlockHeight"}, Mutex: "mu", Pkgs: []string{pkgVW},
		ExemptFn: map[string]string{pkgVW + ".NewTimeValidityWindow": "constructor: the window is not yet shared"}, MinSites: 6})
}

// firstFreeLoad returns a load of the free variable named name in lit.
func firstFreeLoad(lit *ssa.Function, name string) ssa.Value {
	var out ssa.Value
	eachInstr(lit, func(i ssa.Instruction) {
		if u, ok := i.(*ssa.UnOp); ok && out == nil && u.Op == token.MUL {
			if fv, ok := u.X.(*ssa.FreeVar); ok && fv.Name() == name {
				out = u
			}
		}
	})
	if out == nil {
		for _, fv := range lit.FreeVars {
			if fv.Name() == name {
				return fv
			}
		}
	}
	return out
}

// ----------------------------------------------------------------------------- C11

func c11(r *Run) {
	w := r.W
	// the built block's state timestamp and header timestamp come from one clock reading
	// a locally built block counts as verified: the builder's own gap guards are the verification of those blocks
	defer r.importRules(c02, "C02.R2", "C02.R5")
	r.rule("C11.R1", "K6", "createBlockContext predicates; parent metadata read from the executed-on view; read/parse errors returned", 8)
	r.rule("C11.R2", "K6/K2", "future bound precedes all work; parent-root check on every path to success", 3)
	r.rule("C11.R3", "K5", "the timestamp written to a block's post-state is that block's header timestamp, at every writer", 3)

	cbc := r.fn(w, "C11.R1", "(*"+pkgChain+".Processor).createBlockContext")
	if cbc != nil {
		ph := "ago/database.ParseUInt64((state.Immutable).GetValue(p2, *, chain.HeightKey((chain.MetadataManager).HeightPrefix(p0.metadataManager)))#0)#0"
		pt := "int64(ago/database.ParseUInt64((state.Immutable).GetValue(p2, *, chain.TimestampKey((chain.MetadataManager).TimestampPrefix(p0.metadataManager)))#0)#0)"
		r.guardTable(w, "C11.R1", cbc, []guardRow{
			{Preds: []string{"(1 + " + ph + ") != p3.StatelessBlock.Block.Hght"}, Sentinel: "chain.ErrInvalidBlockHeight", Global: true, Label: "height"},
			{Preds: []string{"p3.StatelessBlock.Block.Tmstmp < ((chain.Rules).GetMinBlockGap(p4) + " + pt + ")"}, Sentinel: "chain.ErrTimestampTooEarly", Global: true, Label: "min-gap"},
			{Preds: []string{"0 == builtin.len(p3.StatelessBlock.Block.Txs)", "p3.StatelessBlock.Block.Tmstmp < ((chain.Rules).GetMinEmptyBlockGap(p4) + " + pt + ")"}, Sentinel: "chain.ErrTimestampTooEarlyEmptyBlock", Label: "min-empty-gap"},
		})
		for _, c := range callsNamed(cbc, "("+H+"/state.Immutable).GetValue", "github.com/ava-labs/avalanchego/database.ParseUInt64") {
			r.failureLeadsToErrorReturn(w, "C11.R1", "createBlockContext:"+short(calleeName(c))+"-error-returned", c)
		}
	}
	pe := r.fn(w, "C11.R2", nmProcExecute)
	if pe != nil {
		r.guardTable(w, "C11.R2", pe, []guardRow{{Preds: []string{"(time.Time).UnixMilli((time.Time).Add(time.Now(), 1000000000)) < p3.StatelessBlock.Block.Tmstmp"}, Sentinel: "chain.ErrTimestampTooLate", Global: true, Label: "future-bound"}})
		// precedes all work: every call to p.* helper is behind the false edge
		fb := findEffects(pe, "call (time.Time).UnixMilli((time.Time).Add(time.Now(), 1000000000))")
		if len(fb) == 1 {
			okk := true
			for _, c := range callsTo(pe, func(n string) bool { return strings.HasPrefix(n, "(*"+pkgChain+".Processor).") }) {
				if !dominatesI(fb[0].Ins, c) {
					okk = false
				}
			}
			r.check(okk, "C11.R2", "Execute:future-bound-first", r.at(w, fb[0].Ins), "", "work is done before the future-bound check")
		}
		// createBlockContext and verifyParentRoot on every path to success, with the executed-on view and the header's root
		vpr := callsNamed(pe, "(*"+pkgChain+".Processor).verifyParentRoot")
		cb := callsNamed(pe, "(*"+pkgChain+".Processor).createBlockContext")
		if len(vpr) == 1 && len(cb) == 1 {
			a := argTerms(vpr[0])
			r.check(len(a) == 4 && a[2] == "p2" && a[3] == "p3.StatelessBlock.Block.StateRoot", "C11.R2", "Execute:verifyParentRoot(parentView, header root)", r.at(w, vpr[0]), "", "verifyParentRoot is not applied to (parentView, block.StateRoot): "+strings.Join(a, " | "))
			ca := argTerms(cb[0])
			r.check(len(ca) == 5 && ca[2] == "p2" && ca[3] == "p3", "C11.R2", "Execute:createBlockContext(parentView, block)", r.at(w, cb[0]), "", "createBlockContext is not applied to (parentView, block)")
			for _, o := range returnOutcomes(pe) {
				if hasStr(o.Sentinels, "nil") {
					r.check(onlyViaSuccess(vpr[0], o.Ret, true) && onlyViaSuccess(cb[0], o.Ret, true), "C11.R2", "Execute:root-and-header-checks-before-success", w.rel(instrPos(o.Ret)), "", "a success return of Execute is reachable without verifyParentRoot and createBlockContext having succeeded")
				}
			}
			// executeTxs runs on the same parent view
			for _, c := range callsNamed(pe, nmExecTxs) {
				r.check(term(c.Common().Args[3]) == "p2", "C11.R2", "Execute:executeTxs-on-parentView", r.at(w, c), "", "transactions execute on a different view than the one whose metadata was checked")
			}
		} else {
			r.missing("C11.R2", "Execute:verifyParentRoot", "verifyParentRoot / createBlockContext call not found")
		}
	}
	vprf := r.fn(w, "C11.R2", "(*"+pkgChain+".Processor).verifyParentRoot")
	if vprf != nil {
		r.guardTable(w, "C11.R2", vprf, []guardRow{{Preds: []string{"(ago/x/merkledb.MerkleRootGetter).GetMerkleRoot(p2, *)#0 != p3"}, Sentinel: "chain.ErrStateRootMismatch", Global: true, Label: "root-mismatch"}})
	}

	// R3: writers of TimestampKey vs header timestamp
	// verifier: blockCtx.timestamp <- block.Tmstmp (C02.R1 checks the store); builder: same SSA value (C02.R2); genesis: constant vs header constant
	if cbc != nil {
		es := findEffects(cbc, "store alloc(complit).timestamp = p3.StatelessBlock.Block.Tmstmp")
		r.check(len(es) == 1, "C11.R3", "verifier:state-timestamp=header-timestamp", w.rel(cbc.Pos()), "", "the verifier's state timestamp is not the header timestamp")
	}
	bb := w.Fn(nmBuildBlock)
	if bb != nil {
		r.saw(bb)
		nsb := callsNamed(bb, pkgChain+".NewStatelessBlock")
		okk := false
		if len(nsb) == 1 {
			ht := nsb[0].Common().Args[1]
			for _, c := range callsNamed(bb, nmView+"Insert") {
				a := callArgs(c)
				if glob("chain.TimestampKey(*", term(a[2])) && strings.Contains(term(a[3]), "uint64("+term(ht)+")") && sameOuter(ht, ht) {
					okk = true
				}
			}
		}
		r.check(okk, "C11.R3", "builder:state-timestamp=header-timestamp", w.rel(bb.Pos()), "", "the builder's state timestamp is not the header timestamp")
	}
	gc := r.fn(w, "C11.R3", pkgChain+".NewGenesisCommit")
	if gc != nil {
		nsb := callsNamed(gc, pkgChain+".NewStatelessBlock")
		st := ""
		for _, c := range callsNamed(gc, nmView+"Insert") {
			a := callArgs(c)
			if glob("chain.TimestampKey(*", term(a[2])) {
				st = term(a[3])
			}
		}
		if len(nsb) == 1 && st != "" {
			ht := term(nsb[0].Common().Args[1])
			agree := strings.Contains(st, "nil, "+ht+")") || strings.Contains(st, "uint64("+ht+")")
			// alternatively the consensus verify path compares header timestamps directly
			alt := false
			if vb := w.Fn("(*" + H + "/vm.VM).VerifyBlock"); vb != nil {
				for _, b := range vb.Blocks {
					if ifi, ok := b.Instrs[len(b.Instrs)-1].(*ssa.If); ok {
						ps := predString(ifi.Cond, true)
						if strings.Contains(ps, ".Tmstmp") && strings.Contains(ps, " < ") {
							alt = true
						}
					}
				}
			}
			r.check(agree || alt, "C11.R3", "genesis:state-timestamp=header-timestamp", r.at(w, nsb[0]),
				"", "genesis stores timestamp "+st+" in state but its header carries "+ht+"; children are checked against the state value only, so block 1 may carry any timestamp >= the gap, i.e. earlier than the genesis header")
		} else {
			r.missing("C11.R3", "genesis:state-timestamp=header-timestamp", "genesis timestamp write or header construction not found")
		}
	}
}

// ----------------------------------------------------------------------------- C12

func c12(r *Run) {
	w := r.W
	// builder side of R4: a transaction joins the block only after Consume accepted it
	defer r.importRules(c02, "C02.R3")
	// units are metered under the rules given on each call (no memo across rule sets)
	defer r.importRules(c07, "C07.R3")
	r.rule("C12.R1", "K8", "Units/EstimateUnits accumulate only through Uint64Operator; every Value() error returns; operator methods use checked math and keep the first error", 10)
	r.rule("C12.R2", "K5", "dimension table of the unit vector", 6)
	r.rule("C12.R3", "K1/K6", "Consume: complete check loop (overflow, limit) precedes every store; stored value is the checked value; write lock held", 7)
	r.rule("C12.R4", "K1", "a transaction that does not fit stops verification before fetch/queue; builder skips it", 3)
	r.rule("C12.R5", "K5", "reported consumption read from the manager consumed into", 2)

	opPkg := H + "/internal/math"
	un := r.fn(w, "C12.R1", nmUnits)
	for _, f := range []*ssa.Function{un} {
		if f == nil {
			continue
		}
		name := short(fnName(f))
		// no raw + * on uint64
		bad := ""
		for _, b := range binops(f, token.ADD, token.MUL, token.SUB, token.SHL) {
			if bt, ok := b.Type().Underlying().(*types.Basic); ok && bt.Kind() == types.Uint64 {
				bad = term(b) + " at " + w.rel(b.Pos())
			}
		}
		r.check(bad == "", "C12.R1", name+":no-raw-uint64-arithmetic", w.rel(f.Pos()), "", "unchecked 64-bit arithmetic in metering: "+bad)
		vals := callsNamed(f, "(*"+opPkg+".Uint64Operator).Value")
		// accumulators may live in helpers that did not exist on the reference tree (whose errors Units propagates:
		// checked below for the helper call itself)
		nVals := len(vals)
		for _, c := range callsTo(f, func(n string) bool { return strings.HasPrefix(n, "(*"+pkgChain+".") || strings.HasPrefix(n, pkgChain+".") }) {
			if g := transparentCallee(c); g != nil {
				r.saw(g)
				gv := callsNamed(g, "(*"+opPkg+".Uint64Operator).Value")
				nVals += len(gv)
				for _, v := range gv {
					r.failureLeadsToErrorReturn(w, "C12.R1", name+":Value-error-returned", v)
				}
				if len(gv) > 0 {
					r.failureLeadsToErrorReturn(w, "C12.R1", name+":Value-error-returned", c)
				}
				for _, b := range binops(g, token.ADD, token.MUL, token.SUB, token.SHL) {
					if bt, ok := b.Type().Underlying().(*types.Basic); ok && bt.Kind() == types.Uint64 {
						r.bad("C12.R1", name+":no-raw-uint64-arithmetic", r.at(w, b), "unchecked 64-bit arithmetic in metering: "+term(b))
					}
				}
			}
		}
		r.check(nVals >= 4, "C12.R1", name+":four-accumulators", w.rel(f.Pos()), fmt.Sprint(nVals), "fewer than four checked accumulators (compute, read, allocate, write)")
		for _, v := range vals {
			r.failureLeadsToErrorReturn(w, "C12.R1", name+":Value-error-returned", v)
		}
	}
	for _, m := range []string{"Add", "Mul", "MulAdd"} {
		f := r.fn(w, "C12.R1", "(*"+opPkg+".Uint64Operator)."+m)
		if f == nil {
			continue
		}
		bad := ""
		for _, b := range binops(f, token.ADD, token.MUL, token.SUB) {
			bad = term(b)
		}
		// result stored to o.v comes from a checked call, on its nil edge; error stored to o.err
		okk := bad == ""
		stv := findEffects(f, "store p0.v = *")
		if len(stv) == 0 {
			okk = false
		}
		for _, e := range stv {
			// decided on the (lifted) effect's value term and conditions, so that the store may sit in a helper
			val := strings.TrimPrefix(e.Str, "store p0.v = ")
			if !strings.HasPrefix(val, "ago/utils/math.") || !strings.HasSuffix(val, "#0") {
				okk = false
				continue
			}
			errT := strings.TrimSuffix(val, "#0") + "#1"
			if !hasStr(e.Conds(), errT+" == nil") && !hasStr(e.Conds(), "nil == "+errT) {
				okk = false
			}
			if !hasStr(e.Conds(), "nil == p0.err") && !hasStr(e.Conds(), "p0.err == nil") {
				okk = false
			}
		}
		nErr := len(findEffects(f, "store p0.err = *"))
		r.check(okk && nErr >= 1, "C12.R1", "Uint64Operator."+m+":checked-and-sticky", w.rel(f.Pos()), "", "Uint64Operator."+m+" does not compute with checked math on the no-error path and record the error")
	}
	vf := r.fn(w, "C12.R1", "(*"+opPkg+".Uint64Operator).Value")
	if vf != nil {
		outs := returnOutcomes(vf)
		r.check(len(outs) == 1 && len(outs[0].Vals) == 2 && term(outs[0].Vals[0]) == "p0.v" && term(outs[0].Vals[1]) == "p0.err", "C12.R1", "Uint64Operator.Value:returns-(v,err)", w.rel(vf.Pos()), "", "Value does not return (o.v, o.err)")
	}

	// R2: dimension table
	if un != nil {
		var lit []ssa.Value
		for _, o := range returnOutcomes(un) {
			if hasStr(o.Sentinels, "nil") && len(o.Vals) == 2 {
				// o.Vals[0] is a load of the array literal alloc
				if ld, ok := o.Vals[0].(*ssa.UnOp); ok {
					if al, ok := ld.X.(*ssa.Alloc); ok {
						elems := map[int64]ssa.Value{}
						for _, ref := range *al.Referrers() {
							if ia, ok := ref.(*ssa.IndexAddr); ok {
								if c, ok := ia.Index.(*ssa.Const); ok {
									for _, rr := range *ia.Referrers() {
										if st, ok := rr.(*ssa.Store); ok {
											elems[c.Int64()] = st.Val
										}
									}
								}
							}
						}
						for i := int64(0); i < int64(len(elems)); i++ {
							lit = append(lit, elems[i])
						}
					}
				}
			}
		}
		dimIdx := map[string]int64{}
		if p := w.Pkgs[H+"/fees"]; p != nil {
			for _, n := range []string{"Bandwidth", "Compute", "StorageRead", "StorageAllocate", "StorageWrite"} {
				if c, ok := p.Types.Scope().Lookup(n).(*types.Const); ok {
					v, _ := constantInt(c)
					dimIdx[n] = v
				}
			}
		}
		if len(lit) != 5 || len(dimIdx) != 5 {
			r.missing("C12.R2", "Units:dimension-literal", "the returned fees.Dimensions literal with five elements was not found")
		} else {
			// which accumulator feeds which element
			accOf := func(v ssa.Value) *ssa.Call {
				if ex, ok := strip(v).(*ssa.Extract); ok {
					if c, ok := ex.Tuple.(*ssa.Call); ok && calleeName(c) == "(*"+opPkg+".Uint64Operator).Value" {
						if nc, ok := c.Call.Args[0].(*ssa.Call); ok {
							return nc
						}
					}
				}
				return nil
			}
			// an element may also be a result of a helper that did not exist on the reference tree: follow the value
			// of its success return, rendering terms with the call's arguments substituted
			var feedsOf func(v ssa.Value, depth int) []string
			feeds := func(acc *ssa.Call) []string {
				var out []string
				if acc == nil {
					return out
				}
				out = append(out, "init:"+term(acc.Call.Args[0]))
				for _, ref := range *acc.Referrers() {
					if ci, ok := ref.(ssa.CallInstruction); ok {
						n := calleeName(ci)
						if strings.HasSuffix(n, ".Add") || strings.HasSuffix(n, ".MulAdd") || strings.HasSuffix(n, ".Mul") {
							var as []string
							for _, a := range ci.Common().Args[1:] {
								as = append(as, term(a))
							}
							out = append(out, n[strings.LastIndex(n, ".")+1:]+":"+strings.Join(as, "*"))
						}
					}
				}
				return out
			}
			feedsOf = func(v ssa.Value, depth int) []string {
				if a := accOf(v); a != nil {
					return feeds(a)
				}
				ex, ok := strip(v).(*ssa.Extract)
				if !ok || depth >= maxLiftDepth {
					return nil
				}
				c, ok := ex.Tuple.(*ssa.Call)
				if !ok {
					return nil
				}
				rv, callee := inlinedResult(c, ex.Index)
				if rv == nil {
					return nil
				}
				var out []string
				withCallEnv(c, callee, func() { out = feedsOf(rv, depth+1) })
				return out
			}
			bw := term(lit[dimIdx["Bandwidth"]])
			r.check(bw == "uint64((*chain.Transaction).Size(p0))", "C12.R2", "Units:Bandwidth=Size", w.rel(un.Pos()), bw, "bandwidth units are not the transaction's encoded size: "+bw)
			cf := strings.Join(feedsOf(lit[dimIdx["Compute"]], 0), " ; ")
			r.check(cf == "init:(chain.Rules).GetBaseComputeUnits(p2) ; Add:(chain.Action).ComputeUnits(p0.TransactionData.Actions[(1 + phi(-1, ↺))], p2) ; Add:(chain.Auth).ComputeUnits(p0.Auth, p2)", "C12.R2", "Units:Compute=base+actions+auth", w.rel(un.Pos()), cf, "compute units are not base + every action + auth: "+cf)
			for _, d := range []struct{ dim, key, val string }{
				{"StorageRead", "GetStorageKeyReadUnits", "GetStorageValueReadUnits"},
				{"StorageAllocate", "GetStorageKeyAllocateUnits", "GetStorageValueAllocateUnits"},
				{"StorageWrite", "GetStorageKeyWriteUnits", "GetStorageValueWriteUnits"},
			} {
				sf := strings.Join(feedsOf(lit[dimIdx[d.dim]], 0), " ; ")
				want := "init:0 ; Add:(chain.Rules)." + d.key + "(p2) ; MulAdd:uint64(keys.MaxChunks([]byte(next(range((*chain.Transaction).StateKeys(p0, p1)#0))#1))#0)*(chain.Rules)." + d.val + "(p2)"
				r.check(sf == want, "C12.R2", "Units:"+d.dim, w.rel(un.Pos()), sf, d.dim+" units are not (per declared key) key cost + chunks(key) * value cost: "+sf)
			}
			// per-key contributions are inside the range over the declared keys, action contributions inside the loop over actions
			hK := findLoopOver(un, "(*chain.Transaction).StateKeys(p0, p1)#0")
			r.check(hK != nil && loopExitsOnlyByReturnErr(hK), "C12.R2", "Units:every-declared-key", w.rel(un.Pos()), "", "the per-key loop is missing or skips keys")
			hA := findIndexLoopOver(un, "p0.TransactionData.Actions")
			r.check(hA != nil && loopExitsOnlyAtHeader(hA), "C12.R2", "Units:every-action", w.rel(un.Pos()), "", "the per-action loop is missing or skips actions")
		}
	}

	// R3: Consume
	cf := r.fn(w, "C12.R3", nmConsume)
	if cf != nil {
		stores := callsNamed(cf, "(*"+H+"/internal/fees.Manager).setLastConsumed")
		adds := callsNamed(cf, "github.com/ava-labs/avalanchego/utils/math.Add")
		hdrs := loopHeaders(cf)
		if len(stores) != 1 || len(hdrs) != 2 || len(adds) < 1 || len(adds) > 2 {
			r.missing("C12.R3", "Consume:two-phase", fmt.Sprintf("expected a check loop and a commit loop with one setLastConsumed (found %d loops, %d stores, %d checked adds)", len(hdrs), len(stores), len(adds)))
		} else {
			st := stores[0]
			// identify check loop = the one not containing the store
			var chk, com *ssa.BasicBlock
			for _, h := range hdrs {
				if naturalLoop(h)[st.Block()] {
					com = h
				} else {
					chk = h
				}
			}
			if chk == nil || com == nil {
				r.missing("C12.R3", "Consume:two-phase", "check loop and commit loop not distinguishable")
			} else {
				bound := func(h *ssa.BasicBlock) string {
					if ifi, ok := h.Instrs[len(h.Instrs)-1].(*ssa.If); ok {
						return predString(ifi.Cond, true)
					}
					return ""
				}
				nd := "5"
				if p := w.Pkgs[H+"/fees"]; p != nil {
					if c, ok := p.Types.Scope().Lookup("FeeDimensions").(*types.Const); ok {
						nd = c.Val().ExactString()
					}
				}
				r.check(glob("phi(*) < "+nd, bound(chk)) && strings.Contains(bound(chk), ", 0)") && glob("phi(*) < "+nd, bound(com)) && strings.Contains(bound(com), ", 0)"), "C12.R3", "Consume:both-loops-cover-all-dimensions", w.rel(cf.Pos()), bound(chk), "a loop of Consume does not range over all fee dimensions: "+bound(chk)+" / "+bound(com))
				// the commit loop is entered only from the check loop's exhausted exit
				exitEdge := edgeKey{chk.Index, 1}
				found, _ := pathExists(entry(cf), isInstr(st), nil, map[edgeKey]bool{exitEdge: true})
				r.check(!found, "C12.R3", "Consume:store-only-after-complete-check", r.at(w, st), "", "setLastConsumed is reachable without the check loop having visited every dimension")
				// check loop body: overflow => return false ; consumed > l[i] => return false
				chkLoop := naturalLoop(chk)
				var chkAdd ssa.CallInstruction
				for _, a := range adds {
					if chkLoop[a.Block()] {
						chkAdd = a
					}
				}
				okOv, okLim := false, false
				// a rejecting edge (the addition overflowed / the sum exceeds the limit) leads only to 'return false, i':
				// it reaches neither the commit nor the rest of the check loop. Decided on edges, so that the two tests
				// may be written as one condition.
				rejects := func(b *ssa.BasicBlock) bool {
					if reach, _ := pathExists(point{b, 0}, func(i ssa.Instruction) bool {
						if i == ssa.Instruction(st) {
							return true
						}
						if ret, ok := i.(*ssa.Return); ok {
							vals := unspill(ret) // results pass through cells because of the deferred unlock
							return !(len(vals) == 2 && term(vals[0]) == "false")
						}
						return i.Block() == chk && instrIndex(i) == 0
					}, nil, nil); reach {
						return false
					}
					return true
				}
				if chkAdd != nil {
					ovEdges := 0
					allRej := true
					for _, ev := range errResults(chkAdd) {
						pos, _ := truthEdges(ev)
						for k := range pos {
							ovEdges++
							if !rejects(cf.Blocks[k[0]].Succs[k[1]]) {
								allRej = false
							}
						}
					}
					okOv = ovEdges > 0 && allRej
					sum := term(chkAdd.(*ssa.Call)) + "#0"
					for _, e := range predTrueEdges(cf, []string{"p2[*] < " + sum}) {
						okLim = rejects(cf.Blocks[e[0]].Succs[e[1]])
					}
				}
				r.check(okOv, "C12.R3", "Consume:overflow-rejected-in-check-loop", w.rel(cf.Pos()), "", "an overflowing addition in the check loop does not reject the transaction")
				r.check(okLim, "C12.R3", "Consume:limit-rejected-in-check-loop", w.rel(cf.Pos()), "", "the check loop does not reject 'lastConsumed(i) + d[i] > l[i]'")
				// the checked expression equals the stored expression
				if chkAdd != nil {
					want := "(*internal/fees.Manager).lastConsumed(p0, phi(*))"
					a := argTerms(chkAdd)
					sa := argTerms(st)
					okV := len(a) == 2 && glob(want, a[0]) && glob("p1[phi(*)]", a[1]) && len(sa) == 3 && glob("phi(*)", sa[1])
					if okV && !glob("ago/utils/math.Add((*internal/fees.Manager).lastConsumed(p0, phi(*)), p1[phi(*)])#0", sa[2]) {
						// ... or the checked sums are kept in a local array: slot i is written with the checked sum of
						// dimension i on every pass of the check loop that does not reject, and slot i is what is stored
						okV = false
						if ld, isLoad := strip(st.Common().Args[2]).(*ssa.UnOp); isLoad {
							if ia, isIdx := ld.X.(*ssa.IndexAddr); isIdx {
								if arr, isLocal := ia.X.(*ssa.Alloc); isLocal && term(ia.Index) == sa[1] {
									for _, ref := range *arr.Referrers() {
										wa, ok := ref.(*ssa.IndexAddr)
										if !ok || wa == ia {
											continue
										}
										for _, rr := range *wa.Referrers() {
											ws, ok := rr.(*ssa.Store)
											if !ok || ws.Addr != ssa.Value(wa) {
												continue
											}
											sumV := resultN(chkAdd, 0)
											inLoop := chkLoop[ws.Block()]
											sameIdx := len(chkAdd.Common().Args) == 2 && strings.Contains(a[1], "["+term(wa.Index)+"]")
											// every way round the check loop passes the slot write
											hdr := func(i ssa.Instruction) bool { return i.Block() == chk && instrIndex(i) == 0 }
											skip, _ := pathExists(point{chk.Succs[0], 0}, hdr, isInstr(ws), nil)
											if inLoop && sameIdx && len(sumV) == 1 && sameValue(ws.Val, sumV[0]) && !skip {
												okV = true
											}
										}
									}
								}
							}
						}
					}
					r.check(okV, "C12.R3", "Consume:checked-value-is-stored-value", r.at(w, st), "", "the value stored is not lastConsumed(i)+d[i] as checked: check "+strings.Join(a, "+")+" store "+strings.Join(sa, ","))
				}
				// no store before a failing return of the check loop: no setLastConsumed reachable before those returns (implied by ordering) ; lock held
				lk := findEffects(cf, "call (*sync.RWMutex).Lock(p0.l)")
				ul := findEffects(cf, "defer (*sync.RWMutex).Unlock(p0.l)")
				okk := len(lk) == 1 && len(ul) == 1
				if okk {
					eachInstr(cf, func(i ssa.Instruction) {
						if ci, ok := i.(ssa.CallInstruction); ok && i != lk[0].Ins {
							if _, d := i.(*ssa.Defer); !d && !dominatesI(lk[0].Ins, ci) {
								okk = false
							}
						}
					})
				}
				r.check(okk, "C12.R3", "Consume:write-lock-held-throughout", w.rel(cf.Pos()), "", "Consume does not hold the manager's write lock for the whole check-and-commit")
				// success return only after commit loop exhausted
				for _, o := range returnOutcomes(cf) {
					if len(o.Vals) == 2 && term(o.Vals[0]) == "true" {
						f2, _ := pathExists(entry(cf), isInstr(o.Ret), nil, map[edgeKey]bool{{com.Index, 1}: true})
						r.check(!f2, "C12.R3", "Consume:true-only-after-complete-commit", w.rel(instrPos(o.Ret)), "", "Consume can return true without having committed every dimension")
					}
				}
			}
		}
	}

	// R4
	et := r.fn(w, "C12.R4", nmExecTxs)
	if et != nil {
		cons := callsNamed(et, nmConsume)
		if len(cons) == 1 {
			okv := resultN(cons[0], 0)
			okk := false
			for _, o := range returnOutcomes(et) {
				if hasStr(o.Sentinels, "chain.ErrInvalidUnitsConsumed") && len(okv) == 1 && hasStr(o.Conds, "!"+term(okv[0])) {
					okk = true
				}
			}
			r.check(okk, "C12.R4", "executeTxs:not-fitting-tx-fails-block", r.at(w, cons[0]), "", "a transaction that does not fit does not fail verification with ErrInvalidUnitsConsumed")
			for _, tgt := range callsNamed(et, "(*"+H+"/internal/fetcher.Fetcher).Fetch", nmRun) {
				r.check(len(okv) == 1 && dominatesI(cons[0], tgt) && onlyViaTruth(okv[0], cons[0], tgt, true), "C12.R4", "executeTxs:Consume-ok-before-"+short(calleeName(tgt)), r.at(w, tgt), "", short(calleeName(tgt))+" is reachable for a transaction that was not accepted by Consume")
			}
		} else {
			r.missing("C12.R4", "executeTxs:Consume", "Consume call not found")
		}
	}
	// R5
	if pe := r.fn(w, "C12.R5", nmProcExecute); pe != nil {
		for _, nm := range []string{"UnitsConsumed", "UnitPrices"} {
			es := findEffects(pe, "call (*internal/fees.Manager)."+nm+"((*chain.Processor).createBlockContext(*)#0.feeManager)")
			r.check(len(es) == 1, "C12.R5", "Execute:results."+nm, w.rel(pe.Pos()), "", "ExecutionResults."+nm+" is not read from the block context's fee manager")
		}
		for _, c := range callsNamed(pe, nmExecTxs) {
			r.check(term(c.Common().Args[4]) == "(*chain.Processor).createBlockContext(p0, *, p2, p3, (chain.RuleFactory).GetRules(p0.ruleFactory, p3.StatelessBlock.Block.Tmstmp))#0.feeManager" || glob("(*chain.Processor).createBlockContext(*)#0.feeManager", term(c.Common().Args[4])), "C12.R5", "Execute:executeTxs-consumes-into-context-manager", r.at(w, c), "", "executeTxs does not consume into the block context's fee manager")
		}
	}
}

func constantInt(c *types.Const) (int64, bool) {
	s := c.Val().ExactString()
	var v int64
	_, err := fmt.Sscan(s, &v)
	return v, err == nil
}
