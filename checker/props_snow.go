package main

import (
	"fmt"
	"go/types"
	"regexp"
	"strings"

	"golang.org/x/tools/go/ssa"
)

const (
	pkgSnow = H + "/snow"
	nmSB    = "(*" + pkgSnow + ".StatefulBlock)."
	nmSVM   = "(*" + pkgSnow + ".VM)."
	pkgCI   = H + "/chainindex"
)

func init() {
	register(&propDef{
		ID: "C18",
		Explain: "Decides the write ordering of the accept pipeline (index updated before the block is queued / unpinned / made last-accepted; execution results written " +
			"before the chain accepts; state committed last) and, by evaluating the restart path's height predicates for every gap d = indexed height - state height in " +
			"[0, accepted queue size + 1], whether restart tolerates every gap a crash can leave; plus the per-iteration order verify -> notify -> accept -> notify of " +
			"re-processing. Not decided: the outcome of actual crashes.",
		Run: c18,
	})
	register(&propDef{
		ID: "C19",
		Explain: "Decides that a missing prune target cannot fail UpdateLastAccepted (its lookup error reaches a return only with not-found excluded), that all writes and " +
			"prunes of one call go to one batch whose Write is the only success exit, that pruning is skipped exactly when the window is 0, the target is genesis or " +
			"the subtraction wrapped, that start-up clean-up skips genesis and stops at the threshold deleting the same three keys, and that the key prefixes are " +
			"distinct. Not decided: the upper bound on retained blocks after gaps.",
		Run: c19,
	})
	register(&propDef{
		ID: "C20",
		Explain: "Decides who may write a block's lifecycle flags, that verified/accepted state and notifications are set only after the chain's VerifyBlock/AcceptBlock " +
			"succeeded, that a block is handed to the chain for verification only after its parent was found verified and its P-Chain context matched, that it is " +
			"pinned as processing only on non-error paths, that Accept refuses an unverified block before any effect once the VM is ready, that Reject notifies the " +
			"matching subscriber list, the accepted-queue pairing, the lock discipline of the processing map and the lookup order of GetBlock. Not decided: conformance " +
			"of whole engine call traces.",
		Run: c20,
	})
	register(&propDef{
		ID: "C21",
		Explain: "Decides the hand-over structure of dynamic state sync: FinishStateSync runs under the chain lock, refuses when already ready, re-processes to the tip when " +
			"the target is behind it, re-verifies processing blocks in height order, records every block that fails (unverified parent or verify error) in the set " +
			"handed to the registered unresolved-blocks health check which pre-reject notifications resolve, and sets ready last, only after that succeeded; the " +
			"health checks report unhealthy while unresolved blocks remain or the VM is not ready. Not decided: interleavings with the engine.",
		Run: c21,
	})
}

// ----------------------------------------------------------------------------- C18

var reNum = regexp.MustCompile(`^[0-9 ()+*\-]+$`)

// evalPred evaluates a normalised predicate over integers after substituting terms.
func evalPred(p string, subst map[string]string) (bool, bool) {
	for k, v := range subst {
		p = strings.ReplaceAll(p, k, v)
	}
	for _, op := range []string{" <= ", " < ", " == ", " != "} {
		i := strings.Index(p, op)
		if i < 0 {
			continue
		}
		l, r := p[:i], p[i+len(op):]
		if !reNum.MatchString(l) || !reNum.MatchString(r) {
			return false, false
		}
		a, ok1 := evalInt(l)
		b, ok2 := evalInt(r)
		if !ok1 || !ok2 {
			return false, false
		}
		switch op {
		case " <= ":
			return a <= b, true
		case " < ":
			return a < b, true
		case " == ":
			return a == b, true
		default:
			return a != b, true
		}
	}
	return false, false
}

func c18(r *Run) {
	w := r.W
	// the index moves its last-accepted pointer, stores the block and prunes in one atomic write
	defer r.importRules(c19, "C19.R2")
	r.rule("C18.R1", "K1", "Accept: index update succeeds before queueing, unpinning and last-accepted update", 3)
	r.rule("C18.R2", "K1", "execution results written before the chain accepts; state commit is the accepter's last effect", 2)
	r.rule("C18.R3", "interval", "restart tolerates every index/state gap a crash can leave", 1)
	r.rule("C18.R4", "K1", "re-processing order per height", 4)

	acc := r.fn(w, "C18.R1", nmSB+"Accept")
	if acc != nil {
		ul := callsTo(acc, func(n string) bool { return strings.HasSuffix(n, ".UpdateLastAccepted") })
		if len(ul) == 1 {
			for _, pat := range []string{"call (*snow.StatefulBlock).queueAccept(p0)", "call builtin.delete(p0.vm.verifiedBlocks, *)", "call (*snow.VM).setLastAccepted(p0.vm, p0)"} {
				es := findEffects(acc, pat)
				if len(es) != 1 {
					r.missing("C18.R1", "Accept:"+pat, "effect not found")
					continue
				}
				r.successGuards(w, "C18.R1", "Accept:index-update-before:"+pat, ul[0], es[0].Ins)
			}
		} else {
			r.missing("C18.R1", "Accept:UpdateLastAccepted", "UpdateLastAccepted not called exactly once in Accept")
		}
	}
	vab := r.fn(w, "C18.R2", "(*"+H+"/vm.VM).AcceptBlock")
	if vab != nil {
		put := findEffects(vab, "call (ago/database.*).Put(p0.executionResultsDB, *, (encoding/binary.bigEndian).AppendUint64(encoding/binary.BigEndian, (*chain.ExecutionResults).Marshal(p3.ExecutionResults), p3.ExecutionBlock.StatelessBlock.Block.Hght))")
		ca := findEffects(vab, "call (*chain.Chain).AcceptBlock(p0.chain, p1, p3)")
		if len(put) == 1 && len(ca) == 1 {
			r.successGuards(w, "C18.R2", "VM.AcceptBlock:results-before-chain-accept", put[0].Ins.(ssa.CallInstruction), ca[0].Ins)
		} else {
			r.missing("C18.R2", "VM.AcceptBlock:results-before-chain-accept", fmt.Sprintf("execution-results Put (results||height) / chain.AcceptBlock not found (%d/%d)", len(put), len(ca)))
		}
	}
	aab := r.fn(w, "C18.R2", "(*"+pkgChain+".Accepter).AcceptBlock")
	if aab != nil {
		cd := findEffects(aab, "call (ago/x/merkledb.View).CommitToDB(*")
		okk := len(cd) == 1
		if okk {
			// no other call effect after CommitToDB except error wrapping
			for _, e := range effectsOf(aab) {
				if strings.HasPrefix(e.Str, "call ") && e.Ins != cd[0].Ins && reachableFrom(cd[0].Ins, e.Ins) && !strings.HasPrefix(e.Str, "call fmt.Errorf") {
					okk = false
				}
			}
		}
		r.check(okk, "C18.R2", "Accepter.AcceptBlock:CommitToDB-last", w.rel(aab.Pos()), "", "state commit is not the last effect of accepting a block")
	}

	// R3
	el := r.fn(w, "C18.R3", "(*"+H+"/vm.VM).extractLatestOutputBlock")
	if el != nil {
		qsize := int64(16)
		if p := w.Pkgs[pkgSnow]; p != nil {
			if c, ok := p.Types.Scope().Lookup("acceptedQueueSize").(*types.Const); ok {
				qsize, _ = constantInt(c)
			}
		}
		S := "(*vm.VM).extractStateHeight(p0)#0"
		L := "(ago/... placeholder)"
		for _, c := range callsTo(el, func(n string) bool { return strings.HasSuffix(n, ".GetLastAcceptedHeight") }) {
			L = term(c.(*ssa.Call)) + "#0"
		}
		bad := ""
		for d := int64(0); d <= qsize+1 && bad == ""; d++ {
			subst := map[string]string{L: fmt.Sprint(1000 + d), S: "1000"}
			for _, o := range returnOutcomes(el) {
				if o.isPotentialSuccess() {
					continue
				}
				// an error outcome whose controlling conditions are all height predicates that hold for this gap
				all, any := true, false
				for _, c := range o.Conds {
					if strings.HasSuffix(c, " == nil") {
						continue // an earlier call succeeded: compatible with any gap
					}
					if !strings.Contains(c, L) && !strings.Contains(c, S) {
						// conditions on other values (errors, lengths): the failure is not implied by the gap alone
						all = false
						continue
					}
					v, ok := evalPred(c, subst)
					if !ok {
						all = false
						continue
					}
					any = true
					if !v {
						all = false
					}
				}
				// only conds mentioning heights were considered; require that every cond is a satisfied height predicate
				if all && any {
					bad = fmt.Sprintf("with indexed height = state height + %d the return at %s fails: {%s}", d, w.rel(instrPos(o.Ret)), strings.Join(o.Conds, " ; "))
					break
				}
			}
		}
		r.check(bad == "", "C18.R3", "extractLatestOutputBlock:gap-tolerance", w.rel(el.Pos()), fmt.Sprintf("no height-only error exit for gaps 0..%d", qsize+1),
			fmt.Sprintf("restart rejects a gap that a crash can leave (the index is updated synchronously while up to %d accepted blocks wait for processing): %s", qsize, bad))
	}

	// R5: the restart path that executes the missing block uses vm.chain; it must be constructed before the path can run
	r.rule("C18.R5", "K1", "the chain used by the restart path is constructed before the restart path runs", 1)
	ini := r.fn(w, "C18.R5", "(*"+H+"/vm.VM).Initialize")
	if ini != nil && el != nil {
		usesChain := len(fieldAccesses(el, H+"/vm.VM", "chain")) > 0
		ila := callsNamed(ini, "(*"+H+"/vm.VM).initLastAccepted")
		sts := fieldStores(ini, H+"/vm.VM", "chain")
		if usesChain && len(ila) == 1 {
			okk := false
			for _, st := range sts {
				if dominatesI(st, ila[0]) {
					okk = true
				}
			}
			// the path from initLastAccepted to extractLatestOutputBlock exists
			via := false
			if f := w.Fn("(*" + H + "/vm.VM).initLastAccepted"); f != nil {
				via = len(callsNamed(f, "(*"+H+"/vm.VM).extractLatestOutputBlock")) > 0
			}
			if via {
				r.check(okk, "C18.R5", "Initialize:chain-before-initLastAccepted", r.at(w, ila[0]), "",
					"Initialize calls initLastAccepted (which re-executes the block above the state height through vm.chain when the index is ahead of the state) before vm.chain is assigned: a restart with the index one block ahead dereferences a nil chain")
			}
		}
	}

	// R4
	rp := r.fn(w, "C18.R4", nmSVM+"reprocessFromOutputToInput")
	if rp != nil {
		vb := callsTo(rp, func(n string) bool { return strings.HasSuffix(n, "snow.Chain).VerifyBlock") })
		ab := callsTo(rp, func(n string) bool { return strings.HasSuffix(n, "snow.Chain).AcceptBlock") })
		nv := findEffects(rp, "call event.NotifyAll(*, *, p0.verifiedSubs)")
		var na, naStart []*effect
		for _, e := range findEffects(rp, "call event.NotifyAll(*, *, p0.acceptedSubs)") {
			if h, _ := innermostLoop(e.Ins.Block()); h != nil {
				na = append(na, e)
			} else {
				naStart = append(naStart, e)
			}
		}
		// the starting block is delivered too when anything is re-processed (its own notification may have been cut off by the crash)
		okStart := len(naStart) == 1 && strings.Contains(naStart[0].Str, "NotifyAll(p1, p4, p0.acceptedSubs)") && len(ab) == 1 &&
			hasMatch(naStart[0].Conds(), "(*).GetHeight(p3) < (*).GetHeight(p2)")
		if okStart {
			// conditioned on nothing but the heights / identities of the three blocks
			for _, c := range naStart[0].Conds() {
				if !strings.Contains(c, ").GetHeight(p") && !strings.Contains(c, ").GetID(p") {
					okStart = false
				}
			}
		}
		if okStart {
			// it comes before the first re-processed block is accepted (same condition as entering the loop)
			before, _ := pathExists(after(naStart[0].Ins), isInstr(ab[0]), nil, nil)
			back, _ := pathExists(after(ab[0]), isInstr(naStart[0].Ins), nil, nil)
			okStart = before && !back
		}
		r.check(okStart, "C18.R4", "reprocess:start-block-delivered", w.rel(rp.Pos()), "", "re-processing does not deliver its starting accepted block to the accepted subscribers: a block whose state was committed right before a crash, with later blocks already indexed, is never delivered")
		if len(vb) == 1 && len(ab) == 1 && len(nv) == 1 && len(na) == 1 {
			r.successGuards(w, "C18.R4", "reprocess:notify-verified-after-VerifyBlock", vb[0], nv[0].Ins)
			r.successGuards(w, "C18.R4", "reprocess:AcceptBlock-after-notify-verified", nv[0].Ins.(ssa.CallInstruction), ab[0])
			r.successGuards(w, "C18.R4", "reprocess:notify-accepted-after-AcceptBlock", ab[0], na[0].Ins)
			gb := findEffects(rp, "call (snow.ChainIndex).GetBlockByHeight(p0.inputChainIndex, p1, ((snow.Block).GetHeight(phi(*)) + 1))")
			r.check(len(gb) == 1, "C18.R4", "reprocess:next-height=output+1", w.rel(rp.Pos()), "", "re-processing does not fetch the block at outputBlock.GetHeight()+1")
		} else {
			r.missing("C18.R4", "reprocess:sequence", "VerifyBlock / AcceptBlock / notifications not found in reprocessFromOutputToInput")
		}
		// R8: re-processing is a chain: block n+1 is verified on the output of block n and accepted on the accepted state
		// of block n (loop-carried values, seeded with the function's output/accepted arguments), and the result carries
		// the last of both
		r.rule("C18.R8", "K5", "re-processing verifies each block on the previous block's output and accepts it on the previous block's accepted state", 3)
		if len(vb) == 1 && len(ab) == 1 {
			carried := func(v ssa.Value, seed string, c ssa.CallInstruction) bool {
				ph, ok := strip(v).(*ssa.Phi)
				if !ok {
					return false
				}
				hasSeed, hasPrev := false, false
				for _, e := range ph.Edges {
					if term(e) == seed {
						hasSeed = true
					}
					for _, rv := range resultN(c, 0) {
						if strip(e) == rv {
							hasPrev = true
						}
					}
				}
				return hasSeed && hasPrev
			}
			va, aa := callArgs(vb[0]), callArgs(ab[0])
			r.check(len(va) == 4 && carried(va[2], "p3", vb[0]), "C18.R8", "reprocess:verify-on-previous-output", r.at(w, vb[0]), "", "a re-processed block is not verified on the output of the block re-processed before it")
			r.check(len(aa) == 4 && carried(aa[2], "p4", ab[0]), "C18.R8", "reprocess:accept-on-previous-accepted", r.at(w, ab[0]), "", "a re-processed block is not accepted on the accepted state of the block re-processed before it (the chain's AcceptBlock receives a stale parent, and the last accepted block served afterwards is the stale one)")
			okN := false
			for _, e := range findEffects(rp, "call snow.NewAcceptedBlock(p0, p2, *") {
				na := callArgs(e.Ins.(ssa.CallInstruction))
				okN = len(na) == 4 && carried(na[2], "p3", vb[0]) && carried(na[3], "p4", ab[0])
			}
			r.check(okN, "C18.R8", "reprocess:result-carries-last-output-and-accepted", w.rel(rp.Pos()), "", "the block returned by re-processing does not carry the output and accepted state of the last re-processed block")
		}
	}

	// R6: the accept pipeline commits state before notifying subscribers, so a crash between the two is repaired only by
	// the unconditional start-up notification of the last accepted block
	// R7: after an unclean stop merkledb rebuilds and ends with Compact(nil, nil); the database wrapper has to give the
	// nil limit the meaning of the database interface (after all keys), pebble itself reads it as "before all keys"
	r.rule("C18.R7", "K6", "the pebble wrapper never forwards a nil compaction limit", 1)
	if cp := r.fn(w, "C18.R7", "(*"+H+"/internal/pebble.Database).Compact"); cp != nil {
		okk := false
		for _, c := range callsTo(cp, func(n string) bool { return strings.HasSuffix(n, "cockroachdb/pebble.DB).Compact") }) {
			lim := c.Common().Args[2]
			if phi, ok := lim.(*ssa.Phi); ok {
				// the parameter edge is taken only where limit != nil
				okk = true
				for i, e := range phi.Edges {
					if e != ssa.Value(cp.Params[2]) {
						continue
					}
					pred := phi.Block().Preds[i]
					si := 0
					for k, sx := range pred.Succs {
						if sx == phi.Block() {
							si = k
						}
					}
					cs := condStrings(ctrlCondsEdge(pred, si))
					if !hasStr(cs, "nil != p2") && !hasStr(cs, "p2 != nil") {
						okk = false
					}
				}
			} else if lim != ssa.Value(cp.Params[2]) {
				okk = true
			}
		}
		r.check(okk, "C18.R7", "pebble.Compact:nil-limit-means-after-all-keys", w.rel(cp.Pos()), "", "a nil compaction limit is forwarded to pebble, which fails with 'start is not less than end': merkledb's rebuild after an unclean shutdown ends with Compact(nil, nil), so every restart after a crash fails")
	}
	r.rule("C18.R6", "K1", "start-up re-delivers the last accepted block to the accepted subscribers on every successful path (at-least-once across a crash)", 2)
	sini := r.fn(w, "C18.R6", nmSVM+"Initialize")
	if sini != nil {
		na := findEffects(sini, "call (*snow.StatefulBlock).notifyAccepted(p0.lastAcceptedBlock, *)")
		if len(na) == 1 {
			extra := ""
			for _, c := range na[0].Conds() {
				if !(strings.HasSuffix(c, " == nil") || strings.HasPrefix(c, "nil == ")) {
					extra = c
				}
			}
			r.check(extra == "", "C18.R6", "Initialize:last-accepted-notified-unconditionally", r.at(w, na[0].Ins), "conditioned only on earlier steps having succeeded",
				"the start-up notification of the last accepted block is conditional ("+extra+"): a block whose state was committed but whose notification was cut off by a crash is never delivered")
			r.failureLeadsToErrorReturn(w, "C18.R6", "Initialize:notification-error-returned", na[0].Ins.(ssa.CallInstruction))
			// no successful return of Initialize without it
			okk := true
			for _, o := range returnOutcomes(sini) {
				if o.isPotentialSuccess() {
					if found, _ := pathExists(point{sini.Blocks[0], 0}, isInstr(o.Ret), isInstr(na[0].Ins), nil); found {
						okk = false
					}
				}
			}
			r.check(okk, "C18.R6", "Initialize:no-success-without-notification", r.at(w, na[0].Ins), "", "Initialize can succeed without notifying the last accepted block")
		} else {
			r.missing("C18.R6", "Initialize:last-accepted-notified", fmt.Sprintf("expected one start-up notifyAccepted(lastAcceptedBlock), found %d", len(na)))
		}
	}
}

// ----------------------------------------------------------------------------- C19

func c19(r *Run) {
	w := r.W
	CI := "(*" + pkgCI + ".ChainIndex)."
	r.rule("C19.R1", "K9", "a missing prune target does not fail UpdateLastAccepted", 1)
	r.rule("C19.R2", "K7", "one batch per call; Write is the only success exit; SaveHistorical writes the same keys", 4)
	r.rule("C19.R3", "K6", "prune guards; start-up clean-up guards", 4)
	r.rule("C19.R4", "K10", "key prefixes pairwise distinct", 1)
	ul := r.fn(w, "C19.R1", CI+"UpdateLastAccepted")
	if ul != nil {
		lk := callsNamed(ul, CI+"GetBlockIDAtHeight")
		if len(lk) == 1 {
			et := term(lk[0].(*ssa.Call)) + "#1"
			okk := true
			n := 0
			for _, o := range returnOutcomes(ul) {
				if o.ErrTerm == et {
					n++
					if !hasStr(o.Conds, "!errors.Is("+et+", ago/database.ErrNotFound)") {
						okk = false
					}
				}
			}
			r.check(okk && n >= 1, "C19.R1", "UpdateLastAccepted:optional-prune-target", r.at(w, lk[0]), "the lookup error is returned only with not-found excluded",
				"the error of looking up the prune target is returned even when it is database.ErrNotFound: after state sync or historical backfill the blocks below the window were never stored, so recording an accepted block fails")
			a := argTerms(lk[0])
			r.check(len(a) == 3 && glob("((*).GetHeight(p2) - p0.config.AcceptedBlockWindow)", a[2]), "C19.R1", "UpdateLastAccepted:prune-target=height-window", r.at(w, lk[0]), a[2], "the prune target is not height - window: "+a[2])
		} else {
			r.missing("C19.R1", "UpdateLastAccepted:optional-prune-target", "prune-target lookup not found")
		}
		// R2: one batch
		var batches []string
		batchVals := map[ssa.Value]bool{}
		for _, e := range effectsOf(ul) {
			if strings.HasPrefix(e.Str, "call (ago/database.") && (strings.Contains(e.Str, ").Put(") || strings.Contains(e.Str, ").Delete(") || strings.Contains(e.Str, ").Write(")) {
				a := callArgs(e.Ins.(ssa.CallInstruction))
				batches = append(batches, term(a[0]))
				if e.Inner == nil {
					batchVals[strip(a[0])] = true // two NewBatch calls render alike: compare the values
				}
			}
		}
		same := len(batches) >= 6 && len(batchVals) <= 1
		for _, b := range batches {
			if b != batches[0] {
				same = false
			}
		}
		wb := callsNamed(ul, CI+"writeBlock")
		r.check(same && len(wb) == 1 && term(wb[0].Common().Args[1]) == batches[0], "C19.R2", "UpdateLastAccepted:one-batch", w.rel(ul.Pos()), fmt.Sprintf("%d operations on %s", len(batches), firstOr(batches)), "writes and prunes of UpdateLastAccepted do not all go to one batch")
		okk := true
		for _, o := range returnOutcomes(ul) {
			if o.isPotentialSuccess() && !hasStr(o.Sentinels, "err:(ago/database.Batch).Write") {
				okk = false
			}
		}
		r.check(okk, "C19.R2", "UpdateLastAccepted:success-only-through-Write", w.rel(ul.Pos()), "", "UpdateLastAccepted has a success exit that does not write the batch")
		// last accepted key + three prune keys
		r.requireEffect(w, "C19.R2", "UpdateLastAccepted:last-accepted-height", ul, "call (ago/database.*).Put(*, chainindex.lastAcceptedKey, (encoding/binary.bigEndian).AppendUint64(encoding/binary.BigEndian, nil, (*).GetHeight(p2)))")
		dels := findEffects(ul, "call (ago/database.*).Delete(*")
		var dk []string
		for _, d := range dels {
			if d.Inner != nil {
				dk = append(dk, d.Str) // lifted out of a helper: the rendered effect carries the substituted key
				continue
			}
			dk = append(dk, term(callArgs(d.Ins.(ssa.CallInstruction))[1]))
		}
		j := strings.Join(dk, " ; ")
		r.check(len(dels) == 3 && strings.Contains(j, "chainindex.prefixBlockKey(") && strings.Contains(j, "chainindex.prefixBlockIDHeightKey((*chainindex.ChainIndex).GetBlockIDAtHeight(") && strings.Contains(j, "chainindex.prefixBlockHeightIDKey("), "C19.R2", "UpdateLastAccepted:prunes-three-keys", w.rel(ul.Pos()), j, "pruning does not delete the block, id->height and height->id records together: "+j)
		// R3
		if len(dels) == 3 {
			cs := dels[0].Conds()
			h := "(*).GetHeight(p2)"
			e := "(" + h + " - p0.config.AcceptedBlockWindow)"
			okk := hasMatch(cs, "0 != p0.config.AcceptedBlockWindow") && hasMatch(cs, e+" != 0") && hasMatch(cs, e+" < "+h)
			r.check(okk, "C19.R3", "UpdateLastAccepted:prune-guards", r.at(w, dels[0].Ins), "", "pruning is not skipped exactly when window == 0, target == 0 or target >= height: {"+strings.Join(cs, " ; ")+"}")
		}
		// R5: the retention bound. Pruning exactly one height per accept keeps the index bounded only while heights are
		// consecutive; a bound that survives gaps and historical saves needs a ranged prune (every height <= target)
		r.rule("C19.R5", "K16", "the prune of UpdateLastAccepted covers every stored height at or below the target, not one height", 1)
		ranged := false
		for _, d := range dels {
			if h, _ := innermostLoop(d.Ins.Block()); h != nil {
				ranged = true
			}
		}
		r.check(ranged, "C19.R5", "UpdateLastAccepted:prunes-every-height-below-the-window", w.rel(ul.Pos()), "",
			"UpdateLastAccepted prunes only the single height (accepted height - window): blocks stored below it (older blocks before a state-sync gap, historical saves) stay until the next restart, so more than window+1 non-genesis blocks are retained")
	}
	wbf := r.fn(w, "C19.R2", CI+"writeBlock")
	if wbf != nil {
		var ks []string
		for _, e := range findEffects(wbf, "call (ago/database.*).Put(p1, *") {
			ks = append(ks, term(callArgs(e.Ins.(ssa.CallInstruction))[1])+"="+term(callArgs(e.Ins.(ssa.CallInstruction))[2]))
		}
		j := strings.Join(ks, " ; ")
		okk := len(ks) == 3 && strings.Contains(j, "chainindex.prefixBlockIDHeightKey((*).GetID(p2))=(encoding/binary.bigEndian).AppendUint64(encoding/binary.BigEndian, nil, (*).GetHeight(p2))") &&
			strings.Contains(j, "chainindex.prefixBlockHeightIDKey((*).GetHeight(p2))=(*).GetID(p2)[:]") && strings.Contains(j, "chainindex.prefixBlockKey((*).GetHeight(p2))=(*).GetBytes(p2)")
		if !okk {
			// tolerate interface naming: compare with globs
			B := "(chainindex.Block)."
			okk = len(ks) == 3 && globAny(ks, "chainindex.prefixBlockIDHeightKey("+B+"GetID(p2))=(encoding/binary.bigEndian).AppendUint64(encoding/binary.BigEndian, nil, "+B+"GetHeight(p2))") &&
				globAny(ks, "chainindex.prefixBlockHeightIDKey("+B+"GetHeight(p2))="+B+"GetID(p2)[:]") && globAny(ks, "chainindex.prefixBlockKey("+B+"GetHeight(p2))="+B+"GetBytes(p2)")
		}
		r.check(okk, "C19.R2", "writeBlock:mutually-consistent-mappings", w.rel(wbf.Pos()), j, "writeBlock does not store id->height, height->id and height->bytes of the same block: "+j)
	}
	sh := r.fn(w, "C19.R2", CI+"SaveHistorical")
	if sh != nil {
		r.check(len(callsNamed(sh, CI+"writeBlock")) == 1 && len(findEffects(sh, "call (ago/database.Batch).Write(*)")) == 1, "C19.R2", "SaveHistorical:same-keys", w.rel(sh.Pos()), "", "SaveHistorical does not write the block through writeBlock in one batch")
	}
	cu := r.fn(w, "C19.R3", CI+"cleanupOnStartup")
	if cu != nil {
		dels := findEffects(cu, "call (ago/database.*).Delete(*")
		okk := len(dels) == 3
		if okk {
			cs := dels[0].Conds()
			okk = hasMatch(cs, "chainindex.extractBlockHeightFromKey(*) < ((*chainindex.ChainIndex).GetLastAcceptedHeight(p0, p1)#0 - p0.config.AcceptedBlockWindow)") && hasMatch(cs, "0 != chainindex.extractBlockHeightFromKey(*)") &&
				hasStr(cs, "0 != p0.config.AcceptedBlockWindow") && hasStr(cs, "p0.config.AcceptedBlockWindow < (*chainindex.ChainIndex).GetLastAcceptedHeight(p0, p1)#0")
		}
		r.check(okk, "C19.R3", "cleanupOnStartup:skip-genesis-stop-at-threshold", w.rel(cu.Pos()), "", "start-up clean-up does not skip genesis and stop at the threshold")
		var early bool
		for _, o := range returnOutcomes(cu) {
			if hasStr(o.Sentinels, "nil") {
				// reachable without creating the iterator
				if f, _ := pathExists(entry(cu), isInstr(o.Ret), func(i ssa.Instruction) bool {
					ci, ok := i.(ssa.CallInstruction)
					return ok && strings.HasSuffix(calleeName(ci), ".NewIteratorWithPrefix")
				}, nil); f {
					early = true
				}
			}
		}
		r.check(early, "C19.R3", "cleanupOnStartup:nothing-to-do-inside-window", w.rel(cu.Pos()), "", "start-up clean-up does not return early when the window is disabled or not exceeded")
		okk = true
		for _, o := range returnOutcomes(cu) {
			if hasStr(o.Sentinels, "nil") && len(dels) == 3 && reachableFrom(dels[0].Ins, o.Ret) {
				bw := findEffects(cu, "call (ago/database.Batch).Write(*)")
				okk = len(bw) == 1 && onlyViaSuccess(bw[0].Ins.(ssa.CallInstruction), o.Ret, false)
			}
		}
		r.check(okk, "C19.R3", "cleanupOnStartup:batch-written", w.rel(cu.Pos()), "", "start-up clean-up can succeed without writing its batch")
	}
	// R4
	if p := w.Pkgs[pkgCI]; p != nil {
		vals := map[string]string{}
		for _, n := range p.Types.Scope().Names() {
			if c, ok := p.Types.Scope().Lookup(n).(*types.Const); ok && strings.HasSuffix(n, "Prefix") {
				vals[n] = c.Val().ExactString()
			}
		}
		seen := map[string]string{}
		dup := ""
		for n, v := range vals {
			if o, ok := seen[v]; ok {
				dup = n + " == " + o
			}
			seen[v] = n
		}
		r.check(len(vals) >= 3 && dup == "", "C19.R4", "prefix-bytes-distinct", "", fmt.Sprint(vals), "two key prefixes coincide: "+dup)
	}
}

func firstOr(s []string) string {
	if len(s) == 0 {
		return ""
	}
	return s[0]
}

func globAny(list []string, pat string) bool {
	for _, x := range list {
		if glob(pat, x) {
			return true
		}
	}
	return false
}

// ----------------------------------------------------------------------------- C20

func c20(r *Run) {
	w := r.W
	// the chain is asked to verify a processing block after the hand-over only on a verified parent
	defer r.importRules(c21, "C21.R3")
	r.rule("C20.R1", "K3", "lifecycle fields written only by constructors, verify, accept, setAccepted", 1)
	r.rule("C20.R2", "K1", "verified/accepted state and notifications only after the chain call succeeded", 4)
	r.rule("C20.R3", "K1", "verifyWithContext: parent verified and context matched before chain verification; pinned only on success", 5)
	r.rule("C20.R4", "K1", "Accept refuses unverified blocks before any effect; Reject notifies the matching list", 3)
	r.rule("C20.R5", "K7", "accepted queue Add/Done pairing; last-processed only after accept", 3)
	r.rule("C20.R6", "K4", "verifiedBlocks under verifiedL", 6)
	r.rule("C20.R7", "K1", "GetBlock lookup order", 2)

	// R1
	allowedW := map[string]bool{nmSB + "verify": true, nmSB + "accept": true, nmSB + "setAccepted": true, pkgSnow + ".NewInputBlock": true, pkgSnow + ".NewVerifiedBlock": true, pkgSnow + ".NewAcceptedBlock": true}
	bad := ""
	n := 0
	for _, fn := range w.srcFns {
		for _, fld := range []string{"verified", "accepted", "Output", "Accepted"} {
			for _, st := range fieldStores(fn, pkgSnow+".StatefulBlock", fld) {
				n++
				if !allowedW[fnName(fn)] {
					bad = short(fnName(fn)) + " writes " + fld + " at " + w.rel(st.Pos())
				}
			}
		}
	}
	r.check(bad == "" && n >= 10, "C20.R1", "StatefulBlock:lifecycle-writers", "", fmt.Sprintf("%d stores, all in constructors/verify/accept/setAccepted", n), "a lifecycle field is written outside the designated functions: "+bad)

	// R2
	vf := r.fn(w, "C20.R2", nmSB+"verify")
	if vf != nil {
		vb := callsTo(vf, func(n string) bool { return strings.HasSuffix(n, "snow.Chain).VerifyBlock") })
		if len(vb) == 1 {
			for _, pat := range []string{"store p0.verified = true", "store p0.Output = *", "call event.NotifyAll(*, *, p0.vm.verifiedSubs)"} {
				es := findEffects(vf, pat)
				if len(es) != 1 {
					r.missing("C20.R2", "verify:"+pat, "effect not found")
					continue
				}
				r.successGuards(w, "C20.R2", "verify:"+pat+":after-VerifyBlock", vb[0], es[0].Ins)
			}
			a := argTerms(vb[0])
			r.check(len(a) == 4 && a[2] == "p2" && a[3] == "p0.Input", "C20.R2", "verify:VerifyBlock(parentOutput, input)", r.at(w, vb[0]), "", "VerifyBlock is not applied to (parent output, this block's input)")
		} else {
			r.missing("C20.R2", "verify:VerifyBlock", "chain.VerifyBlock not called")
		}
	}
	af := r.fn(w, "C20.R2", nmSB+"accept")
	if af != nil {
		ab := callsTo(af, func(n string) bool { return strings.HasSuffix(n, "snow.Chain).AcceptBlock") })
		if len(ab) == 1 {
			for _, pat := range []string{"store p0.accepted = true", "call event.NotifyAll(*, *, p0.vm.acceptedSubs)"} {
				es := findEffects(af, pat)
				if len(es) != 1 {
					r.missing("C20.R2", "accept:"+pat, "effect not found")
					continue
				}
				r.successGuards(w, "C20.R2", "accept:"+pat+":after-AcceptBlock", ab[0], es[0].Ins)
			}
		} else {
			r.missing("C20.R2", "accept:AcceptBlock", "chain.AcceptBlock not called")
		}
	}

	// R3
	vc := r.fn(w, "C20.R3", nmSB+"verifyWithContext")
	if vc != nil {
		vcall := callsNamed(vc, nmSB+"verify")
		gb := callsNamed(vc, nmSVM+"GetBlock")
		pin := findEffects(vc, "mapupdate p0.vm.verifiedBlocks[*] = p0")
		if len(vcall) == 1 && len(gb) == 1 && len(pin) == 1 {
			v := vcall[0]
			r.successGuards(w, "C20.R3", "verifyWithContext:parent-fetched", gb[0], v)
			r.check(glob("(*snow.StatefulBlock).Parent(p0)", term(gb[0].Common().Args[2])), "C20.R3", "verifyWithContext:parent-is-b.Parent()", r.at(w, gb[0]), "", "the parent is not looked up by b.Parent()")
			cs := condStrings(ctrlConds(v.Block()))
			r.check(hasMatch(cs, "(*snow.VM).GetBlock(*)#0.verified"), "C20.R3", "verifyWithContext:parent-verified-before-verify", r.at(w, v), "", "the block is handed to the chain although its parent is not known to be verified: {"+strings.Join(cs, " ; ")+"}")
			r.check(glob("(*snow.VM).GetBlock(*)#0.Output", term(v.Common().Args[2])), "C20.R3", "verifyWithContext:verify(parent.Output)", r.at(w, v), "", "verification does not run on the parent's output")
			// the P-Chain context check that guards verify
			var ctxc ssa.CallInstruction
			for _, c := range callsNamed(vc, pkgSnow+".verifyPChainCtx") {
				if dominatesI(c, v) {
					ctxc = c
				}
			}
			if ctxc != nil {
				r.successGuards(w, "C20.R3", "verifyWithContext:context-matched-before-verify", ctxc, v)
			} else {
				r.bad("C20.R3", "verifyWithContext:context-matched-before-verify", r.at(w, v), "the chain verifies the block (and verified subscribers are notified) before its P-Chain context was checked: a mismatching block is reported as verified although the engine receives an error")
			}
			// every verifyPChainCtx failure returns its error
			for _, c := range callsNamed(vc, pkgSnow+".verifyPChainCtx") {
				r.failureLeadsToErrorReturn(w, "C20.R3", "verifyWithContext:context-mismatch-returns-error", c)
			}
			// pinned only on non-error paths: not reachable from any failing edge
			okk := true
			for _, c := range []ssa.CallInstruction{v, gb[0]} {
				if okF, tested := failEdgeAvoids(c, isInstr(pin[0].Ins)); !okF || !tested {
					okk = false
				}
			}
			r.check(okk, "C20.R3", "verifyWithContext:pinned-only-on-success", r.at(w, pin[0].Ins), "", "a block can be pinned as processing after a failed parent lookup or failed verification")
			// built-block branch also checks the context
			r.check(len(callsNamed(vc, pkgSnow+".verifyPChainCtx")) >= 1, "C20.R3", "verifyWithContext:built-block-context-check", w.rel(vc.Pos()), "", "no P-Chain context check")
		} else {
			r.missing("C20.R3", "verifyWithContext:shape", "verify / GetBlock / verifiedBlocks insertion not found")
		}
	}
	pc := r.fn(w, "C20.R3", pkgSnow+".verifyPChainCtx")
	if pc != nil {
		nilOK, mism := 0, 0
		for _, o := range returnOutcomes(pc) {
			if hasStr(o.Sentinels, "nil") {
				nilOK++
				if !(hasStr(o.Conds, "phi((nil == p1), false)") && len(o.Conds) == 1 || hasMatch(o.Conds, "p0.PChainHeight == p1.PChainHeight")) {
					nilOK = -100
				}
			}
			if hasStr(o.Sentinels, "snow.errMismatchedPChainContext") {
				mism++
			}
		}
		r.check(nilOK == 2 && mism == 3, "C20.R3", "verifyPChainCtx:cases", w.rel(pc.Pos()), "", "verifyPChainCtx does not accept exactly {both nil, equal heights} and reject the three mismatch cases")
	}

	// R4
	acc := r.fn(w, "C20.R4", nmSB+"Accept")
	if acc != nil {
		r.guardTable(w, "C20.R4", acc, []guardRow{{Preds: []string{"p0.vm.ready", "!p0.verified"}, Sentinel: "snow.errParentFailedVerification", Label: "unverified-refused"}})
		// before any effect: no state-changing call precedes the test
		var ifv *ssa.If
		for _, b := range acc.Blocks {
			if ifi, ok := b.Instrs[len(b.Instrs)-1].(*ssa.If); ok && predString(ifi.Cond, true) == "p0.verified" {
				ifv = ifi
			}
		}
		okk := ifv != nil
		if okk {
			for _, e := range effectsOf(acc) {
				if strings.Contains(e.Str, "UpdateLastAccepted") || strings.Contains(e.Str, "queueAccept") || strings.Contains(e.Str, "setLastAccepted") || strings.HasPrefix(e.Str, "call builtin.delete") {
					// must not be reachable when ready && !verified: i.e. from the false edge of "p0.verified" (taken under ready)
					tgt := ifv.Block().Succs[1]
					if found, _ := pathExists(point{tgt, 0}, isInstr(e.Ins), nil, nil); found {
						okk = false
					}
					if !dominatesI(ifv, e.Ins) {
						// reachable when !ready (skipping the verified test) is fine; but then it must be controlled by !ready
						if !hasStr(e.Conds(), "!p0.vm.ready") && !pathOnlyVia(acc, e.Ins, "p0.vm.ready") {
							okk = false
						}
					}
				}
			}
		}
		r.check(okk, "C20.R4", "Accept:refusal-precedes-effects", w.rel(acc.Pos()), "", "an effect of Accept (index update, queueing, unpinning, last-accepted) is reachable for an unverified block while the VM is ready")
		// every successful Accept leaves the processing map and becomes last accepted
		for _, pat := range []string{"call builtin.delete(p0.vm.verifiedBlocks, *)", "call (*snow.VM).setLastAccepted(p0.vm, p0)"} {
			es := findEffects(acc, pat)
			okE := len(es) == 1
			if okE {
				for _, o := range returnOutcomes(acc) {
					if !o.isPotentialSuccess() {
						continue
					}
					if found, _ := pathExists(point{acc.Blocks[0], 0}, isInstr(o.Ret), isInstr(es[0].Ins), nil); found {
						okE = false
					}
				}
			}
			r.check(okE, "C20.R4", "Accept:on-success:"+pat, w.rel(acc.Pos()), "", "Accept can succeed without "+pat+" (the accepted block stays pinned as processing / is not the last accepted block)")
		}
	}
	rj := r.fn(w, "C20.R4", nmSB+"Reject")
	if rj != nil {
		del := findEffects(rj, "call builtin.delete(p0.vm.verifiedBlocks, *)")
		rs := findEffects(rj, "call event.NotifyAll(*, p0.Output, p0.vm.rejectedSubs)")
		ps := findEffects(rj, "call event.NotifyAll(*, p0.Input, p0.vm.preRejectedSubs)")
		okk := len(del) == 1 && len(rs) == 1 && len(ps) == 1 && len(del[0].Conds()) == 0 && hasStr(rs[0].Conds(), "p0.verified") && hasStr(ps[0].Conds(), "!p0.verified") && dominatesI(del[0].Ins, rs[0].Ins) && dominatesI(del[0].Ins, ps[0].Ins)
		r.check(okk, "C20.R4", "Reject:unpin-then-matching-notification", w.rel(rj.Pos()), "", "Reject does not unpin the block and then notify rejectedSubs iff verified, preRejectedSubs otherwise")
	}

	// R5
	qa := r.fn(w, "C20.R5", nmSB+"queueAccept")
	if qa != nil {
		ad := findEffects(qa, "call (*sync.WaitGroup).Add(p0.vm.acceptedQueueBlocksProcessedWg, 1)")
		sd := findEffects(qa, "send p0.vm.acceptedQueue <- p0")
		r.check(len(ad) == 1 && len(sd) == 1 && dominatesI(ad[0].Ins, sd[0].Ins), "C20.R5", "queueAccept:Add-before-enqueue", w.rel(qa.Pos()), "", "queueAccept does not count the block before enqueueing it")
	}
	pa := r.fn(w, "C20.R5", nmSB+"processAccept")
	if pa != nil {
		df := findEffects(pa, "defer (*sync.WaitGroup).Done(p0.vm.acceptedQueueBlocksProcessedWg)")
		okk := len(df) == 1
		if okk {
			eachInstr(pa, func(i ssa.Instruction) {
				if ci, ok := i.(ssa.CallInstruction); ok && i != df[0].Ins {
					if _, d := i.(*ssa.Defer); !d && !dominatesI(df[0].Ins, ci) {
						okk = false
					}
				}
			})
		}
		r.check(okk, "C20.R5", "processAccept:Done-on-every-exit", w.rel(pa.Pos()), "", "processAccept does not defer the wait-group Done before anything else")
		ac := callsNamed(pa, nmSB+"accept")
		lp := findEffects(pa, "call (*snow.VM).setLastProcessed(p0.vm, p0)")
		if len(ac) == 1 && len(lp) == 1 {
			r.successGuards(w, "C20.R5", "processAccept:last-processed-after-accept", ac[0], lp[0].Ins)
		} else {
			r.missing("C20.R5", "processAccept:last-processed-after-accept", "accept / setLastProcessed not found")
		}
		// the accepted parent handed to the chain is the last processed block (blocks are processed in acceptance order);
		// a lookup by ID goes through the bounded accepted-block cache, which consensus has already moved on, and falls back
		// to an index entry without accepted state
		if len(ac) == 1 {
			pa2 := term(ac[0].Common().Args[2])
			okP := pa2 == "p0.vm.lastProcessedBlock.Accepted" && hasMatch(condStrings(ctrlConds(ac[0].Block())), "(*snow.StatefulBlock).ID(p0.vm.lastProcessedBlock) == (*snow.StatefulBlock).Parent(p0)") &&
				hasMatch(condStrings(ctrlConds(ac[0].Block())), "p0.vm.lastProcessedBlock.accepted")
			r.check(okP, "C20.R5", "processAccept:parent=last-processed-accepted-block", r.at(w, ac[0]), "", "the accepted parent passed to the chain is "+pa2+", not the (checked) last processed block: with an accepted-block cache smaller than the accepter's backlog the chain receives a parent without accepted state")
		}
	}
	// building needs a verified parent output
	if bbf := r.fn(w, "C20.R3", nmSVM+"buildBlock"); bbf != nil {
		es := findEffects(bbf, "call (snow.Chain).BuildBlock(p0.chain, *")
		okB := len(es) == 1
		if okB {
			cs := es[0].Conds()
			okB = hasStr(cs, "p0.ready") && hasMatch(cs, "(*snow.VM).GetBlock(p0, *, p0.preferredBlkID)#0.verified")
		}
		r.check(okB, "C20.R3", "buildBlock:only-on-verified-preference", w.rel(bbf.Pos()), "", "the chain is asked to build on a preferred block that may be unverified (no output): nil-pointer dereference in the builder")
	}

	// R6
	r.guardedBy(w, lockSpec{Rule: "C20.R6", Owner: pkgSnow + ".VM", Fields: []string{"verifiedBlocks"}, Mutex: "verifiedL", Pkgs: []string{pkgSnow},
		ExemptFn: map[string]string{pkgSnow + ".NewVM": "constructor", nmSVM + "Initialize": "initialisation before the VM is handed to the engine"}, MinSites: 6})

	// R8: the bounded cache of accepted blocks holds wrappers with their accepted state: only setLastAccepted puts into it
	// (a lookup that caches the input-only wrapper it built from the index evicts the last accepted block)
	r.rule("C20.R8", "K3", "acceptedBlocksByID / acceptedBlocksByHeight are written only by setLastAccepted", 2)
	{
		n := 0
		for _, fn := range w.FnsInPkg(pkgSnow) {
			for _, e := range effectsOf(fn) {
				if strings.HasPrefix(e.Str, "call (*internal/cache.FIFO).Put(") && (strings.Contains(e.Str, ".acceptedBlocksByID, ") || strings.Contains(e.Str, ".acceptedBlocksByHeight, ")) {
					n++
					r.check(fnName(fn) == nmSVM+"setLastAccepted", "C20.R8", short(fnName(fn))+":accepted-cache-put", r.at(w, e.Ins), e.Str,
						"the accepted-block cache is written outside setLastAccepted ("+e.Str+"): entries without accepted state can evict the last accepted block, after which its children fail verification")
				}
			}
		}
		if n < 2 {
			r.missing("C20.R8", "setLastAccepted:puts", "the cache writes of setLastAccepted were not found")
		}
	}

	// R7
	gbf := r.fn(w, "C20.R7", nmSVM+"GetBlock")
	if gbf != nil {
		c1 := findEffects(gbf, "call (*internal/cache.FIFO).Get(p0.acceptedBlocksByID, p2)")
		c2 := callsTo(gbf, func(n string) bool { return strings.HasSuffix(n, "snow.ChainIndex).GetBlock") })
		okk := len(c1) == 1 && len(c2) == 1 && hasStr(c1[0].Conds(), "!p0.verifiedBlocks[p2]#1") && hasMatch(condStrings(ctrlConds(c2[0].Block())), "!(*internal/cache.FIFO).Get(p0.acceptedBlocksByID, p2)#1")
		r.check(okk, "C20.R7", "GetBlock:processing->accepted-cache->index", w.rel(gbf.Pos()), "", "GetBlock does not consult processing blocks, then the accepted cache, then the index, each on a miss")
		for _, c := range c2 {
			r.failureLeadsToErrorReturn(w, "C20.R7", "GetBlock:index-error-returned", c)
		}
	}
}

// pathOnlyVia: target is controlled (possibly through the negation) by an if on predicate pred: every path to it crosses such a branch.
func pathOnlyVia(fn *ssa.Function, target ssa.Instruction, pred string) bool {
	blocked := map[edgeKey]bool{}
	for _, b := range fn.Blocks {
		if ifi, ok := b.Instrs[len(b.Instrs)-1].(*ssa.If); ok && predString(ifi.Cond, true) == pred {
			blocked[edgeKey{b.Index, 0}] = true
			blocked[edgeKey{b.Index, 1}] = true
		}
	}
	if len(blocked) == 0 {
		return false
	}
	found, _ := pathExists(entry(fn), isInstr(target), nil, blocked)
	return !found
}

// ----------------------------------------------------------------------------- C21

func c21(r *Run) {
	w := r.W
	defer r.importRules(c20, "C20.R4")
	// finishing behind the tip re-processes the blocks accepted meanwhile: each on the state of the one before it
	defer r.importRules(c18, "C18.R8")
	// re-verification of processing blocks at the hand-over runs with the replay check
	defer r.importRules(c09, "C09.R1")
	r.rule("C21.R1", "K1/K20", "FinishStateSync under chainLock, refuses when ready, sets ready last after re-verification succeeded", 4)
	r.rule("C21.R2", "K1", "target behind tip => reprocess then setLastAccepted; target == tip => setAccepted; then setLastProcessed", 4)
	r.rule("C21.R3", "K2", "every failing processing block is recorded in the set given to the registered health check; pre-reject resolves", 7)
	r.rule("C21.R4", "K6", "health checks", 2)
	r.rule("C21.R5", "K1", "StartStateSync: index updated, then ready=false", 2)

	fs := r.fn(w, "C21.R1", nmSVM+"FinishStateSync")
	if fs != nil {
		lk := findEffects(fs, "call (*sync.Mutex).Lock(p0.chainLock)")
		ul := findEffects(fs, "defer (*sync.Mutex).Unlock(p0.chainLock)")
		okk := len(lk) == 1 && len(ul) == 1
		if okk {
			eachInstr(fs, func(i ssa.Instruction) {
				if ci, ok := i.(ssa.CallInstruction); ok && i != lk[0].Ins {
					if _, d := i.(*ssa.Defer); !d && !dominatesI(lk[0].Ins, ci) {
						okk = false
					}
				}
			})
		}
		r.check(okk, "C21.R1", "FinishStateSync:under-chainLock", w.rel(fs.Pos()), "", "FinishStateSync does not hold the chain lock for its whole body")
		r.guardTable(w, "C21.R1", fs, []guardRow{{Preds: []string{"p0.ready"}, Sentinel: "", Global: true, Label: "refuse-when-ready"}})
		rd := findEffects(fs, "store p0.ready = true")
		vp := callsNamed(fs, nmSVM+"verifyProcessingBlocks")
		if len(rd) == 1 && len(vp) == 1 {
			r.successGuards(w, "C21.R1", "FinishStateSync:ready-after-reverification", vp[0], rd[0].Ins)
			// last effect: nothing but the return follows
			okk := true
			for _, e := range effectsOf(fs) {
				if e.Ins != rd[0].Ins && !strings.HasPrefix(e.Str, "return") && reachableFrom(rd[0].Ins, e.Ins) && !strings.HasPrefix(e.Str, "store alloc()") {
					okk = false
				}
			}
			r.check(okk, "C21.R1", "FinishStateSync:ready-is-last", r.at(w, rd[0].Ins), "", "effects follow the transition to ready")
			// R2
			rp := callsNamed(fs, nmSVM+"reprocessFromOutputToInput")
			sa := callsNamed(fs, nmSB+"setAccepted")
			sla := callsNamed(fs, nmSVM+"setLastAccepted")
			slp := callsNamed(fs, nmSVM+"setLastProcessed")
			if len(rp) == 1 && len(sa) == 1 && len(sla) == 1 && len(slp) == 1 {
				same := "(*snow.StatefulBlock).GetID(p0.lastAcceptedBlock) == (*).GetID(p2)"
				csA := condStrings(ctrlConds(sa[0].Block()))
				csR := condStrings(ctrlConds(rp[0].Block()))
				r.check(hasMatchEither(csA, "*GetID(p2) == *GetID(p0.lastAcceptedBlock)", "*GetID(p0.lastAcceptedBlock) == *GetID(p2)"), "C21.R2", "FinishStateSync:target==tip=>setAccepted", r.at(w, sa[0]), same, "setAccepted is not applied exactly when the sync target is the last accepted block: {"+strings.Join(csA, " ; ")+"}")
				r.check(hasMatchEither(csR, "*GetID(p2) != *GetID(p0.lastAcceptedBlock)", "*GetID(p0.lastAcceptedBlock) != *GetID(p2)"), "C21.R2", "FinishStateSync:target-behind-tip=>reprocess", r.at(w, rp[0]), "", "re-processing is not applied exactly when the target is behind the tip")
				r.successGuards(w, "C21.R2", "FinishStateSync:setLastAccepted-after-reprocess", rp[0], sla[0])
				a := argTerms(rp[0])
				r.check(len(a) == 5 && a[2] == "p0.lastAcceptedBlock.Input" && a[3] == "p3" && a[4] == "p4", "C21.R2", "FinishStateSync:reprocess(tip.Input, output, accepted)", r.at(w, rp[0]), "", "re-processing does not run from the synced (output, accepted) to the tip's input")
				r.requireOrder(w, "C21.R2", "FinishStateSync:setLastProcessed-before-reverification", slp[0], vp[0])
			} else {
				r.missing("C21.R2", "FinishStateSync:branches", "reprocess / setAccepted / setLastAccepted / setLastProcessed not found")
			}
		} else {
			r.missing("C21.R1", "FinishStateSync:ready", "ready=true / verifyProcessingBlocks not found")
		}
	}

	vpb := r.fn(w, "C21.R3", nmSVM+"verifyProcessingBlocks")
	if vpb != nil {
		srt := findEffects(vpb, "call slices.SortFunc(*")
		vc := callsNamed(vpb, nmSB+"verify")
		adds := findEffects(vpb, "call (*ago/utils/set.Set).Add(alloc(invalidBlkIDs), [(*snow.StatefulBlock).ID(*)])")
		if len(adds) == 0 {
			adds = findEffects(vpb, "call (*ago/utils/set.Set).Add(*, [(*snow.StatefulBlock).ID(*)])")
		}
		if len(vc) == 1 && len(srt) == 1 {
			r.requireOrder(w, "C21.R3", "verifyProcessingBlocks:sorted-before-verify", srt[0].Ins, vc[0])
			if lit := literalArg(srt[0].Ins.(ssa.CallInstruction), 1); lit != nil {
				r.saw(lit)
				okk := false
				for _, o := range returnOutcomes(lit) {
					if len(o.Vals) == 1 && term(o.Vals[0]) == "-1" && hasMatch(o.Conds, "(*snow.StatefulBlock).Height(p0) < (*snow.StatefulBlock).Height(p1)") {
						okk = true
					}
				}
				r.check(okk, "C21.R3", "verifyProcessingBlocks:ascending-height", w.rel(lit.Pos()), "", "processing blocks are not sorted by ascending height")
			}
			// every failure edge records the block: unverified parent and verify error
			isAdd := func(i ssa.Instruction) bool {
				for _, a := range adds {
					if a.Ins == i {
						return true
					}
				}
				return false
			}
			h, _ := innermostLoop(vc[0].Block())
			hdr := func(i ssa.Instruction) bool { return h != nil && i.Block() == h && instrIndex(i) == 0 }
			// verify error edge
			okV, tested := true, false
			for _, ev := range errResults(vc[0]) {
				pos, _ := truthEdges(ev)
				for k := range pos {
					tested = true
					tgt := vpb.Blocks[k[0]].Succs[k[1]]
					if found, _ := pathExists(point{tgt, 0}, hdr, isAdd, nil); found {
						okV = false
					}
				}
			}
			r.check(okV && tested && len(adds) >= 1, "C21.R3", "verifyProcessingBlocks:verify-failure-recorded", r.at(w, vc[0]), "", "a processing block that fails re-verification is not recorded as unresolved (the node would report healthy)")
			// unverified parent edge
			okP := false
			for _, b := range vpb.Blocks {
				if ifi, ok := b.Instrs[len(b.Instrs)-1].(*ssa.If); ok && glob("(*snow.VM).GetBlock(*)#0.verified", predString(ifi.Cond, true)) {
					tgt := b.Succs[1]
					found, _ := pathExists(point{tgt, 0}, hdr, isAdd, nil)
					okP = !found
				}
			}
			r.check(okP, "C21.R3", "verifyProcessingBlocks:unverified-parent-recorded", w.rel(vpb.Pos()), "", "a processing block whose parent is unverified is not recorded as unresolved")
			// every processing block is examined: the loop is left only by exhaustion or by an error return
			if h != nil {
				ex := earlyLoopExits(h, naturalLoop(h))
				at := w.rel(vpb.Pos())
				if len(ex) > 0 {
					at = r.at(w, ex[0].Instrs[len(ex[0].Instrs)-1])
				}
				r.check(len(ex) == 0, "C21.R3", "verifyProcessingBlocks:every-block-examined", at, "the loop over processing blocks has no break-like exit", "the loop over processing blocks stops early: later processing blocks are neither re-verified nor recorded as unresolved")
			} else {
				r.missing("C21.R3", "verifyProcessingBlocks:every-block-examined", "loop over processing blocks not found")
			}
			// verify runs on parent output
			r.check(glob("(*snow.VM).GetBlock(*)#0.Output", term(vc[0].Common().Args[2])), "C21.R3", "verifyProcessingBlocks:verify(parent.Output)", r.at(w, vc[0]), "", "re-verification does not run on the parent's output")
		} else {
			r.missing("C21.R3", "verifyProcessingBlocks:shape", "sort / verify not found")
		}
		// the same set goes to the health check which is registered; pre-rejected sub resolves
		nh := findEffects(vpb, "call snow.newUnresolvedBlocksHealthCheck(alloc(invalidBlkIDs))")
		if len(nh) == 0 {
			nh = findEffects(vpb, "call snow.newUnresolvedBlocksHealthCheck(*)")
		}
		rg := findEffects(vpb, "call (*snow.VM).RegisterHealthChecker(p0, *, snow.newUnresolvedBlocksHealthCheck(*))")
		sub := findEffects(vpb, "call (*snow.VM).AddPreRejectedSub(p0, *)")
		okk := len(nh) == 1 && len(rg) == 1 && len(sub) == 1
		if okk && len(adds) >= 1 {
			okk = sameValue(outerValue(callArgs(nh[0].Ins.(ssa.CallInstruction))[0]), outerValue(callArgs(adds[0].Ins.(ssa.CallInstruction))[0])) || strings.Contains(nh[0].Str, "invalidBlkIDs") && strings.Contains(adds[0].Str, "invalidBlkIDs") || term(callArgs(nh[0].Ins.(ssa.CallInstruction))[0]) == strings.TrimSuffix(strings.TrimPrefix(term(callArgs(adds[0].Ins.(ssa.CallInstruction))[0]), "&"), "")
		}
		r.check(okk, "C21.R3", "verifyProcessingBlocks:set->health-check->registered+resolver", w.rel(vpb.Pos()), "", "the set of failed blocks is not handed to a registered unresolved-blocks health check with a pre-reject resolver")
		for _, c := range callsNamed(vpb, nmSVM+"RegisterHealthChecker") {
			r.failureLeadsToErrorReturn(w, "C21.R3", "verifyProcessingBlocks:register-error-returned", c)
		}
		var resolver *ssa.Function
		for _, lit := range withNested(vpb) {
			if lit != vpb && len(findEffects(lit, "call (*snow.unresolvedBlockHealthCheck).Resolve(*, (*).GetID(p1))")) == 1 {
				resolver = lit
			}
		}
		if resolver != nil {
			r.saw(resolver)
			r.ok("C21.R3", "verifyProcessingBlocks:pre-reject-resolves-id", w.rel(resolver.Pos()), "the pre-reject subscription resolves the rejected block's ID")
			// rejections are tracked from before the snapshot of processing blocks: the subscription is installed first, it
			// records every rejected ID, and recorded IDs are removed from the failed set before the health check is built
			rec := findEffects(resolver, "call (*ago/utils/set.Set).Add(fv:rejected, [(*).GetID(p1)])")
			snap := findEffects(vpb, "call (*sync.RWMutex).Lock(p0.verifiedL)")
			diff := findEffects(vpb, "call (*ago/utils/set.Set).Difference(alloc(invalidBlkIDs), *)")
			okT := len(rec) == 1 && len(rec[0].Conds()) == 0 && len(sub) == 1 && len(snap) >= 1 && len(diff) == 1 && len(nh) == 1
			if okT {
				okT = dominatesI(sub[0].Ins, snap[0].Ins) && dominatesI(diff[0].Ins, nh[0].Ins)
				// the set subtracted is the one the subscription records into
				for _, fv := range resolver.FreeVars {
					if fv.Name() != "rejected" {
						continue
					}
					if bd := bindingOf(fv); bd != nil {
						arg := strip(callArgs(diff[0].Ins.(ssa.CallInstruction))[1])
						same := sameValue(arg, strip(bd))
						if ld, ok := arg.(*ssa.UnOp); ok && ld.X == bd {
							same = true // the captured variable itself
						}
						okT = okT && same
					}
				}
			}
			r.check(okT, "C21.R3", "verifyProcessingBlocks:rejections-tracked-from-before-the-snapshot", w.rel(vpb.Pos()), "",
				"a block rejected while processing blocks are re-verified is not taken out of the unresolved set (the subscription is installed after the snapshot, or recorded rejections are not subtracted): the node stays unhealthy forever")
		} else {
			r.bad("C21.R3", "verifyProcessingBlocks:pre-reject-resolves-id", w.rel(vpb.Pos()), "the pre-reject subscription does not resolve the rejected block's ID")
		}
	}

	// R4
	hc := r.fn(w, "C21.R4", "(*"+pkgSnow+".unresolvedBlockHealthCheck).HealthCheck")
	if hc != nil {
		r.guardTable(w, "C21.R4", hc, []guardRow{{Preds: []string{"0 < (ago/utils/set.Set).Len(p0.unresolvedBlocks)"}, Sentinel: "snow.errUnresolvedBlocks", Global: true, Label: "unresolved=>unhealthy"}})
	}
	rc := r.fn(w, "C21.R4", "(*"+pkgSnow+".vmReadinessHealthCheck).HealthCheck")
	if rc != nil {
		r.guardTable(w, "C21.R4", rc, []guardRow{{Preds: []string{"!dyn:p0.isReady()"}, Sentinel: "snow.errVMNotReady", Global: true, Label: "not-ready=>unhealthy"}})
	}
	// R5
	ss := r.fn(w, "C21.R5", nmSVM+"StartStateSync")
	if ss != nil {
		ul := callsTo(ss, func(n string) bool { return strings.HasSuffix(n, ".UpdateLastAccepted") })
		rf := findEffects(ss, "store p0.ready = false")
		sl := callsNamed(ss, nmSVM+"setLastAccepted")
		if len(ul) == 1 && len(rf) == 1 && len(sl) == 1 {
			r.successGuards(w, "C21.R5", "StartStateSync:index-before-not-ready", ul[0], rf[0].Ins)
			r.requireOrder(w, "C21.R5", "StartStateSync:not-ready-before-last-accepted", rf[0].Ins, sl[0])
		} else {
			r.missing("C21.R5", "StartStateSync:shape", "UpdateLastAccepted / ready=false / setLastAccepted not found")
		}
	}
}

func hasMatchEither(list []string, a, b string) bool { return hasMatch(list, a) || hasMatch(list, b) }
