package main

import (
	"fmt"
	"go/token"
	"go/types"
	"reflect"
	"sort"
	"strings"

	"golang.org/x/tools/go/ssa"
)

const (
	pkgABI = H + "/abi"
	pkgDyn = H + "/abi/dynamic"
)

func init() {
	register(&propDef{
		ID: "C29",
		Explain: "Decides the type-coverage and sibling-agreement clauses of the ABI codec: every serialised field of every action/output type registered with a TypeParser " +
			"(test support package and reference VM) has a type name that the ABI describer emits and the reflection builder can reconstruct (case labels extracted from " +
			"getReflectType, label and Go type agree, nested structs recursively, no colliding names); the reflection-built field carries the serialize tag, the ABI field " +
			"name as JSON name and keeps field order; dynamic and native encoders both write the type ID byte followed by the linear codec's encoding; the dynamic encoder " +
			"resolves IDs of actions and of outputs; the describer skips exactly the untagged fields. Not decided: byte equality for concrete values (reflection and " +
			"third-party linear codec behaviour), JSON equality for types with custom text marshalers.",
		Run: c29,
	})
}

// reflectName mimics reflect.Type.Name(): the declared name, or "" for unnamed composite types.
func reflectName(t types.Type) string {
	t = types.Unalias(t)
	switch x := t.(type) {
	case *types.Named:
		return x.Obj().Name()
	case *types.Basic:
		switch x.Kind() {
		case types.Uint8:
			return "uint8"
		case types.Int32:
			return "int32"
		}
		return x.Name()
	}
	return ""
}

// abiFieldNameOK: getReflectType title-cases the JSON name into the Go field name of the rebuilt struct, which must
// be an exported identifier (word breaks other than '_' produce characters no identifier may contain).
func abiFieldNameOK(n string) bool {
	for i, c := range n {
		letter := c >= 'a' && c <= 'z' || c >= 'A' && c <= 'Z'
		if i == 0 && !letter {
			return false
		}
		if !(letter || c >= '0' && c <= '9' || c == '_') {
			return false
		}
	}
	return n != ""
}

type abiLeaf struct {
	Path string // pkg.Type.Field
	Name string // ABI leaf type name
	T    types.Type
	Bad  string // why the describer cannot express it
	JSON string
}

// abiLeaves walks a struct type the way abi.describeStruct does and returns the leaf type of every serialised field;
// nested named structs are returned in nested.
func abiLeaves(owner string, st *types.Struct, out *[]abiLeaf, nested *[]*types.Named) {
	for i := 0; i < st.NumFields(); i++ {
		f := st.Field(i)
		tag := reflect.StructTag(st.Tag(i))
		if tag.Get("serialize") != "true" {
			continue
		}
		jsonName := f.Name()
		jsonOpts := ""
		if j := tag.Get("json"); j != "" {
			parts := strings.SplitN(j, ",", 2)
			jsonName = parts[0]
			if len(parts) == 2 {
				jsonOpts = parts[1]
			}
		}
		ft := types.Unalias(f.Type())
		if f.Anonymous() {
			if s, ok := ft.Underlying().(*types.Struct); ok {
				if tag.Get("json") != "" && jsonName != "" {
					*out = append(*out, abiLeaf{Path: owner + "." + f.Name(), JSON: jsonName, Bad: "embedded struct with a JSON name: the ABI flattens its fields while encoding/json nests them under \"" + jsonName + "\""})
				}
				abiLeaves(owner+"."+f.Name(), s, out, nested)
				continue
			}
		}
		leaf := abiLeaf{Path: owner + "." + f.Name(), JSON: jsonName}
		switch {
		case jsonName == "":
			leaf.Bad = "empty ABI field name (json tag with options but no name): reflect.StructOf panics on it"
		case !abiFieldNameOK(jsonName):
			leaf.Bad = "JSON name \"" + jsonName + "\" does not title-case to an exported Go identifier: reflect.StructOf panics on it"
		case jsonOpts != "":
			leaf.Bad = "json tag options (" + jsonOpts + ") are dropped by the ABI: the value's own JSON is rejected or differs from the decoded JSON"
		}
		for reflectName(ft) == "" && leaf.Bad == "" {
			switch x := ft.(type) {
			case *types.Array:
				ft = types.Unalias(x.Elem())
			case *types.Slice:
				ft = types.Unalias(x.Elem())
			case *types.Pointer:
				leaf.Bad = "pointer field: the describer emits it as a slice ('[]')"
			default:
				leaf.Bad = fmt.Sprintf("unnamed %T field is not expressible in the ABI", x)
			}
		}
		leaf.T = ft
		leaf.Name = reflectName(ft)
		if n, ok := ft.(*types.Named); ok && leaf.Bad == "" {
			if _, isStruct := n.Underlying().(*types.Struct); isStruct {
				*nested = append(*nested, n)
			}
		}
		*out = append(*out, leaf)
	}
}

func c29(r *Run) {
	w := r.W
	r.rule("C29.R1", "K17", "every serialised field of every registered action/output type is reconstructible by getReflectType", 10)
	r.rule("C29.R2", "K12", "getReflectType: each case label returns the reflect type of the Go type of that name", 11)
	r.rule("C29.R3", "K1", "dynamic Marshal/Unmarshal: type ID byte (actions, else outputs) then linear codec; decode skips the ID byte and uses the matching table", 8)
	r.rule("C29.R4", "K12", "reflection-built struct field: serialize tag, ABI field name as JSON name, type from the field's ABI type, order kept", 4)
	r.rule("C29.R5", "K12", "native encoders of registered types write their own type ID then LinearCodec.MarshalInto(self)", 3)
	r.rule("C29.R6", "K6", "describeStruct skips exactly the fields without serialize:\"true\" and names fields by the first part of the json tag", 3)

	// ---- R2: labels of getReflectType
	grt := r.fn(w, "C29.R2", pkgDyn+".getReflectType")
	labels := map[string]types.Type{}
	if grt != nil {
		for _, o := range returnOutcomes(grt) {
			if len(o.Vals) != 2 {
				continue
			}
			call, ok := strip(o.Vals[0]).(*ssa.Call)
			if !ok || calleeName(call) != "reflect.TypeOf" {
				continue
			}
			var label string
			for _, c := range o.Conds {
				if strings.HasSuffix(c, " == p0") && strings.HasPrefix(c, "\"") {
					label = strings.Trim(strings.TrimSuffix(c, " == p0"), "\"")
				}
			}
			if label == "" {
				r.bad("C29.R2", "getReflectType:unlabelled-return", r.at(w, o.Ret), "a reflect.TypeOf return is not selected by a type-name case")
				continue
			}
			gt := boxedType(call.Call.Args[0])
			if gt == nil {
				r.bad("C29.R2", "getReflectType:case:"+label, r.at(w, o.Ret), "the returned reflect type is not that of a static Go value")
				continue
			}
			labels[label] = gt
			r.check(reflectName(gt) == label, "C29.R2", "getReflectType:case:"+label, r.at(w, o.Ret), "returns reflect.TypeOf("+short(gt.String())+")",
				fmt.Sprintf("case %q builds values of Go type %s: encodings of fields declared %s change width or JSON form", label, short(gt.String()), label))
		}
		// slices, arrays and custom structs
		r.requireEffect(w, "C29.R2", "getReflectType:slice", grt, "call reflect.SliceOf(abi/dynamic.getReflectType(strings.TrimPrefix(p0, \"[]\"), *)#0)", "strings.HasPrefix(p0, \"[]\")")
		r.requireEffect(w, "C29.R2", "getReflectType:array", grt, "call reflect.ArrayOf(strconv.Atoi((*regexp.Regexp).FindStringSubmatch(abi/dynamic.fixedSizeArrayRegex, p0)[1])#0, abi/dynamic.getReflectType((*regexp.Regexp).FindStringSubmatch(abi/dynamic.fixedSizeArrayRegex, p0)[2], *)#0)")
	}

	// ---- R1: registered types
	type regType struct {
		named *types.Named
		world *World
		at    string
		role  string
	}
	var regs []regType
	for _, ww := range []*World{w, r.MW()} {
		if ww == nil {
			continue
		}
		for _, fn := range ww.srcFns {
			for _, c := range callsTo(fn, func(n string) bool { return n == "(*"+pkgCodec+".TypeParser).Register" }) {
				a := c.Common().Args
				if len(a) < 2 {
					continue
				}
				role := "typed"
				if pt, ok := a[0].Type().(*types.Pointer); ok {
					if nt, ok := pt.Elem().(*types.Named); ok && nt.TypeArgs() != nil && nt.TypeArgs().Len() > 0 {
						role = short(nt.TypeArgs().At(0).String())
					}
				}
				if strings.HasSuffix(role, "chain.Auth") {
					continue // auth types are not part of the ABI
				}
				t := boxedType(a[1])
				if p, ok := t.(*types.Pointer); ok {
					t = p.Elem()
				}
				nt, _ := types.Unalias(t).(*types.Named)
				if nt == nil {
					r.bad("C29.R1", short(fnName(fn))+":Register:dynamic-type", r.at(ww, c), "the registered instance has no statically known named type")
					continue
				}
				regs = append(regs, regType{nt, ww, r.at(ww, c), role})
			}
		}
	}
	sort.Slice(regs, func(i, j int) bool { return regs[i].named.String() < regs[j].named.String() })
	customs := map[string]*types.Named{}
	seen := map[string]bool{}
	onPath := map[string]bool{}
	var visit func(nt *types.Named, at string)
	visit = func(nt *types.Named, at string) {
		key := nt.String()
		if seen[key] {
			return
		}
		seen[key] = true
		tn := short(nt.Obj().Pkg().Path()) + "." + nt.Obj().Name()
		st, ok := nt.Underlying().(*types.Struct)
		if !ok {
			r.bad("C29.R1", "type:"+tn, at, "registered type is not a struct: NewABI fails")
			return
		}
		if prev, dup := customs[nt.Obj().Name()]; dup && prev.String() != key {
			r.bad("C29.R1", "type:"+tn+":name-collision", at, fmt.Sprintf("struct types %s and %s share the ABI name %q: only the first is described", short(prev.String()), short(key), nt.Obj().Name()))
		}
		customs[nt.Obj().Name()] = nt
		if _, clash := labels[nt.Obj().Name()]; clash {
			r.bad("C29.R1", "type:"+tn+":shadows-builtin", at, "struct type name equals a built-in ABI type name")
		}
		var leaves []abiLeaf
		var nested []*types.Named
		abiLeaves(tn, st, &leaves, &nested)
		if len(leaves) == 0 {
			r.ok("C29.R1", "type:"+tn, at, "no serialised fields")
		}
		for _, l := range leaves {
			switch {
			case l.Bad != "":
				r.bad("C29.R1", "field:"+l.Path, at, l.Bad)
			case labels[l.Name] != nil:
				// compared by qualified name: the two modules are loaded as separate type universes
				r.check(types.Unalias(labels[l.Name]).String() == l.T.String() || (isBasic(l.T) && reflectName(labels[l.Name]) == l.Name && isBasic(labels[l.Name])), "C29.R1", "field:"+l.Path, at,
					"ABI type "+l.Name, fmt.Sprintf("field type %s is emitted as %q, which getReflectType rebuilds as %s", short(l.T.String()), l.Name, short(labels[l.Name].String())))
			default:
				if n, ok := l.T.(*types.Named); ok {
					if _, isStruct := n.Underlying().(*types.Struct); isStruct {
						r.ok("C29.R1", "field:"+l.Path, at, "nested struct "+l.Name)
						continue
					}
					r.bad("C29.R1", "field:"+l.Path, at, fmt.Sprintf("named non-struct type %s is emitted as %q, which getReflectType cannot resolve (no case, no ABI type entry): the value cannot be encoded or decoded through the ABI", short(n.String()), l.Name))
					continue
				}
				r.bad("C29.R1", "field:"+l.Path, at, fmt.Sprintf("type name %q has no case in getReflectType: the value cannot be encoded or decoded through the ABI", l.Name))
			}
		}
		titled := map[string]string{}
		for _, l := range leaves {
			if l.Bad != "" || l.JSON == "" {
				continue
			}
			k := strings.ToLower(l.JSON)
			if prev, dup := titled[k]; dup {
				r.bad("C29.R1", "field:"+l.Path+":name-collision", at, fmt.Sprintf("JSON names %q and %q title-case to the same Go field name: reflect.StructOf panics on the duplicate", prev, l.JSON))
			}
			titled[k] = l.JSON
		}
		onPath[key] = true
		for _, n := range nested {
			if onPath[n.String()] {
				r.bad("C29.R1", "type:"+tn+":recursive", at, fmt.Sprintf("%s contains itself through %s: getReflectType recurses without bound", tn, short(n.String())))
				continue
			}
			visit(n, at)
		}
		delete(onPath, key)
	}
	for _, rt := range regs {
		visit(rt.named, rt.at)
	}
	if len(regs) < 4 {
		r.missing("C29.R1", "registrations", fmt.Sprintf("expected the action and output registrations of the test parser and the reference VM, found %d", len(regs)))
	}

	// ---- R5: native encoders
	for _, rt := range regs {
		tn := "(*" + rt.named.Obj().Pkg().Path() + "." + rt.named.Obj().Name() + ")"
		enc := rt.world.Fn(tn + ".Bytes")
		if enc == nil {
			continue // a type without its own encoder (e.g. an empty output) has nothing to agree with
		}
		r.saw(enc)
		gid := rt.world.Fn(tn + ".GetTypeID")
		idTerm := ""
		if gid != nil {
			if outs := returnOutcomes(gid); len(outs) == 1 && len(outs[0].Vals) == 1 {
				idTerm = term(outs[0].Vals[0])
			}
		}
		pb := findEffects(enc, "call (*ago/utils/wrappers.Packer).PackByte(*")
		mi := findEffects(enc, "call (ago/codec.Codec).MarshalInto(codec.LinearCodec, p0, *")
		okk := len(pb) == 1 && len(mi) == 1 && dominatesI(pb[0].Ins, mi[0].Ins)
		if okk {
			arg := term(pb[0].Ins.(ssa.CallInstruction).Common().Args[1])
			okk = arg == idTerm || arg == short(tn)+".GetTypeID(p0)"
			// same packer
			ma := callArgs(mi[0].Ins.(ssa.CallInstruction))
			okk = okk && term(pb[0].Ins.(ssa.CallInstruction).Common().Args[0]) == term(ma[len(ma)-1])
		}
		r.check(okk, "C29.R5", short(tn)+".Bytes", rt.world.rel(enc.Pos()), "PackByte(own type ID) then LinearCodec.MarshalInto(self)", "the native encoder is not 'own type ID byte, then the linear codec over the value' (the ABI encoder writes exactly that)")
	}

	// ---- R3: dynamic Marshal / Unmarshal
	mar := r.fn(w, "C29.R3", pkgDyn+".Marshal")
	if mar != nil {
		pb := findEffects(mar, "call (*ago/utils/wrappers.Packer).PackByte(*")
		mi := findEffects(mar, "call (ago/codec.Codec).MarshalInto(codec.LinearCodec, (reflect.Value).Interface(reflect.New(abi/dynamic.getReflectType(p1, *)#0)), *")
		r.check(len(pb) == 1 && len(mi) == 1 && dominatesI(pb[0].Ins, mi[0].Ins), "C29.R3", "Marshal:id-then-linear-codec", w.rel(mar.Pos()), "", "Marshal does not write the type ID byte and then the linear codec's encoding of the value built for the named type")
		r.requireEffect(w, "C29.R3", "Marshal:json-into-built-value", mar, "call encoding/json.Unmarshal([]byte(p2), (reflect.Value).Interface(reflect.New(abi/dynamic.getReflectType(p1, *)#0)))")
		if len(pb) == 1 {
			id := term(pb[0].Ins.(ssa.CallInstruction).Common().Args[1])
			r.check(strings.Contains(id, ".Actions[") && strings.Contains(id, ".ID") && strings.Contains(id, "FindOutputByName(") && strings.Contains(id, "#0.ID"), "C29.R3", "Marshal:id-from-actions-else-outputs", r.at(w, pb[0].Ins), "",
				"the type ID written is not the matching action's ID or, failing that, the matching output's ID: "+id)
			// the action ID is taken only where the names are equal
			okN := false
			for _, b := range mar.Blocks {
				if ifi, ok := b.Instrs[len(b.Instrs)-1].(*ssa.If); ok && glob("*.Actions[*].Name == p1", predString(ifi.Cond, true)) || ok && glob("p1 == *.Actions[*].Name", predString(ifi.Cond, true)) {
					okN = true
				}
			}
			r.check(okN, "C29.R3", "Marshal:action-selected-by-name", w.rel(mar.Pos()), "", "the action whose ID is written is not selected by name equality")
		}
	}
	um := r.fn(w, "C29.R3", pkgDyn+".Unmarshal")
	if um != nil {
		uf := r.requireEffect(w, "C29.R3", "Unmarshal:linear-codec-into-built-value", um, "call (ago/codec.Codec).UnmarshalFrom(codec.LinearCodec, alloc(packer), (reflect.Value).Interface(reflect.New(abi/dynamic.getReflectType(p2, *)#0)))")
		jm := findEffects(um, "call encoding/json.Marshal((reflect.Value).Interface(reflect.New(abi/dynamic.getReflectType(p2, *)#0)))")
		if len(uf) == 1 && len(jm) == 1 {
			r.successGuards(w, "C29.R3", "Unmarshal:json-after-successful-decode", uf[0].Ins.(ssa.CallInstruction), jm[0].Ins)
		} else {
			r.missing("C29.R3", "Unmarshal:json-after-successful-decode", "decode / json.Marshal of the same value not found")
		}
		r.requireEffect(w, "C29.R3", "Unmarshal:whole-payload", um, "store alloc(packer).Bytes = p1")
	}
	for _, p := range [][2]string{{"UnmarshalAction", "FindActionByID"}, {"UnmarshalOutput", "FindOutputByID"}} {
		f := r.fn(w, "C29.R3", pkgDyn+"."+p[0])
		if f == nil {
			continue
		}
		pat := "call abi/dynamic.Unmarshal(alloc(inputABI), p1[1:], (*abi.ABI)." + p[1] + "(alloc(inputABI), p1[0])#0.Name)"
		r.requireEffect(w, "C29.R3", p[0]+":payload-after-id,type-from-"+p[1], f, pat, "(*abi.ABI)."+p[1]+"(alloc(inputABI), p1[0])#1")
	}
	for _, p := range [][2]string{{"FindActionByID", "Actions"}, {"FindOutputByID", "Outputs"}, {"FindOutputByName", "Outputs"}, {"FindActionByName", "Actions"}} {
		f := r.fn(w, "C29.R3", "(*"+pkgABI+".ABI)."+p[0])
		if f == nil {
			continue
		}
		okk := false
		fld := "ID"
		if strings.HasSuffix(p[0], "Name") {
			fld = "Name"
		}
		for _, o := range returnOutcomes(f) {
			if len(o.Vals) == 2 && term(o.Vals[1]) == "true" {
				v := term(o.Vals[0])
				okk = strings.Contains(v, "p0."+p[1]+"[") && (hasMatch(o.Conds, "p1 == *p0."+p[1]+"[*]."+fld) || hasMatch(o.Conds, "*p0."+p[1]+"[*]."+fld+" == p1"))
			}
		}
		r.check(okk, "C29.R3", "ABI."+p[0], w.rel(f.Pos()), "returns the entry of "+p[1]+" whose "+fld+" equals the argument", "the lookup does not return the entry of "+p[1]+" whose "+fld+" equals the argument")
	}

	// ---- R4: reflection-built struct fields
	if grt != nil {
		sf := findEffects(grt, "store alloc(makeslice)*[*].Tag = *")
		if len(sf) == 0 {
			sf = findEffects(grt, "store *.Tag = *")
		}
		if len(sf) == 1 {
			tag := sf[0].Str
			r.check(strings.Contains(tag, `serialize:\"true\" json:\"%s\"`) && strings.Contains(tag, ".Name]"), "C29.R4", "getReflectType:field-tag", r.at(w, sf[0].Ins), "serialize:\"true\" json:\"<ABI field name>\"",
				"the reflection-built field is not tagged serialize:\"true\" with the ABI field name as its JSON name (the linear codec would skip it / JSON keys would differ): "+tag)
		} else {
			r.missing("C29.R4", "getReflectType:field-tag", fmt.Sprintf("struct field tag store not found (%d)", len(sf)))
		}
		ty := findEffects(grt, "store *.Type = abi/dynamic.getReflectType(*.Fields[*].Type, *)#0")
		r.check(len(ty) == 1, "C29.R4", "getReflectType:field-type", w.rel(grt.Pos()), "", "the reflection-built field's type is not built from the ABI field's type name")
		nm := findEffects(grt, "store *.Name = (golang.org/x/text/cases.Caser).String(*, *.Fields[*].Name)")
		r.check(len(nm) == 1, "C29.R4", "getReflectType:field-name", w.rel(grt.Pos()), "", "the reflection-built field is not named after the ABI field (exported form)")
		// order: field i of the ABI type goes to slot i
		okk := false
		slot := findEffects(grt, "store makeslice([]reflect.StructField, *)[*] = alloc(complit)")
		if len(ty) == 1 && len(slot) == 1 {
			if st, ok := slot[0].Ins.(*ssa.Store); ok {
				if ia, ok := st.Addr.(*ssa.IndexAddr); ok {
					okk = strings.Contains(ty[0].Str, ".Fields["+term(ia.Index)+"].Type")
				}
			}
		}
		r.check(okk, "C29.R4", "getReflectType:field-order", w.rel(grt.Pos()), "slot i <- ABI field i", "the reflection-built struct does not keep the ABI field order (the linear codec encodes fields in order)")
	}

	// ---- R6: describeStruct
	ds := r.fn(w, "C29.R6", pkgABI+".describeStruct")
	if ds != nil {
		tagGet := "(reflect.StructTag).Get((reflect.Type).Field(p0, *).Tag, \"serialize\")"
		var appends []*effect
		for _, e := range effectsOf(ds) {
			if strings.HasPrefix(e.Str, "call builtin.append(") || strings.HasPrefix(e.Str, "call abi.describeStruct(") {
				appends = append(appends, e)
			}
		}
		okk := len(appends) > 0
		for _, e := range appends {
			if !hasMatch(e.Conds(), "\"true\" == "+tagGet) {
				okk = false
			}
		}
		r.check(okk, "C29.R6", "describeStruct:only-serialised-fields", w.rel(ds.Pos()), "every emitted field passed serialize == \"true\"", "a field without serialize:\"true\" can be emitted (the linear codec does not encode it)")
		// no other filter: the conditions of the plain-field append are the tag test, the struct-kind test, the loop bound and the embedded test
		okF := false
		for _, e := range appends {
			if strings.Contains(e.Str, "[alloc(complit)]") {
				okF = true
				for _, c := range e.Conds() {
					if !(glob("\"true\" == "+tagGet, c) || glob("(reflect.Type).Kind(p0) == 25", c) || glob("* < (reflect.Type).NumField(p0)", c) || strings.Contains(c, ".Anonymous") || strings.Contains(c, "(reflect.Type).Kind((reflect.Type).Field(p0, ") || strings.Contains(c, "(reflect.Type).Name(")) {
						okF = false
					}
				}
			}
		}
		r.check(okF, "C29.R6", "describeStruct:no-other-filter", w.rel(ds.Pos()), "", "a serialised field can be left out of the description (the linear codec still encodes it)")
		r.requireEffect(w, "C29.R6", "describeStruct:json-name", ds, "call strings.Split((reflect.StructTag).Get((reflect.Type).Field(p0, *).Tag, \"json\"), \",\")")
		// slice/array layers are written outermost first (getReflectType peels them from the left, R2): every string
		// concatenation that extends the accumulated prefix keeps the accumulator on the left
		acc := map[ssa.Value]bool{}
		eachInstr(ds, func(i ssa.Instruction) {
			if p, ok := i.(*ssa.Phi); ok && isStringType(p.Type()) {
				acc[p] = true
			}
		})
		appended, prepended := 0, ""
		eachInstr(ds, func(i ssa.Instruction) {
			b, ok := i.(*ssa.BinOp)
			if !ok || b.Op != token.ADD || !isStringType(b.Type()) {
				return
			}
			switch {
			case acc[b.X]:
				appended++
			case acc[b.Y]:
				prepended = r.at(w, b)
			}
		})
		r.check(appended >= 3 && prepended == "", "C29.R6", "describeStruct:layers-outermost-first", w.rel(ds.Pos()), fmt.Sprintf("%d concatenations extend the prefix on its right", appended),
			"a slice/array layer is written to the left of the layers already seen ("+prepended+"): mixed nestings such as [][32]uint8 are described inside out and rebuilt as a different type")
	}
	// R3: types built for one ABI are never reused for another: the memo given to getReflectType by an entry
	// point is a map made by that call
	if grt != nil {
		n := 0
		for _, fn := range w.FnsInPkg(pkgDyn) {
			if fn == grt {
				continue
			}
			for _, c := range callsNamed(fn, fnName(grt)) {
				n++
				a := callArgs(c)
				_, fresh := strip(a[len(a)-1]).(*ssa.MakeMap)
				r.check(fresh, "C29.R3", short(fnName(fn))+":type-memo-made-per-call", r.at(w, c), "", "the memo of built types handed to getReflectType is not a map made by this call ("+term(a[len(a)-1])+"): struct layouts built for one ABI are reused for a same-named type of another ABI")
			}
		}
		if n < 2 {
			r.missing("C29.R3", "getReflectType:entry-calls", fmt.Sprintf("only %d calls of getReflectType from entry points found", n))
		}
	}
}

// boxedType returns the static type of the concrete value converted to the interface value v, or nil.
func boxedType(v ssa.Value) types.Type {
	for {
		switch x := v.(type) {
		case *ssa.MakeInterface:
			return x.X.Type()
		case *ssa.ChangeInterface:
			v = x.X
		case *ssa.ChangeType:
			v = x.X
		default:
			return nil
		}
	}
}

func isBasic(t types.Type) bool {
	_, ok := types.Unalias(t).(*types.Basic)
	return ok
}
