package main

import (
	"fmt"
	"strings"

	"golang.org/x/tools/go/ssa"
)

const pkgDsmr = H + "/x/dsmr"

func init() {
	register(&propDef{
		ID: "C35",
		Explain: "Decides the error/value discipline and the append structure of DSMR Accept: the bytes returned by the local chunk lookup are parsed only on a path " +
			"where the lookup succeeded (the not-found branch does not fall through, other errors return); a fetched chunk is appended only after VerifyRemoteChunk " +
			"accepted it; per certificate exactly one of {parsed local chunk, fetched chunk} is appended, in certificate order; the validity window and the storage " +
			"minimum are advanced after all chunks were collected. Not decided: liveness of the fetch loop under faulty peers.",
		Run: c35,
	})
	register(&propDef{
		ID: "C36",
		Explain: "Decides the memory/database pairing of pending chunks: whenever SetMin drops a chunk from the in-memory pending set (saved as accepted or expired) it " +
			"deletes the chunk's pending record in the same batch, because restart rebuilds the pending set from that prefix; adding a chunk writes the record and " +
			"updates expiry map, pending map and producer weight together; restart restores all three; the minimum slot is written in the same batch and read at " +
			"start-up; key construction and parsing agree. Not decided: equality of the full state over all histories.",
		Run: c36,
	})
	register(&propDef{
		ID: "C37",
		Explain: "Decides builder/verifier agreement on chunk expiry and replay: BuildBlock drops certificates with Expiry < timestamp and those flagged by the validity " +
			"window; Verify rejects a block containing a certificate with Expiry < block.Timestamp on every path to success and returns the validity window's " +
			"replay verdict; Accept records the block in the window. Not decided: multi-block histories beyond these per-call guards.",
		Run: c37,
	})
	register(&propDef{
		ID: "C38",
		Explain: "Decides that bonding is idempotent per transaction (Bond consults the per-transaction record before adding the fee, as Unbond does before subtracting), " +
			"that balance and record are updated in one batch on both sides, that Unbond subtracts the recorded fee and is a no-op for unknown transactions, that Bond " +
			"rejects overflow and balances above the maximum before any write, and that the fee-DSMR node bonds before tracking and unbonds every expired and every " +
			"accepted pending transaction. Not decided: sums over arbitrary histories.",
		Run: c38,
	})
}

func c35(r *Run) {
	w := r.W
	r.rule("C35.R1", "K9", "local chunk bytes are used only where the lookup succeeded", 3)
	r.rule("C35.R2", "K1/K7", "fetched chunk appended only after verification; one append per certificate; window and storage advanced afterwards", 5)
	acc := r.fn(w, "C35.R1", "(*"+pkgDsmr+".Node).Accept")
	if acc == nil {
		return
	}
	get := callsNamed(acc, "(*"+pkgDsmr+".ChunkStorage).GetChunkBytes")
	parse := callsNamed(acc, pkgDsmr+".ParseChunk")
	if len(get) != 1 || len(parse) != 1 {
		r.missing("C35.R1", "Accept:lookup/parse", "expected one GetChunkBytes and one ParseChunk call")
		return
	}
	g := get[0]
	errv := errResults(g)
	// ParseChunk consumes the lookup's bytes
	b0 := resultN(g, 0)
	r.check(len(b0) == 1 && sameValue(parse[0].Common().Args[0], b0[0]), "C35.R1", "Accept:parse-consumes-lookup-bytes", r.at(w, parse[0]), "", "ParseChunk is not applied to the bytes returned by GetChunkBytes")
	// K9: no path from the lookup to ParseChunk on which err may be non-nil: it must be reachable only across edges where
	// errors.Is(err, ErrNotFound) is false AND err == nil
	okk := false
	detail := "the error of GetChunkBytes is never tested"
	if len(errv) == 1 {
		_, neg := truthEdges(errv[0]) // edges where err is known nil
		if len(neg) > 0 {
			found, tr := pathExists(after(g), isInstr(parse[0]), isInstr(g), neg)
			okk = !found
			if found {
				detail = fmt.Sprintf("ParseChunk(chunkBytes) is reachable on a path where the lookup's error is not known to be nil (blocks %v): after a chunk was fetched from a peer the nil local bytes are parsed", tr)
			}
		} else {
			detail = "the error of GetChunkBytes is never compared with nil before its bytes are parsed (only errors.Is(err, ErrNotFound) is tested, and that branch falls through)"
		}
	}
	r.check(okk, "C35.R1", "Accept:bytes-only-on-nil-error", r.at(w, parse[0]), "ParseChunk reachable only across err == nil", detail)
	// the not-found branch exists and leads to a remote request
	req := findEffects(acc, "call (*internal/typedclient.TypedClient).AppRequest(*")
	r.check(len(req) == 1 && hasMatch(req[0].Conds(), "errors.Is((*x/dsmr.ChunkStorage).GetChunkBytes(*)#1, ago/database.ErrNotFound)"), "C35.R1", "Accept:not-found=>fetch", w.rel(acc.Pos()), "", "a missing local chunk does not lead to a fetch from a peer")
	for _, c := range parse {
		r.failureLeadsToErrorReturn(w, "C35.R1", "Accept:parse-error-returned", c)
	}

	// R2: appends
	lit := w.Fn("(*" + pkgDsmr + ".Node).Accept$1")
	if lit == nil {
		r.missing("C35.R2", "Accept$1", "response handler literal not found")
	} else {
		r.saw(lit)
		vr := callsNamed(lit, "(*"+pkgDsmr+".ChunkStorage).VerifyRemoteChunk")
		ap := findEffects(lit, "store fv:chunks = builtin.append(fv:chunks, [p2])")
		if len(vr) == 1 && len(ap) == 1 {
			r.successGuards(w, "C35.R2", "Accept$1:append-after-VerifyRemoteChunk", vr[0], ap[0].Ins)
			r.check(term(vr[0].Common().Args[1]) == "p2", "C35.R2", "Accept$1:verifies-the-response", r.at(w, vr[0]), "", "VerifyRemoteChunk is not applied to the received chunk")
			// a handler error (p3) prevents the append
			r.check(hasMatch(ap[0].Conds(), "fv:chunkCert.*ChunkID == p2.id") && hasMatch(ap[0].Conds(), "fv:chunkCert.*Expiry == p2.*Expiry"), "C35.R2", "Accept$1:fetched-chunk-is-the-referenced-one", r.at(w, ap[0].Ins),
			"appended only when id and expiry equal the certificate's", "a fetched chunk is appended without its id and expiry having been compared with the certificate: a peer serving another valid chunk gets it into the executed block")
		r.check(hasStr(ap[0].Conds(), "nil == p3") || hasStr(ap[0].Conds(), "p3 == nil"), "C35.R2", "Accept$1:no-append-on-request-error", r.at(w, ap[0].Ins), "", "the response is appended although the request failed")
		} else {
			r.missing("C35.R2", "Accept$1:append-after-VerifyRemoteChunk", "VerifyRemoteChunk / append not found in the response handler")
		}
	}
	// main loop: local append after ParseChunk success; per iteration the two append sites are mutually exclusive:
	// the local append is not reachable from the fetch loop without a new lookup
	lap := findEffects(acc, "store alloc(chunks) = builtin.append(alloc(chunks), [x/dsmr.ParseChunk(*)#0])")
	if len(lap) == 0 {
		lap = findEffects(acc, "store * = builtin.append(*, [x/dsmr.ParseChunk(*)#0])")
	}
	if len(lap) == 1 && len(req) == 1 {
		r.successGuards(w, "C35.R2", "Accept:local-append-after-parse", parse[0], lap[0].Ins)
		found, _ := pathExists(after(req[0].Ins), isInstr(lap[0].Ins), isInstr(g), nil)
		r.check(!found, "C35.R2", "Accept:one-chunk-per-certificate", r.at(w, lap[0].Ins), "fetched and local appends are exclusive per certificate", "after fetching a chunk for a certificate the loop can also append a locally parsed chunk for the same certificate")
	} else {
		r.missing("C35.R2", "Accept:local-append-after-parse", "local append not found")
	}
	// loop over block.ChunkCerts in order
	h := findIndexLoopOver(acc, "p2.ChunkCerts")
	r.check(h != nil && loopExitsOnlyByReturnErr(h), "C35.R2", "Accept:every-certificate-in-order", w.rel(acc.Pos()), "", "the loop over the block's certificates is missing or skips certificates")
	// window accept and SetMin after the loop
	va := findEffects(acc, "call (x/dsmr.TimeValidityWindow).Accept(p0.validityWindow, *")
	sm := findEffects(acc, "call (*x/dsmr.ChunkStorage).SetMin(p0.storage, p2.BlockHeader.Timestamp, *)")
	okk = len(va) == 1 && len(sm) == 1 && h != nil
	if okk {
		// reachable only when the loop is exhausted
		exit := edgeKey{h.Index, 1}
		f1, _ := pathExists(entry(acc), isInstr(va[0].Ins), nil, map[edgeKey]bool{exit: true})
		okk = !f1 && dominatesI(va[0].Ins, sm[0].Ins)
	}
	r.check(okk, "C35.R2", "Accept:window-and-min-after-all-chunks", w.rel(acc.Pos()), "", "the validity window / storage minimum are not advanced exactly after all certificates were processed")
	for _, c := range callsNamed(acc, "(*"+pkgDsmr+".ChunkStorage).SetMin") {
		r.failureLeadsToErrorReturn(w, "C35.R2", "Accept:SetMin-error-returned", c)
	}

	// R3: the fetch path of Accept goes through VerifyRemoteChunk, which must accept every valid chunk: the producer rate
	// limit belongs to the two admission points (own chunks, signature requests), never to storage verification
	r.rule("C35.R3", "K3", "CheckRateLimit is called only from BuildChunk and the signature-request verifier", 2)
	allowed := map[string]bool{"(*" + pkgDsmr + ".Node).BuildChunk": true, "(" + pkgDsmr + ".ChunkSignatureRequestVerifier).Verify": true}
	nrl := 0
	for _, fn := range w.FnsInPkg(pkgDsmr) {
		for _, c := range callsNamed(fn, "(*"+pkgDsmr+".ChunkStorage).CheckRateLimit") {
			nrl++
			r.check(allowed[fnName(fn)], "C35.R3", short(fnName(fn))+":CheckRateLimit", r.at(w, c), "admission point",
				"the producer rate limit is applied in "+short(fnName(fn))+": a chunk fetched for an accepted block from a rate-limited producer is refused on every retry and Accept never completes")
		}
	}
	if nrl == 0 {
		r.missing("C35.R3", "CheckRateLimit-call-sites", "no call of ChunkStorage.CheckRateLimit found")
	}
}

func c36(r *Run) {
	w := r.W
	r.rule("C36.R1", "K7", "SetMin: every discardPendingChunk is paired with a Delete of the pending record in the same batch", 2)
	r.rule("C36.R2", "K7", "putVerifiedChunk / init update DB, expiry map, pending map and weight together; minimum slot in the batch; key agreement", 7)
	CS := "(*" + pkgDsmr + ".ChunkStorage)."
	sm := r.fn(w, "C36.R1", CS+"SetMin")
	if sm != nil {
		discards := callsNamed(sm, CS+"discardPendingChunk")
		dels := findEffects(sm, "call (ago/database.KeyValueDeleter).Delete(*, x/dsmr.pendingChunkKey(*))")
		if len(dels) == 0 {
			dels = findEffects(sm, "call (ago/database.*).Delete(*, x/dsmr.pendingChunkKey(*))")
		}
		if len(discards) == 0 {
			r.missing("C36.R1", "SetMin:discards", "no discardPendingChunk call in SetMin")
		}
		for _, d := range discards {
			// a Delete of the pending key in the same loop iteration: some delete d2 with alwaysFollowedBy(d, d2) or d2 dominates d within the same loop
			hd, ld := innermostLoop(d.Block())
			paired := false
			for _, dl := range dels {
				h2, _ := innermostLoop(dl.Ins.Block())
				if h2 != hd || hd == nil {
					continue
				}
				if dominatesInLoop(dl.Ins, d, ld) || alwaysFollowedByInLoop(d, dl.Ins, hd) {
					paired = true
				}
			}
			what := "expired"
			if strings.Contains(term(d.Common().Args[1]), "p2[") {
				what = "saved"
			}
			r.check(paired, "C36.R1", "SetMin:"+what+"-chunk:discard-paired-with-Delete(pendingChunkKey)", r.at(w, d),
				"pending record deleted in the same iteration",
				"a chunk is removed from the in-memory pending set without deleting its pending record from the database: it is pending again (map and producer weight) after reopening the storage")
		}
		// all writes go to one batch that is written before returning success
		bw := findEffects(sm, "call (ago/database.Batch).Write(*)")
		if len(bw) == 1 {
			for _, o := range returnOutcomes(sm) {
				if hasStr(o.Sentinels, "nil") {
					r.check(onlyViaSuccess(bw[0].Ins.(ssa.CallInstruction), o.Ret, true), "C36.R2", "SetMin:success-after-batch.Write", w.rel(instrPos(o.Ret)), "", "SetMin can succeed without the batch having been written")
				}
			}
			r.requireEffect(w, "C36.R2", "SetMin:min-slot-in-batch", sm, "call (ago/database.*).Put(*, x/dsmr.minSlotKey, *)")
			r.requireEffect(w, "C36.R2", "SetMin:accepted-record", sm, "call (ago/database.*).Put(*, x/dsmr.acceptedChunkKey(*.Expiry, *.id), *.bytes)")
		} else {
			r.missing("C36.R2", "SetMin:batch.Write", "batch.Write not found")
		}
	}
	pv := r.fn(w, "C36.R2", CS+"putVerifiedChunk")
	if pv != nil {
		put := findEffects(pv, "call (ago/database.*).Put(p0.chunkDB, x/dsmr.pendingChunkKey(p1.UnsignedChunk.Expiry, p1.id), p1.bytes)")
		if len(put) == 0 {
			put = findEffects(pv, "call (ago/database.*).Put(p0.chunkDB, x/dsmr.pendingChunkKey(*), *)")
		}
		em := findEffects(pv, "call (*internal/emap.EMap).Add(p0.chunkEMap, *)")
		mp := findEffects(pv, "mapupdate p0.pendingChunkMap[*] = *")
		sz := findEffects(pv, "mapupdate p0.pendingChunksSizes[*] = *")
		okk := len(put) == 1 && len(em) == 1 && len(mp) == 1 && len(sz) == 1
		if okk {
			pc := put[0].Ins.(ssa.CallInstruction)
			okk = onlyViaSuccess(pc, em[0].Ins, true) && onlyViaSuccess(pc, mp[0].Ins, true) && mp[0].Ins.Block() == sz[0].Ins.Block()
		}
		r.check(okk, "C36.R2", "putVerifiedChunk:db+emap+map+size", w.rel(pv.Pos()), "", "adding a chunk does not write the pending record and then update expiry map, pending map and producer weight together")
	}
	in := r.fn(w, "C36.R2", CS+"init")
	if in != nil {
		okk := len(findEffects(in, "call (ago/database.*).NewIteratorWithPrefix(p0.chunkDB, [1])")) == 1
		okk = okk && len(findEffects(in, "call (*internal/emap.EMap).Add(p0.chunkEMap, *)")) == 1 && len(findEffects(in, "mapupdate p0.pendingChunkMap[*] = *")) == 1 && len(findEffects(in, "mapupdate p0.pendingChunksSizes[*] = *")) == 1
		r.check(okk, "C36.R2", "init:restores-emap+map+size-from-pending-prefix", w.rel(in.Pos()), "", "start-up does not restore expiry map, pending map and producer weight from the pending prefix")
	}
	nc := r.fn(w, "C36.R2", pkgDsmr+".NewChunkStorage")
	if nc != nil {
		r.requireEffect(w, "C36.R2", "NewChunkStorage:reads-min-slot", nc, "call (ago/database.*).Get(p1, x/dsmr.minSlotKey)")
		r.requireEffect(w, "C36.R2", "NewChunkStorage:restores-minimum", nc, "store alloc(complit).minimumExpiry = *ParseUInt64*")
	}
	// key agreement: createChunkKey writes prefix, slot (8 bytes big endian), id; parseChunkKey reads the same offsets
	ck := r.fn(w, "C36.R2", pkgDsmr+".createChunkKey")
	pk := r.fn(w, "C36.R2", pkgDsmr+".parseChunkKey")
	if ck != nil && pk != nil {
		var wr, rd []string
		for _, e := range effectsOf(ck) {
			if strings.Contains(e.Str, "PutUint64(") || strings.Contains(e.Str, "builtin.copy(") {
				wr = append(wr, e.Str)
			}
		}
		for _, e := range effectsOf(pk) {
			if strings.Contains(e.Str, ".Uint64(") || strings.Contains(e.Str, "builtin.copy(") || strings.Contains(e.Str, "ToID(") {
				rd = append(rd, e.Str)
			}
		}
		okk := len(wr) >= 2 && len(rd) >= 2 && strings.Contains(strings.Join(wr, ";"), "[1:9]") && strings.Contains(strings.Join(rd, ";"), "[1:9]") &&
			strings.Contains(strings.Join(wr, ";"), "[9:]") && strings.Contains(strings.Join(rd, ";"), "[9:]")
		r.check(okk, "C36.R2", "chunk-key:encode/decode-offsets", w.rel(ck.Pos()), strings.Join(wr, " ; ")+" || "+strings.Join(rd, " ; "), "chunk key encoder and decoder do not use the same offsets")
	}

	// R3: what is restored from disk has no certificate: a pending entry's certificate is used only where it is non-nil
	r.rule("C36.R3", "K9", "a pending chunk's certificate is dereferenced only under a non-nil test", 1)
	nCert := 0
	for _, fn := range w.FnsInPkg(pkgDsmr) {
		if fn.Parent() != nil && !strings.Contains(fnName(fn), "ChunkStorage") {
			continue
		}
		if !strings.Contains(fnName(fn), ".ChunkStorage).") {
			continue
		}
		eachInstr(fn, func(ins ssa.Instruction) {
			fa, ok := ins.(*ssa.FieldAddr)
			if !ok {
				return
			}
			o, f := fieldOwner(fa.X, fa.Field)
			if o != pkgDsmr+".ChunkCertificate" {
				return
			}
			// fa.X is a *ChunkCertificate loaded from a StoredChunkSignature's Cert field?
			t := term(fa.X)
			if !strings.HasSuffix(t, ".Cert") || !strings.Contains(t, "pendingChunkMap[") {
				return
			}
			nCert++
			cs := condStrings(ctrlConds(ins.Block()))
			okk := hasStr(cs, "nil != "+t) || hasStr(cs, t+" != nil")
			r.check(okk, "C36.R3", short(fnName(fn))+":Cert."+f+":non-nil", r.at(w, ins), "guarded by "+t+" != nil",
				"the certificate of a pending chunk is dereferenced without a nil test: chunks received from peers or restored after a restart have none (nil-pointer panic on re-delivery or after reopen)")
		})
	}
	if nCert == 0 {
		r.missing("C36.R3", "pending-cert-dereference", "no use of a pending chunk's certificate found in ChunkStorage")
	}

	// R4: reopening resumes the verifier at the persisted minimum
	r.rule("C36.R4", "K1", "NewChunkStorage hands the persisted minimum to the verifier before loading chunks", 1)
	if ns := r.fn(w, "C36.R4", pkgDsmr+".NewChunkStorage"); ns != nil {
		vs := findEffects(ns, "call (x/dsmr.Verifier).SetMin(p0, *)")
		in := findEffects(ns, "call (*x/dsmr.ChunkStorage).init(*)")
		okk := len(vs) == 1 && len(in) == 1 && strings.Contains(vs[0].Str, "ParseUInt64(") && strings.Contains(vs[0].Str, "x/dsmr.minSlotKey") && dominatesI(vs[0].Ins, in[0].Ins)
		r.check(okk, "C36.R4", "NewChunkStorage:verifier-min-restored", w.rel(ns.Pos()), "", "the chunk verifier is not given the persisted minimum expiry on reopen: after a restart chunks are judged against minimum 0")
	}

	// R5: SetMin checks its whole save list before it changes anything
	r.rule("C36.R5", "K1", "SetMin: a complete validation loop over the save list (pending, no duplicate) precedes every state change", 3)
	if sm != nil {
		// mutations: the minimum, pending-map discards, the expiry map
		var muts []ssa.Instruction
		for _, e := range findEffects(sm, "store p0.minimumExpiry = *") {
			muts = append(muts, e.Ins)
		}
		for _, c := range callsNamed(sm, CS+"discardPendingChunk") {
			muts = append(muts, c)
		}
		for _, e := range findEffects(sm, "call (*internal/emap.EMap).SetMin(p0.chunkEMap, *)") {
			muts = append(muts, e.Ins)
		}
		// validation loop: a loop over p2 whose body returns an error under "!p0.pendingChunkMap[p2[i]]#1" and whose
		// exhausted exit dominates every mutation
		var vh *ssa.BasicBlock
		for _, h := range loopHeaders(sm) {
			loop := naturalLoop(h)
			hasMut := false
			for _, m := range muts {
				if loop[m.Block()] {
					hasMut = true
				}
			}
			if hasMut {
				continue
			}
			rejects := false
			for _, o := range returnOutcomes(sm) {
				if !o.NonNil || !hasMatch(o.Conds, "* < builtin.len(p2)") {
					continue
				}
				// the return block hangs off the loop body
				for _, p := range ctrlBlockOf(o).Preds {
					if loop[p] {
						rejects = true
					}
				}
			}
			cs := condStrings(ctrlCondsEdge(h, 0))
			if rejects && hasMatch(cs, "* < builtin.len(p2)") {
				vh = h
				break
			}
		}
		r.check(vh != nil && len(muts) >= 3, "C36.R5", "SetMin:validation-loop", w.rel(sm.Pos()), "", "SetMin has no mutation-free loop over the save list that rejects bad entries")
		if vh != nil {
			okk := true
			for _, m := range muts {
				// reachable only through the loop's exhausted exit
				if found, _ := pathExists(entry(sm), isInstr(m), nil, map[edgeKey]bool{{vh.Index, 1}: true}); found {
					okk = false
				}
			}
			r.check(okk, "C36.R5", "SetMin:no-state-change-before-validation", w.rel(sm.Pos()), "", "SetMin changes in-memory state before the whole save list was validated: a failing call leaves memory ahead of the database, and a reopen yields a different state")
			// the loop rejects non-pending and duplicate ids
			rej := 0
			for _, b := range sm.Blocks {
				if !naturalLoop(vh)[b] {
					continue
				}
				if ifi, ok := b.Instrs[len(b.Instrs)-1].(*ssa.If); ok {
					p := predString(ifi.Cond, true)
					if glob("p0.pendingChunkMap[p2[*]]#1", p) || glob("alloc(makemap)[p2[*]]#1", p) || glob("makemap(*)[p2[*]]#1", p) || strings.Contains(p, "Contains(") {
						rej++
					}
				}
			}
			r.check(rej >= 2, "C36.R5", "SetMin:rejects-non-pending-and-duplicates", w.rel(sm.Pos()), "", "the validation loop does not test both 'is pending' and 'listed once'")
		}
	}
}

// ctrlBlockOf returns the block a return outcome leaves from (the predecessor for phi-expanded outcomes).
func ctrlBlockOf(o retOutcome) *ssa.BasicBlock {
	if o.Pred != nil {
		return o.Pred
	}
	return o.Ret.Block()
}

// dominatesInLoop: within one iteration of the loop (blocks of loop), a executes before b on every path from the header to b.
func dominatesInLoop(a ssa.Instruction, b ssa.Instruction, loop map[*ssa.BasicBlock]bool) bool {
	if !loop[a.Block()] || !loop[b.Block()] {
		return false
	}
	return dominatesI(a, b)
}

// alwaysFollowedByInLoop: after a, b executes before the loop header is reached again or the function returns with success.
func alwaysFollowedByInLoop(a ssa.Instruction, b ssa.Instruction, header *ssa.BasicBlock) bool {
	outs := returnOutcomes(a.Parent())
	succRet := map[*ssa.Return]bool{}
	for _, o := range outs {
		if o.isPotentialSuccess() {
			succRet[o.Ret] = true
		}
	}
	found, _ := pathExists(after(a), func(i ssa.Instruction) bool {
		if ret, ok := i.(*ssa.Return); ok {
			return succRet[ret]
		}
		return i.Block() == header && instrIndex(i) == 0
	}, isInstr(b), nil)
	return !found
}

func c37(r *Run) {
	w := r.W
	// the replay check itself is the shared validity window (same package and code as the transaction window of C09)
	defer r.importRules(c09, "C09.R4", "C09.R5")
	r.rule("C37.R1", "K12", "BuildBlock drops expired certificates; Verify rejects them on every path to success", 2)
	r.rule("C37.R2", "K2", "Verify returns the replay verdict; BuildBlock skips repeats; Accept records the block", 4)
	bb := r.fn(w, "C37.R1", "(*"+pkgDsmr+".Node).BuildBlock")
	vf := r.fn(w, "C37.R1", "(*"+pkgDsmr+".Node).Verify")
	if bb != nil {
		aps := findEffects(bb, "call builtin.append(*availableChunkCerts*")
		if len(aps) == 0 {
			aps = findEffects(bb, "call builtin.append(phi(*), [(*x/dsmr.ChunkStorage).GatherChunkCerts(p0.storage)[*]])")
		}
		okk := len(aps) == 1
		if okk {
			cs := aps[0].Conds()
			okk = hasMatch(cs, "p3 <= *.ChunkReference.Expiry") && hasMatch(cs, "!(ago/utils/set.Bits).Contains((x/dsmr.TimeValidityWindow).IsRepeat(*)#0, *)")
		}
		r.check(okk, "C37.R1", "BuildBlock:drops-expired-and-repeated", w.rel(bb.Pos()), "a certificate is included only if Expiry >= timestamp and it is not a repeat", "BuildBlock can include an expired or repeated chunk certificate")
		// the replay check looks one validity window back, so a certificate must not outlive block timestamp + window
		okU := len(aps) == 1 && hasMatch(aps[0].Conds(), "*.ChunkReference.Expiry <= ((x/dsmr.Rules).GetValidityWindow((x/dsmr.RuleFactory).GetRules(p0.ruleFactory, p3)) + p3)")
		r.check(okU, "C37.R1", "BuildBlock:drops-certificates-beyond-the-window", w.rel(bb.Pos()), "", "BuildBlock includes certificates that expire later than timestamp + validity window: they can be referenced again once the first inclusion left the replay window")
		ir := findEffects(bb, "call (x/dsmr.TimeValidityWindow).IsRepeat(p0.validityWindow, p1, x/dsmr.NewValidityWindowBlock(p2), p3, *)")
		r.check(len(ir) == 1, "C37.R2", "BuildBlock:IsRepeat(parent, timestamp)", w.rel(bb.Pos()), "", "BuildBlock does not query the validity window for repeats relative to the parent at the block timestamp")
		// the repeat bit tested for a certificate is the bit of that certificate: IsRepeat is asked about a slice
		// that holds certificate i of the gathered list at position i (all of them), and the bit tested before
		// appending gathered[i] is bit i
		const G = "(*x/dsmr.ChunkStorage).GatherChunkCerts(p0.storage)"
		okI, whyI := len(ir) == 1 && len(aps) == 1, "IsRepeat / the append of available certificates not found"
		if okI {
			ira := callArgs(ir[0].Ins.(ssa.CallInstruction))
			S := strip(ira[len(ira)-1])
			ms, isMS := S.(*ssa.MakeSlice)
			switch {
			case !isMS || term(ms.Len) != "builtin.len("+G+")":
				okI, whyI = false, "the slice given to IsRepeat is not made with one slot per gathered certificate: "+term(S)
			default:
				st := findEffects(bb, "store "+term(S)+"[*] = alloc(complit)")
				cp := findEffects(bb, "store alloc(complit).ChunkCertificate = *"+G+"[*]")
				if len(st) != 1 || len(cp) != 1 {
					okI, whyI = false, "the slots of the slice given to IsRepeat are not filled from the gathered certificates"
					break
				}
				slot := strings.TrimSuffix(strings.TrimPrefix(st[0].Str, "store "+term(S)+"["), "] = alloc(complit)")
				src := strings.TrimSuffix(strings.TrimPrefix(cp[0].Str, "store alloc(complit).ChunkCertificate = *"+G+"["), "]")
				if slot != src {
					okI, whyI = false, "slot "+slot+" of the slice given to IsRepeat holds gathered certificate "+src
				}
				for _, c := range st[0].Conds() {
					if strings.Contains(c, G+"[") {
						okI, whyI = false, "a gathered certificate can be left out of the slice given to IsRepeat, which shifts the positions of the following ones: "+c
					}
				}
				// the tested bit
				ct := findEffects(bb, "call (ago/utils/set.Bits).Contains(*")
				if okI && len(ct) == 1 {
					bit := term(callArgs(ct[0].Ins.(ssa.CallInstruction))[1])
					if !strings.Contains(aps[0].Str, "["+G+"["+bit+"]]") {
						okI, whyI = false, "the repeat bit tested ("+bit+") is not the position of the certificate that is appended"
					}
				} else if okI {
					okI, whyI = false, "the repeat set is not tested exactly once"
				}
			}
		}
		r.check(okI, "C37.R2", "BuildBlock:repeat-bit-of-the-same-certificate", w.rel(bb.Pos()), "slice[i] = gathered[i] for every i; bit i tested before appending gathered[i]", whyI)
	}
	if vf != nil {
		// an If comparing cert.Expiry with block.Timestamp whose failing edge returns an error, on every path to success
		var guard *ssa.If
		for _, b := range vf.Blocks {
			if ifi, ok := b.Instrs[len(b.Instrs)-1].(*ssa.If); ok {
				ps := predString(ifi.Cond, true)
				if glob("p3.ChunkCerts[*].ChunkReference.Expiry < p3.BlockHeader.Timestamp", ps) || glob("p3.BlockHeader.Timestamp <= p3.ChunkCerts[*].ChunkReference.Expiry", ps) {
					guard = ifi
				}
			}
		}
		okk := guard != nil
		detail := "Verify never compares a certificate's Expiry with the block timestamp (BuildBlock filters on it, so builder and verifier disagree): a block referencing an expired chunk verifies"
		if okk {
			// expired edge leads only to error returns
			exp := 0
			if !strings.Contains(predString(guard.Cond, true), "Expiry < ") {
				exp = 1
			}
			tgt := guard.Block().Succs[exp]
			for _, o := range returnOutcomes(vf) {
				if o.isPotentialSuccess() {
					if o.Ret.Block() == tgt || blockReachableAvoiding(tgt, o.Ret.Block(), guard.Block()) {
						okk = false
						detail = "the expired-certificate branch of Verify can still reach the success return"
					}
				}
			}
			// every certificate is tested: inside the loop over block.ChunkCerts which exits only at its header or by error
			h, _ := innermostLoop(guard.Block())
			if h == nil || !loopExitsOnlyByReturnErr(h) {
				okk = false
				detail = "the expiry test of Verify does not cover every certificate of the block"
			}
		}
		r.check(okk, "C37.R1", "Verify:rejects-expired-certificate", w.rel(vf.Pos()), "Expiry < block.Timestamp => error, for every certificate", detail)
		// upper bound: the success return is reachable only with Expiry <= Timestamp + validity window for the certificate tested
		okF := false
		for _, b := range vf.Blocks {
			ifi, ok := b.Instrs[len(b.Instrs)-1].(*ssa.If)
			if !ok {
				continue
			}
			ps := predString(ifi.Cond, true)
			if !(strings.Contains(ps, "GetValidityWindow(") && strings.Contains(ps, "p3.BlockHeader.Timestamp") && strings.Contains(ps, ".ChunkReference.Expiry")) {
				continue
			}
			beyond := 0 // successor taken when Expiry is beyond the bound
			if !strings.HasSuffix(ps, ".ChunkReference.Expiry") || !strings.Contains(ps, ") < p3.ChunkCerts[") {
				beyond = 1
			}
			tgt := b.Succs[beyond]
			okF = true
			for _, o := range returnOutcomes(vf) {
				if o.isPotentialSuccess() && (o.Ret.Block() == tgt || blockReachableAvoiding(tgt, o.Ret.Block(), b)) {
					okF = false
				}
			}
			if h, _ := innermostLoop(b); h == nil || !loopExitsOnlyByReturnErr(h) {
				okF = false
			}
		}
		r.check(okF, "C37.R1", "Verify:rejects-certificate-beyond-the-window", w.rel(vf.Pos()), "Expiry > block.Timestamp + validity window => error, for every certificate",
			"Verify accepts certificates that expire later than block timestamp + validity window: the one-window replay check cannot see their first inclusion any more when they are referenced again")
		verp := findEffects(vf, "call (x/dsmr.TimeValidityWindow).VerifyExpiryReplayProtection(p0.validityWindow, p1, x/dsmr.NewValidityWindowBlock(p3))")
		if len(verp) == 1 {
			vc := verp[0].Ins.(ssa.CallInstruction)
			r.failureLeadsToErrorReturn(w, "C37.R2", "Verify:replay-verdict-returned", vc)
			for _, o := range returnOutcomes(vf) {
				if hasStr(o.Sentinels, "nil") {
					r.check(onlyViaSuccess(vc, o.Ret, true), "C37.R2", "Verify:success-only-after-replay-check", w.rel(instrPos(o.Ret)), "", "Verify can succeed without the replay check having passed")
				}
			}
		} else {
			r.missing("C37.R2", "Verify:replay-check", "VerifyExpiryReplayProtection on the block not found")
		}
	}
	// R3: what the validity window sees of a block is every certificate of the block, under its chunk ID and its
	// own expiry (the window's replay check ranges over exactly this view)
	r.rule("C37.R3", "K7", "the validity-window view of a block lists and indexes every chunk certificate by chunk ID with the certificate's own expiry", 5)
	if nb := r.fn(w, "C37.R3", pkgDsmr+".NewValidityWindowBlock"); nb != nil {
		ad := findEffects(nb, "call (*ago/utils/set.Set).Add(alloc(certSet), [p0.ChunkCerts[*].ChunkReference.ChunkID])")
		st := findEffects(nb, "store makeslice([]*dsmr.emapChunkCertificate, builtin.len(p0.ChunkCerts), builtin.len(p0.ChunkCerts))[*] = alloc(complit)")
		cp := findEffects(nb, "store alloc(complit).ChunkCertificate = *p0.ChunkCerts[*]")
		okk := len(ad) == 1 && len(st) == 1 && len(cp) == 1
		if okk {
			for _, e := range []*effect{ad[0], st[0], cp[0]} {
				for _, c := range e.Conds() {
					if !isLoopCond(c) {
						okk = false
					}
				}
			}
			// slot i holds certificate i
			okk = okk && strings.Contains(st[0].Str, ")["+strings.TrimSuffix(strings.TrimPrefix(cp[0].Str, "store alloc(complit).ChunkCertificate = *p0.ChunkCerts["), "]")+"] = ")
		}
		r.check(okk, "C37.R3", "NewValidityWindowBlock:every-certificate-listed-and-indexed", w.rel(nb.Pos()), "", "the validity-window view of a block does not list and index every chunk certificate of the block: a certificate left out is invisible to the replay check")
		outs := returnOutcomes(nb)
		r.check(len(outs) == 1 && len(findEffects(nb, "store alloc(complit).certs = alloc(certSet)")) == 1 && len(findEffects(nb, "store alloc(complit).chunkCerts = makeslice(*")) == 1, "C37.R3", "NewValidityWindowBlock:view-carries-both", w.rel(nb.Pos()), "", "the returned view does not carry the set and the list that were filled")
	}
	for _, g := range []struct{ fn, want, label string }{
		{"(" + pkgDsmr + ".emapChunkCertificate).GetID", "p0.ChunkCertificate.ChunkReference.ChunkID", "id=chunk-id"},
		{"(" + pkgDsmr + ".emapChunkCertificate).GetExpiry", "p0.ChunkCertificate.ChunkReference.Expiry", "expiry=certificate-expiry"},
		{"(" + pkgDsmr + ".validityWindowBlock).GetContainers", "p0.chunkCerts", "containers=list"},
	} {
		if f := r.fn(w, "C37.R3", g.fn); f != nil {
			o := returnOutcomes(f)
			r.check(len(o) == 1 && len(o[0].Vals) == 1 && term(o[0].Vals[0]) == g.want, "C37.R3", short(g.fn)+":"+g.label, w.rel(f.Pos()), g.want, "the validity window is given something other than "+g.want)
		}
	}
	if f := r.fn(w, "C37.R3", "("+pkgDsmr+".validityWindowBlock).Contains"); f != nil {
		o := returnOutcomes(f)
		r.check(len(o) == 1 && len(o[0].Vals) == 1 && (strings.HasSuffix(term(o[0].Vals[0]), ".Contains(p0.certs, p1)") || strings.HasSuffix(term(o[0].Vals[0]), ".Contains(alloc(e).certs, p1)")), "C37.R3", "validityWindowBlock.Contains:set-lookup", w.rel(f.Pos()), "", "Contains is not the lookup of the asked ID in the block's certificate set")
	}
	acc := r.fn(w, "C37.R2", "(*"+pkgDsmr+".Node).Accept")
	if acc != nil {
		es := findEffects(acc, "call (x/dsmr.TimeValidityWindow).Accept(p0.validityWindow, x/dsmr.NewValidityWindowBlock(p2))")
		r.check(len(es) == 1, "C37.R2", "Accept:records-block-in-window", w.rel(acc.Pos()), "", "Accept does not record the block in the validity window")
	}
}

func c38(r *Run) {
	w := r.W
	r.rule("C38.R1", "K1", "Bond consults the per-transaction record before adding the fee", 1)
	r.rule("C38.R2", "K7", "balance and record updated in one batch; Unbond subtracts the recorded fee; unknown tx is a no-op", 5)
	r.rule("C38.R3", "K6", "Bond: overflow and balance above maximum rejected before any write", 3)
	r.rule("C38.R4", "K1", "fdsmr node: bond before tracking; every expired and accepted pending transaction is unbonded", 4)
	B := "(" + H + "/internal/chain.Bonder)."
	bond := r.fn(w, "C38.R1", B+"Bond")
	if bond != nil {
		puts := findEffects(bond, "call internal/chain.putPendingBalance(*")
		// a Has/Get on db keyed by tx.GetID() whose 'present' edge does not reach the balance write
		var lookups []ssa.CallInstruction
		for _, c := range callsTo(bond, func(n string) bool {
			return strings.HasSuffix(n, "database.KeyValueReader).Has") || strings.HasSuffix(n, "database.KeyValueReader).Get") || strings.HasSuffix(n, "database.Database).Has") || strings.HasSuffix(n, "database.Database).Get")
		}) {
			a := callArgs(c)
			if len(a) >= 2 && strings.Contains(term(a[1]), "(*chain.Transaction).GetID(p3)") {
				lookups = append(lookups, c)
			}
		}
		okk := len(puts) == 1 && len(lookups) >= 1
		detail := "Bond never looks up the per-transaction record (keyed by tx.GetID()) before adding the fee: bonding the same transaction twice adds its fee twice while one Unbond removes it once, leaving the sponsor's pending bond non-zero forever"
		if okk {
			okk = false
			for _, l := range lookups {
				if !dominatesI(l, puts[0].Ins) {
					continue
				}
				// some edge decided by the lookup result must cut off the balance write
				vals := errResults(l) // Get: presence is told by the error
				if strings.HasSuffix(calleeName(l), ".Has") {
					vals = resultN(l, 0) // Has: presence is the boolean result (its error edge says nothing about presence)
				}
				for _, v := range vals {
					pos, neg := truthEdges(v)
					for _, set := range []map[edgeKey]bool{pos, neg} {
						for e := range set {
							tgt := bond.Blocks[e[0]].Succs[e[1]]
							if reach, _ := pathExists(point{tgt, 0}, isInstr(puts[0].Ins), nil, nil); !reach {
								okk = true
							}
						}
					}
				}
			}
			if !okk {
				detail = "the per-transaction lookup in Bond does not prevent the fee from being added again"
			}
		}
		r.check(okk, "C38.R1", "Bond:idempotent-per-transaction", w.rel(bond.Pos()), "record consulted; already-bonded transactions do not add their fee again", detail)

		// R2 (bond side): balance Put and record Put in one batch, written before success
		rec := findEffects(bond, "call (ago/database.*).Put(*, (*chain.Transaction).GetID(p3)[:], (encoding/binary.bigEndian).AppendUint64(encoding/binary.BigEndian, nil, ago/utils/math.Mul(*)#0))")
		bw := findEffects(bond, "call (ago/database.Batch).Write(*)")
		okk = len(puts) == 1 && len(rec) == 1 && len(bw) == 1
		if okk {
			okk = sameValue(callArgs(puts[0].Ins.(ssa.CallInstruction))[0], callArgs(rec[0].Ins.(ssa.CallInstruction))[0]) && dominatesI(puts[0].Ins, bw[0].Ins) && dominatesI(rec[0].Ins, bw[0].Ins)
			for _, o := range returnOutcomes(bond) {
				if len(o.Vals) == 2 && term(o.Vals[0]) == "true" && hasStr(o.Sentinels, "nil") && dominatesI(puts[0].Ins, o.Ret) {
					okk = okk && onlyViaSuccess(bw[0].Ins.(ssa.CallInstruction), o.Ret, true)
				}
			}
		}
		r.check(okk, "C38.R2", "Bond:balance+record-in-one-batch", w.rel(bond.Pos()), "", "Bond does not write the new balance and the transaction's fee record in one batch before reporting success")
		// R3
		var ovf, ovf2, lim bool
		for _, o := range returnOutcomes(bond) {
			if len(o.Vals) != 2 || term(o.Vals[0]) != "false" || !hasStr(o.Sentinels, "nil") {
				continue
			}
			if hasMatch(o.Conds, "ago/utils/math.Mul(uint64((*chain.Transaction).Size(p3)), p4)#1 != nil") {
				ovf = true
			}
			if hasMatch(o.Conds, "ago/utils/math.Add(*, ago/utils/math.Mul(*)#0)#1 != nil") {
				ovf2 = true
			}
			if hasMatch(o.Conds, "phi(*) < ago/utils/math.Add(*)#0") || hasMatch(o.Conds, "* < ago/utils/math.Add(*)#0") {
				lim = true
			}
			// no write before these returns
			for _, e := range append(append([]*effect{}, puts...), rec...) {
				if reachableFrom(e.Ins, o.Ret) {
					lim = false
				}
			}
		}
		r.check(ovf, "C38.R3", "Bond:fee-overflow-rejected", w.rel(bond.Pos()), "", "an overflowing fee (size*rate) is not rejected")
		r.check(ovf2, "C38.R3", "Bond:balance-overflow-rejected", w.rel(bond.Pos()), "", "an overflowing pending balance is not rejected")
		r.check(lim, "C38.R3", "Bond:above-max-rejected-before-write", w.rel(bond.Pos()), "", "a balance above the maximum is not rejected before any write")
	}
	ub := r.fn(w, "C38.R2", B+"Unbond")
	if ub != nil {
		get := findEffects(ub, "call (ago/database.*).Get(p0.db, (*chain.Transaction).GetID(p1)[:])")
		put := findEffects(ub, "call internal/chain.putPendingBalance(*, *, ((internal/chain.Bonder).getPendingBondBalance(*)#0 - (encoding/binary.bigEndian).Uint64(encoding/binary.BigEndian, (ago/database.*).Get(*)#0)))")
		if len(put) == 0 {
			put = findEffects(ub, "call internal/chain.putPendingBalance(*")
		}
		del := findEffects(ub, "call (ago/database.*).Delete(*, (*chain.Transaction).GetID(p1)[:])")
		bw := findEffects(ub, "call (ago/database.Batch).Write(*)")
		okk := len(get) == 1 && len(put) == 1 && len(del) == 1 && len(bw) == 1
		if okk {
			okk = strings.Contains(put[0].Str, "- (encoding/binary.bigEndian).Uint64(encoding/binary.BigEndian, (ago/database.") && dominatesI(put[0].Ins, bw[0].Ins) && dominatesI(del[0].Ins, bw[0].Ins) &&
				sameValue(callArgs(put[0].Ins.(ssa.CallInstruction))[0], callArgs(del[0].Ins.(ssa.CallInstruction))[0])
		}
		r.check(okk, "C38.R2", "Unbond:subtract-recorded-fee+delete-record-in-one-batch", w.rel(ub.Pos()), "", "Unbond does not subtract the recorded fee and delete the record in one batch")
		nf := false
		for _, o := range returnOutcomes(ub) {
			if hasStr(o.Sentinels, "nil") && hasMatch(o.Conds, "errors.Is((ago/database.*).Get(*)#1, ago/database.ErrNotFound)") {
				nf = true
				for _, e := range put {
					if reachableFrom(e.Ins, o.Ret) {
						nf = false
					}
				}
			}
		}
		r.check(nf, "C38.R2", "Unbond:unknown-tx-is-noop", w.rel(ub.Pos()), "", "Unbond of an unknown transaction is not a no-op")
		rdErr := false
		for _, o := range returnOutcomes(ub) {
			if !o.isPotentialSuccess() && hasMatch(o.Conds, "!errors.Is((ago/database.*).Get(*)#1, ago/database.ErrNotFound)") && hasMatch(o.Conds, "(ago/database.*).Get(*)#1 != nil") {
				rdErr = true
			}
		}
		r.check(rdErr, "C38.R2", "Unbond:read-error-returned", w.rel(ub.Pos()), "", "a database error other than not-found is not returned by Unbond")
		r.check(len(uncheckedArithExceptGuardedBy(ub)) <= 1, "C38.R2", "Unbond:single-subtraction", w.rel(ub.Pos()), "", "Unbond performs unexpected unchecked arithmetic")
	}
	// R4
	pf := H + "/x/fdsmr"
	bc := r.fn(w, "C38.R4", "(*"+pf+".Node).BuildChunk")
	if bc != nil {
		bd := callsTo(bc, func(n string) bool { return strings.HasSuffix(n, "fdsmr.Bonder).Bond") })
		add := findEffects(bc, "call (*internal/eheap.ExpiryHeap).Add(p0.pending, *)")
		if len(bd) == 1 && len(add) == 1 {
			okv := resultN(bd[0], 0)
			r.check(len(okv) == 1 && dominatesI(bd[0], add[0].Ins) && onlyViaTruth(okv[0], bd[0], add[0].Ins, true) && onlyViaSuccess(bd[0], add[0].Ins, true), "C38.R4", "BuildChunk:track-only-bonded", r.at(w, add[0].Ins), "", "a transaction is tracked as pending although Bond did not accept it")
			r.failureLeadsToErrorReturn(w, "C38.R4", "BuildChunk:Bond-error-returned", bd[0])
		} else {
			r.missing("C38.R4", "BuildChunk:track-only-bonded", "Bond / pending.Add not found")
		}
	}
	ac := r.fn(w, "C38.R4", "(*"+pf+".Node).Accept")
	if ac != nil {
		ubs := callsTo(ac, func(n string) bool { return strings.HasSuffix(n, "fdsmr.Bonder).Unbond") })
		var exp, accd bool
		for _, u := range ubs {
			t := term(callArgs(u)[1])
			if strings.Contains(t, "(*internal/eheap.ExpiryHeap).SetMin(p0.pending, p2.BlockHeader.Timestamp)[") {
				exp = true
				h, _ := innermostLoop(u.Block())
				exp = exp && h != nil && loopExitsOnlyByReturnErr(h)
				// no expired transaction is filtered out: nothing that controls the call tests the element itself
				for _, c := range condStrings(ctrlConds(u.Block())) {
					if strings.Contains(c, "SetMin(p0.pending, p2.BlockHeader.Timestamp)[") {
						exp = false
					}
				}
			}
			if strings.Contains(t, ".Chunks[") && strings.Contains(t, ".Txs[") {
				accd = hasMatch(condStrings(ctrlConds(u.Block())), "(*internal/eheap.ExpiryHeap).Has(p0.pending, *)")
			}
			r.failureLeadsToErrorReturn(w, "C38.R4", "Accept:Unbond-error-returned", u)
		}
		r.check(exp, "C38.R4", "Accept:unbonds-every-expired", w.rel(ac.Pos()), "", "not every expired pending transaction is unbonded")
		r.check(accd, "C38.R4", "Accept:unbonds-accepted-pending", w.rel(ac.Pos()), "", "accepted pending transactions are not unbonded")
	}
}

// uncheckedArithExceptGuardedBy returns unchecked uint64 arithmetic sites (thin wrapper for reporting).
func uncheckedArithExceptGuardedBy(fn *ssa.Function) []string { return uncheckedArith(fn) }
