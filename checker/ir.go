package main

import (
	"fmt"
	"go/constant"
	"go/token"
	"go/types"
	"sort"
	"strings"

	"golang.org/x/tools/go/ssa"
)

// ---------------------------------------------------------------- calls

// calleeName returns the normalised name of a call's target:
// static callee full name, "(pkg.Iface).Method" for interface invokes,
// "builtin.<name>" for builtins, "" for dynamic function values.
func calleeName(ci ssa.CallInstruction) string {
	cc := ci.Common()
	if cc.IsInvoke() {
		return normName(cc.Method.FullName())
	}
	if b, ok := cc.Value.(*ssa.Builtin); ok {
		return "builtin." + b.Name()
	}
	if sc := cc.StaticCallee(); sc != nil {
		return fnName(sc)
	}
	return ""
}

// callArgs returns receiver (for invokes) followed by the arguments.
func callArgs(ci ssa.CallInstruction) []ssa.Value {
	cc := ci.Common()
	if cc.IsInvoke() {
		return append([]ssa.Value{cc.Value}, cc.Args...)
	}
	return cc.Args
}

func eachInstr(fn *ssa.Function, f func(ssa.Instruction)) {
	for _, b := range fn.Blocks {
		for _, ins := range b.Instrs {
			f(ins)
		}
	}
}

// allInstr visits fn and, recursively, its anonymous functions.
func allInstr(fn *ssa.Function, f func(*ssa.Function, ssa.Instruction)) {
	eachInstr(fn, func(i ssa.Instruction) { f(fn, i) })
	for _, a := range fn.AnonFuncs {
		allInstr(a, f)
	}
}

// callsTo returns the call instructions in fn (not in closures) whose callee name satisfies match.
func callsTo(fn *ssa.Function, match func(string) bool) []ssa.CallInstruction {
	var out []ssa.CallInstruction
	eachInstr(fn, func(ins ssa.Instruction) {
		if ci, ok := ins.(ssa.CallInstruction); ok {
			if match(calleeName(ci)) {
				out = append(out, ci)
			}
		}
	})
	return out
}

func callsNamed(fn *ssa.Function, names ...string) []ssa.CallInstruction {
	return callsTo(fn, func(n string) bool {
		for _, x := range names {
			if n == x {
				return true
			}
		}
		return false
	})
}

// callsSuffix matches callee names by suffix (e.g. ").Deduct" on any receiver).
func callsSuffix(fn *ssa.Function, suffix string) []ssa.CallInstruction {
	return callsTo(fn, func(n string) bool { return strings.HasSuffix(n, suffix) })
}

func instrIndex(ins ssa.Instruction) int {
	for i, x := range ins.Block().Instrs {
		if x == ins {
			return i
		}
	}
	return -1
}

func instrPos(ins ssa.Instruction) token.Pos {
	if ins == nil {
		return token.NoPos
	}
	if p := ins.Pos(); p.IsValid() {
		return p
	}
	if ci, ok := ins.(ssa.CallInstruction); ok {
		if p := ci.Common().Pos(); p.IsValid() {
			return p
		}
	}
	// nearest instruction with a position in the same block
	b := ins.Block()
	idx := instrIndex(ins)
	for d := 1; d < len(b.Instrs); d++ {
		for _, j := range []int{idx - d, idx + d} {
			if j >= 0 && j < len(b.Instrs) {
				if p := b.Instrs[j].Pos(); p.IsValid() {
					return p
				}
			}
		}
	}
	return b.Parent().Pos()
}

// ---------------------------------------------------------------- paths

type point struct {
	b *ssa.BasicBlock
	i int
}

type edgeKey [2]int // block index, successor index

func entry(fn *ssa.Function) point { return point{fn.Blocks[0], 0} }
func after(ins ssa.Instruction) point {
	return point{ins.Block(), instrIndex(ins) + 1}
}
func at(ins ssa.Instruction) point { return point{ins.Block(), instrIndex(ins)} }

// pathExists reports whether some CFG path from src reaches an instruction for which isDst holds,
// without executing an instruction for which avoid holds and without crossing a blocked edge.
// The destination test is applied before the avoid test.
func pathExists(src point, isDst func(ssa.Instruction) bool, avoid func(ssa.Instruction) bool, blocked map[edgeKey]bool) (bool, []int) {
	type item struct {
		p    point
		prev int
	}
	seen := map[*ssa.BasicBlock]bool{}
	queue := []item{{src, -1}}
	trail := func(k int) []int {
		var out []int
		for k >= 0 {
			out = append(out, queue[k].p.b.Index)
			k = queue[k].prev
		}
		for i, j := 0, len(out)-1; i < j; i, j = i+1, j-1 {
			out[i], out[j] = out[j], out[i]
		}
		return out
	}
	for qi := 0; qi < len(queue); qi++ {
		it := queue[qi]
		b := it.p.b
		stopped := false
		for i := it.p.i; i < len(b.Instrs); i++ {
			ins := b.Instrs[i]
			if isDst != nil && isDst(ins) {
				return true, trail(qi)
			}
			if avoid != nil && avoid(ins) {
				stopped = true
				break
			}
		}
		if stopped {
			continue
		}
		for si, s := range b.Succs {
			if blocked[edgeKey{b.Index, si}] {
				continue
			}
			if seen[s] {
				continue
			}
			seen[s] = true
			queue = append(queue, item{point{s, 0}, qi})
		}
	}
	return false, nil
}

func isInstr(target ssa.Instruction) func(ssa.Instruction) bool {
	return func(i ssa.Instruction) bool { return i == target }
}

func isAnyInstr(targets ...ssa.Instruction) func(ssa.Instruction) bool {
	return func(i ssa.Instruction) bool {
		for _, t := range targets {
			if i == t {
				return true
			}
		}
		return false
	}
}

func isReturn(i ssa.Instruction) bool { _, ok := i.(*ssa.Return); return ok }

// dominatesI: every path from function entry to b passes through a.
func dominatesI(a, b ssa.Instruction) bool {
	if a.Parent() != b.Parent() {
		return false
	}
	found, _ := pathExists(entry(a.Parent()), isInstr(b), isInstr(a), nil)
	return !found
}

// anyDominates: every path from entry to b passes through at least one of as.
func anyDominates(as []ssa.Instruction, b ssa.Instruction) bool {
	if len(as) == 0 {
		return false
	}
	found, _ := pathExists(entry(b.Parent()), isInstr(b), isAnyInstr(as...), nil)
	return !found
}

// mustPass: every path from src to an instruction satisfying isDst executes an instruction satisfying via.
func mustPass(src point, isDst, via func(ssa.Instruction) bool) (bool, []int) {
	found, tr := pathExists(src, isDst, via, nil)
	return !found, tr
}

// reachable: b reachable from just after a.
func reachableFrom(a, b ssa.Instruction) bool {
	found, _ := pathExists(after(a), isInstr(b), nil, nil)
	return found
}

// ---------------------------------------------------------------- value tests (edges on which a value is known)

func isNilConst(v ssa.Value) bool {
	c, ok := v.(*ssa.Const)
	return ok && c.Value == nil
}

func constBool(v ssa.Value) (bool, bool) {
	c, ok := v.(*ssa.Const)
	if !ok || c.Value == nil || c.Value.Kind() != constant.Bool {
		return false, false
	}
	return constant.BoolVal(c.Value), true
}

// truthEdges returns the CFG edges on which v is known truthy (bool true / non-nil) and
// the edges on which it is known falsy (bool false / nil). Follows !, ==nil, !=nil, && / || phis,
// phis of error values, interface conversions.
func truthEdges(v ssa.Value) (pos, neg map[edgeKey]bool) {
	pos, neg = map[edgeKey]bool{}, map[edgeKey]bool{}
	type st struct {
		v   ssa.Value
		inv bool
		// which directions are still informative
		posOK, negOK bool
	}
	seen := map[ssa.Value]bool{}
	var walk func(s st)
	walk = func(s st) {
		if seen[s.v] {
			return
		}
		seen[s.v] = true
		refs := s.v.Referrers()
		if refs == nil {
			return
		}
		for _, r := range *refs {
			switch r := r.(type) {
			case *ssa.If:
				if r.Cond != s.v {
					continue
				}
				t, f := edgeKey{r.Block().Index, 0}, edgeKey{r.Block().Index, 1}
				if s.inv {
					t, f = f, t
				}
				if s.posOK {
					pos[t] = true
				}
				if s.negOK {
					neg[f] = true
				}
			case *ssa.UnOp:
				if r.Op == token.NOT {
					walk(st{r, !s.inv, s.posOK, s.negOK})
				}
			case *ssa.BinOp:
				other := r.Y
				if r.Y == s.v {
					other = r.X
				}
				if r.Op == token.NEQ && isNilConst(other) {
					walk(st{r, s.inv, s.posOK, s.negOK})
				} else if r.Op == token.EQL && isNilConst(other) {
					walk(st{r, !s.inv, s.posOK, s.negOK})
				} else if cb, ok := constBool(other); ok && (r.Op == token.EQL || r.Op == token.NEQ) {
					inv := s.inv
					if (r.Op == token.EQL) != cb {
						inv = !inv
					}
					walk(st{r, inv, s.posOK, s.negOK})
				}
			case *ssa.Phi:
				if _, isBool := r.Type().Underlying().(*types.Basic); isBool && r.Type().Underlying().(*types.Basic).Kind() == types.Bool {
					allFalse, allTrue := true, true
					for _, e := range r.Edges {
						if e == s.v {
							continue
						}
						cb, ok := constBool(e)
						if !ok {
							allFalse, allTrue = false, false
						} else if cb {
							allFalse = false
						} else {
							allTrue = false
						}
					}
					// a && b : phi[false, b]  -> phi true implies b true
					// a || b : phi[true, b]   -> phi false implies b false
					p, n := false, false
					if !s.inv {
						p, n = s.posOK && allFalse, s.negOK && allTrue
					} else {
						p, n = s.posOK && allTrue, s.negOK && allFalse
					}
					if p || n {
						walk(st{r, s.inv, p, n})
					}
				} else {
					// merged error / pointer values: the test of the phi is taken as the test of v
					walk(st{r, s.inv, s.posOK, s.negOK})
				}
			case *ssa.MakeInterface:
				walk(st{r, s.inv, s.posOK, s.negOK})
			case *ssa.ChangeInterface:
				walk(st{r, s.inv, s.posOK, s.negOK})
			case *ssa.ChangeType:
				walk(st{r, s.inv, s.posOK, s.negOK})
			case ssa.CallInstruction:
				// errors.Is(err, X) true => err non-nil
				if calleeName(r) == "errors.Is" && len(r.Common().Args) == 2 && r.Common().Args[0] == s.v && !s.inv {
					if cv, ok := r.(*ssa.Call); ok && s.posOK {
						p2, _ := truthEdges(cv)
						for k := range p2 {
							pos[k] = true
						}
					}
				}
			}
		}
	}
	walk(st{v, false, true, true})
	return
}

// errResults returns the SSA values holding the error result(s) of a call.
func errResults(ci ssa.CallInstruction) []ssa.Value {
	cv, ok := ci.(*ssa.Call)
	if !ok {
		return nil
	}
	sig := ci.Common().Signature()
	res := sig.Results()
	var out []ssa.Value
	if res.Len() == 1 {
		if isErrorType(res.At(0).Type()) {
			out = append(out, cv)
		}
		return out
	}
	for _, r := range *cv.Referrers() {
		if ex, ok := r.(*ssa.Extract); ok {
			if isErrorType(res.At(ex.Index).Type()) {
				out = append(out, ex)
			}
		}
	}
	return out
}

// resultN returns the Extract values for result index n of a tuple call (or the call itself if single result and n==0).
func resultN(ci ssa.CallInstruction, n int) []ssa.Value {
	cv, ok := ci.(*ssa.Call)
	if !ok {
		return nil
	}
	res := ci.Common().Signature().Results()
	if res.Len() == 1 && n == 0 {
		return []ssa.Value{cv}
	}
	var out []ssa.Value
	for _, r := range *cv.Referrers() {
		if ex, ok := r.(*ssa.Extract); ok && ex.Index == n {
			out = append(out, ex)
		}
	}
	return out
}

func isErrorType(t types.Type) bool {
	n, ok := t.(*types.Named)
	return ok && n.Obj().Pkg() == nil && n.Obj().Name() == "error"
}

func isBoolType(t types.Type) bool {
	b, ok := t.Underlying().(*types.Basic)
	return ok && b.Kind() == types.Bool
}

// okEdgesOfCall: edges on which the call is known to have succeeded
// (all error results nil, or for bool-returning callees the bool result true).
func failKnownEdges(ci ssa.CallInstruction) (succ map[edgeKey]bool, hasTest bool) {
	succ = map[edgeKey]bool{}
	for _, ev := range errResults(ci) {
		_, neg := truthEdges(ev)
		for k := range neg {
			succ[k] = true
			hasTest = true
		}
	}
	return
}

// onlyViaSuccess: target is reachable from the call only across an edge on which the call's
// error result is known nil (so: the error is tested, and the failing edge does not lead to target).
// Requires additionally that the call dominates target when dom is true.
func onlyViaSuccess(call ssa.CallInstruction, target ssa.Instruction, dom bool) bool {
	succ, has := failKnownEdges(call)
	if !has {
		return false
	}
	if dom && !dominatesI(call, target) {
		return false
	}
	found, _ := pathExists(after(call), isInstr(target), isInstr(call), succ)
	return !found
}

// onlyViaTrue: target reachable from def of v only across an edge where v is known true/non-nil.
func onlyViaTruth(v ssa.Value, from ssa.Instruction, target ssa.Instruction, want bool) bool {
	pos, neg := truthEdges(v)
	e := pos
	if !want {
		e = neg
	}
	if len(e) == 0 {
		return false
	}
	found, _ := pathExists(after(from), isInstr(target), isInstr(from), e)
	return !found
}

// failureReturns: every path from the call across a "failed" edge (error known non-nil) reaches a
// return without executing any instruction matching forbidden. Returns false with the offending
// instruction if some forbidden instruction is reachable from a failing edge before returning.
func failEdgeAvoids(call ssa.CallInstruction, forbidden func(ssa.Instruction) bool) (bool, bool) {
	tested := false
	ok := true
	for _, ev := range errResults(call) {
		pos, _ := truthEdges(ev)
		for k := range pos {
			tested = true
			b := call.Parent().Blocks[k[0]].Succs[k[1]]
			found, _ := pathExists(point{b, 0}, forbidden, isInstr(call), nil)
			if found {
				ok = false
			}
		}
	}
	return ok, tested
}

// ---------------------------------------------------------------- control conditions

type ctrlCond struct {
	If   *ssa.If
	Succ int // 0 = condition true, 1 = condition false
}

// ctrlConds returns every (if, edge) such that block b is reachable from entry only across that edge.
func ctrlConds(b *ssa.BasicBlock) []ctrlCond {
	fn := b.Parent()
	var out []ctrlCond
	isB := func(i ssa.Instruction) bool { return i.Block() == b }
	if b != fn.Blocks[0] {
		if reach, _ := pathExists(entry(fn), isB, nil, nil); !reach {
			return nil // only reachable through panic recovery
		}
	}
	for _, blk := range fn.Blocks {
		if len(blk.Instrs) == 0 {
			continue
		}
		ifi, ok := blk.Instrs[len(blk.Instrs)-1].(*ssa.If)
		if !ok || blk.Succs[0] == blk.Succs[1] {
			continue
		}
		for s := 0; s < 2; s++ {
			other := 1 - s
			// b must be unreachable when edge s is removed
			found, _ := pathExists(entry(fn), isB, nil, map[edgeKey]bool{{blk.Index, s}: true})
			if found {
				continue
			}
			// and must be reachable at all via s (not via other only)
			_ = other
			out = append(out, ctrlCond{ifi, s})
		}
	}
	return out
}

// ctrlCondsEdge: control conditions of taking the edge pred -> succ (conds of pred plus pred's own branch).
func ctrlCondsEdge(pred *ssa.BasicBlock, succIdx int) []ctrlCond {
	out := ctrlConds(pred)
	if ifi, ok := pred.Instrs[len(pred.Instrs)-1].(*ssa.If); ok && pred.Succs[0] != pred.Succs[1] {
		out = append(out, ctrlCond{ifi, succIdx})
	}
	return out
}

// ---------------------------------------------------------------- term rendering

type termer struct {
	fn    *ssa.Function
	depth int
	stack map[ssa.Value]bool
	// inline: render results of small static callees by name only
}

func term(v ssa.Value) string {
	t := &termer{stack: map[ssa.Value]bool{}}
	return t.t(v, 0)
}

func typeShort(t types.Type) string {
	return short(types.TypeString(t, func(p *types.Package) string { return p.Name() }))
}

func (t *termer) t(v ssa.Value, d int) string {
	if v == nil {
		return "<nil>"
	}
	if d > 14 {
		return "…"
	}
	if t.stack[v] {
		return "↺"
	}
	t.stack[v] = true
	defer delete(t.stack, v)
	switch v := v.(type) {
	case *ssa.Parameter:
		if s, ok := paramEnv[v]; ok {
			return s // parameter of a helper being looked through: the caller's argument
		}
		for i, p := range v.Parent().Params {
			if p == v {
				return fmt.Sprintf("p%d", i)
			}
		}
		return "p?"
	case *ssa.FreeVar:
		return "fv:" + v.Name()
	case *ssa.Const:
		if v.Value == nil {
			return "nil"
		}
		if v.Value.Kind() == constant.String {
			return v.Value.ExactString()
		}
		return v.Value.ExactString()
	case *ssa.Global:
		return short(v.Pkg.Pkg.Path()) + "." + v.Name()
	case *ssa.Function:
		return short(fnName(v))
	case *ssa.Builtin:
		return v.Name()
	case *ssa.Alloc:
		return "alloc(" + v.Comment + ")"
	case *ssa.FieldAddr:
		if al, ok := v.X.(*ssa.Alloc); ok {
			if sv := singleStore(al); sv != nil {
				return t.t(sv, d+1) + "." + fieldName(v.X.Type(), v.Field)
			}
		}
		return t.t(v.X, d+1) + "." + fieldName(v.X.Type(), v.Field)
	case *ssa.Field:
		return t.t(v.X, d+1) + "." + fieldName(v.X.Type(), v.Field)
	case *ssa.IndexAddr:
		if al, ok := v.X.(*ssa.Alloc); ok {
			if sv := singleStore(al); sv != nil {
				return t.t(sv, d+1) + "[" + t.t(v.Index, d+1) + "]"
			}
		}
		return t.t(v.X, d+1) + "[" + t.t(v.Index, d+1) + "]"
	case *ssa.Index:
		return t.t(v.X, d+1) + "[" + t.t(v.Index, d+1) + "]"
	case *ssa.Lookup:
		return t.t(v.X, d+1) + "[" + t.t(v.Index, d+1) + "]"
	case *ssa.UnOp:
		switch v.Op {
		case token.MUL:
			switch x := v.X.(type) {
			case *ssa.FieldAddr, *ssa.IndexAddr, *ssa.Global, *ssa.FreeVar:
				return t.t(x, d+1)
			case *ssa.Alloc:
				// single store into a local that is only spilled: render the stored value
				if sv := singleStore(x); sv != nil {
					return t.t(sv, d+1)
				}
				return t.t(x, d+1)
			}
			return "*" + t.t(v.X, d+1)
		case token.NOT:
			return "!" + t.t(v.X, d+1)
		case token.SUB:
			return "-" + t.t(v.X, d+1)
		case token.ARROW:
			return "<-" + t.t(v.X, d+1)
		case token.XOR:
			return "^" + t.t(v.X, d+1)
		}
		return v.Op.String() + t.t(v.X, d+1)
	case *ssa.BinOp:
		x, y := t.t(v.X, d+1), t.t(v.Y, d+1)
		switch v.Op {
		case token.ADD, token.MUL, token.AND, token.OR, token.XOR, token.EQL, token.NEQ:
			if x > y && !(v.Op == token.ADD && isStringType(v.Type())) {
				x, y = y, x
			}
			// x + 0 (a helper instantiated with a zero argument) is x
			if v.Op == token.ADD && !isStringType(v.Type()) {
				if x == "0" {
					return y
				}
				if y == "0" {
					return x
				}
			}
		case token.GTR:
			return "(" + y + " < " + x + ")"
		case token.GEQ:
			return "(" + y + " <= " + x + ")"
		}
		return "(" + x + " " + v.Op.String() + " " + y + ")"
	case *ssa.Call:
		if rv, callee := inlinedResult(v, 0); rv != nil && singleReturn(callee) != nil && len(singleReturn(callee).Results) == 1 {
			s := ""
			withCallEnv(v, callee, func() { s = t.t(rv, d+1) })
			return s
		}
		if s := t.mergedResult(v, d); s != "" {
			return s
		}
		return t.call(v, d)
	case *ssa.Extract:
		if c, ok := v.Tuple.(*ssa.Call); ok {
			if rv, callee := inlinedResult(c, v.Index); rv != nil {
				s := ""
				withCallEnv(c, callee, func() { s = t.t(rv, d+1) })
				return s
			}
		}
		return t.t(v.Tuple, d+1) + "#" + fmt.Sprint(v.Index)
	case *ssa.Convert:
		return typeShort(v.Type()) + "(" + t.t(v.X, d+1) + ")"
	case *ssa.ChangeType:
		return t.t(v.X, d+1)
	case *ssa.ChangeInterface:
		return t.t(v.X, d+1)
	case *ssa.MakeInterface:
		return t.t(v.X, d+1)
	case *ssa.SliceToArrayPointer:
		return t.t(v.X, d+1)
	case *ssa.Phi:
		var es []string
		seen := map[string]bool{}
		for _, e := range v.Edges {
			// a nested merge (a helper with several returns rendered as the merge of its results, see the Call case) is
			// spliced in, so that the merge does not depend on where the branches were written
			for _, s := range splitPhi(t.t(e, d+1)) {
				if !seen[s] {
					seen[s] = true
					es = append(es, s)
				}
			}
		}
		sort.Strings(es)
		if len(es) == 1 {
			return es[0]
		}
		return "phi(" + strings.Join(es, ", ") + ")"
	case *ssa.MakeClosure:
		return "closure:" + short(fnName(v.Fn.(*ssa.Function)))
	case *ssa.Slice:
		if al, ok := v.X.(*ssa.Alloc); ok && (al.Comment == "varargs" || al.Comment == "slicelit") && v.Low == nil && v.High == nil {
			var es []string
			for _, e := range variadicElems(v) {
				es = append(es, t.t(e, d+1))
			}
			return "[" + strings.Join(es, ", ") + "]"
		}
		base := t.t(v.X, d+1)
		if al, ok := v.X.(*ssa.Alloc); ok {
			// slicing a local array variable that is assigned exactly once: render the assigned value
			if sv := uniqueStore(al); sv != nil {
				base = t.t(sv, d+1)
			}
		}
		s := base + "["
		if v.Low != nil {
			s += t.t(v.Low, d+1)
		}
		s += ":"
		if v.High != nil {
			s += t.t(v.High, d+1)
		}
		if v.Max != nil {
			s += ":" + t.t(v.Max, d+1)
		}
		return s + "]"
	case *ssa.TypeAssert:
		return t.t(v.X, d+1) + ".(" + typeShort(v.AssertedType) + ")"
	case *ssa.MakeMap:
		return "makemap(" + typeShort(v.Type()) + ")"
	case *ssa.MakeSlice:
		return "makeslice(" + typeShort(v.Type()) + ", " + t.t(v.Len, d+1) + ", " + t.t(v.Cap, d+1) + ")"
	case *ssa.MakeChan:
		return "makechan(" + typeShort(v.Type()) + ")"
	case *ssa.Range:
		return "range(" + t.t(v.X, d+1) + ")"
	case *ssa.Next:
		return "next(" + t.t(v.Iter, d+1) + ")"
	case *ssa.Select:
		return "select"
	}
	return fmt.Sprintf("%T", v)
}

// splitPhi returns the elements of a rendered merge "phi(a, b, ...)" (split at top-level commas), or the term itself.
func splitPhi(s string) []string {
	if !strings.HasPrefix(s, "phi(") || !strings.HasSuffix(s, ")") || !balanced(s[4:len(s)-1]) {
		return []string{s}
	}
	body := s[4 : len(s)-1]
	var out []string
	depth, start := 0, 0
	inStr := false
	for i := 0; i < len(body); i++ {
		c := body[i]
		switch {
		case c == '"' && (i == 0 || body[i-1] != '\\'):
			inStr = !inStr
		case inStr:
		case c == '(' || c == '[':
			depth++
		case c == ')' || c == ']':
			depth--
			if depth < 0 {
				return []string{s} // "phi(a) + (b)" is not a merge
			}
		case c == ',' && depth == 0 && i+1 < len(body) && body[i+1] == ' ':
			out = append(out, body[start:i])
			start = i + 2
		}
	}
	out = append(out, body[start:])
	return out
}

// mergedResult renders the single result of a looked-through helper that has several return statements as the merge
// of the returned values (what the same branches written inline produce), or "" if v is not such a call.
func (t *termer) mergedResult(v *ssa.Call, d int) string {
	if liftDepth >= maxLiftDepth {
		return ""
	}
	callee := transparentCallee(v)
	if callee == nil || callee.Signature.Results().Len() != 1 || singleReturn(callee) != nil {
		return ""
	}
	if isErrorType(callee.Signature.Results().At(0).Type()) {
		return "" // error results are followed by the outcome analysis (spliceHelperOutcomes), not by value
	}
	seen := map[string]bool{}
	var es []string
	withCallEnv(v, callee, func() {
		for _, b := range callee.Blocks {
			if len(b.Instrs) == 0 {
				continue
			}
			ret, ok := b.Instrs[len(b.Instrs)-1].(*ssa.Return)
			if !ok {
				continue
			}
			rs := unspill(ret)
			if len(rs) != 1 {
				continue
			}
			for _, s := range splitPhi(t.t(rs[0], d+1)) {
				if !seen[s] {
					seen[s] = true
					es = append(es, s)
				}
			}
		}
	})
	if len(es) == 0 {
		return ""
	}
	sort.Strings(es)
	if len(es) == 1 {
		return es[0]
	}
	return "phi(" + strings.Join(es, ", ") + ")"
}

func isStringType(t types.Type) bool {
	b, ok := t.Underlying().(*types.Basic)
	return ok && b.Info()&types.IsString != 0
}

func (t *termer) call(v *ssa.Call, d int) string {
	name := short(calleeName(v))
	if name == "" {
		name = "dyn:" + t.t(v.Call.Value, d+1)
	}
	var as []string
	for _, a := range callArgs(v) {
		as = append(as, t.t(a, d+1))
	}
	return name + "(" + strings.Join(as, ", ") + ")"
}

func fieldName(t types.Type, idx int) string {
	if p, ok := t.Underlying().(*types.Pointer); ok {
		t = p.Elem()
	}
	if st, ok := t.Underlying().(*types.Struct); ok && idx < st.NumFields() {
		return st.Field(idx).Name()
	}
	return fmt.Sprintf("f%d", idx)
}

// fieldOwner returns "pkgpath.Type" of the struct a FieldAddr/Field selects from, and the field name.
func fieldOwner(x ssa.Value, idx int) (string, string) {
	t := x.Type()
	if p, ok := t.Underlying().(*types.Pointer); ok {
		t = p.Elem()
	}
	name := ""
	if n, ok := t.(*types.Named); ok {
		if n.Obj().Pkg() != nil {
			name = n.Obj().Pkg().Path() + "." + n.Obj().Name()
		} else {
			name = n.Obj().Name()
		}
	}
	return name, fieldName(t, idx)
}

// singleStore: if alloc has exactly one Store to it (besides loads), return the stored value.
func singleStore(a *ssa.Alloc) ssa.Value {
	refs := a.Referrers()
	if refs == nil {
		return nil
	}
	var sv ssa.Value
	n := 0
	for _, r := range *refs {
		switch r := r.(type) {
		case *ssa.Store:
			if r.Addr == a {
				sv = r.Val
				n++
			}
		case *ssa.UnOp:
		case *ssa.DebugRef:
		case *ssa.FieldAddr:
			// field of a spilled struct value: fine if the field is only read
			if isWriteAccess(r) || fieldAddrEscapes(r) {
				return nil
			}
		case *ssa.Slice:
			// slicing a local array variable (x[:]) to pass it on: treated as a read
		case *ssa.IndexAddr:
			// element of a spilled array value: fine if elements are only read
			for _, rr := range *r.Referrers() {
				if _, isLoad := rr.(*ssa.UnOp); !isLoad {
					if _, isDbg := rr.(*ssa.DebugRef); !isDbg {
						return nil
					}
				}
			}
		case *ssa.MakeClosure:
			// captured by a function literal: fine as long as the literal never assigns the variable
			if closureStores(r, a) {
				return nil
			}
		default:
			return nil // address escapes
		}
	}
	if n == 1 {
		return sv
	}
	return nil
}

// uniqueStore returns the only value ever stored directly to the allocation (whatever else refers to it), or nil.
func uniqueStore(a *ssa.Alloc) ssa.Value {
	var sv ssa.Value
	n := 0
	for _, r := range *a.Referrers() {
		if st, ok := r.(*ssa.Store); ok && st.Addr == a {
			sv = st.Val
			n++
		}
	}
	if n == 1 {
		return sv
	}
	return nil
}

// fieldAddrEscapes: the field address is used other than by loads (and nested field/index addressing that is only loaded).
func fieldAddrEscapes(fa *ssa.FieldAddr) bool {
	for _, r := range *fa.Referrers() {
		switch x := r.(type) {
		case *ssa.UnOp:
		case *ssa.DebugRef:
		case *ssa.FieldAddr:
			if isWriteAccess(x) || fieldAddrEscapes(x) {
				return true
			}
		default:
			return true
		}
	}
	return false
}

// closureStores: the function literal (or a literal nested in it) stores to the captured variable v.
func closureStores(mc *ssa.MakeClosure, v ssa.Value) bool {
	fn, ok := mc.Fn.(*ssa.Function)
	if !ok {
		return true
	}
	for i, b := range mc.Bindings {
		if b != v || i >= len(fn.FreeVars) {
			continue
		}
		fv := fn.FreeVars[i]
		stored := false
		eachInstr(fn, func(ins ssa.Instruction) {
			switch x := ins.(type) {
			case *ssa.Store:
				if x.Addr == fv {
					stored = true
				}
			case *ssa.MakeClosure:
				if closureStores(x, fv) {
					stored = true
				}
			}
		})
		if stored {
			return true
		}
	}
	return false
}

// pred renders a branch condition with the polarity of the taken edge folded in, normalised:
// only <, <=, ==, != relations; "a > b" becomes "b < a"; negation flips the relation.
func predString(cond ssa.Value, taken bool) string {
	// strip nots
	for {
		u, ok := cond.(*ssa.UnOp)
		if !ok || u.Op != token.NOT {
			break
		}
		cond = u.X
		taken = !taken
	}
	if c, ok := cond.(*ssa.Call); ok {
		// a predicate helper that did not exist on the reference tree: its returned expression is the predicate
		if rv, callee := inlinedResult(c, 0); rv != nil {
			s := ""
			withCallEnv(c, callee, func() { s = predString(rv, taken) })
			return s
		}
	}
	if b, ok := cond.(*ssa.BinOp); ok {
		op := b.Op
		x, y := term(b.X), term(b.Y)
		if !taken {
			switch op {
			case token.LSS:
				op = token.GEQ
			case token.LEQ:
				op = token.GTR
			case token.GTR:
				op = token.LEQ
			case token.GEQ:
				op = token.LSS
			case token.EQL:
				op = token.NEQ
			case token.NEQ:
				op = token.EQL
			default:
				return "!" + term(cond)
			}
		}
		switch op {
		case token.GTR:
			return y + " < " + x
		case token.GEQ:
			return y + " <= " + x
		case token.LSS:
			return x + " < " + y
		case token.LEQ:
			return x + " <= " + y
		case token.EQL, token.NEQ:
			if x > y {
				x, y = y, x
			}
			return x + " " + op.String() + " " + y
		}
		s := term(cond)
		if !taken {
			return "!" + s
		}
		return s
	}
	s := term(cond)
	if !taken {
		return "!" + s
	}
	return s
}

func condStrings(cs []ctrlCond) []string {
	var out []string
	for _, c := range cs {
		out = append(out, predString(c.If.Cond, c.Succ == 0))
	}
	sort.Strings(out)
	return out
}

func hasStr(list []string, s string) bool {
	for _, x := range list {
		if x == s {
			return true
		}
	}
	return false
}

// ---------------------------------------------------------------- return outcomes

type retOutcome struct {
	Ret       *ssa.Return
	Pred      *ssa.BasicBlock // for phi-expanded virtual returns: the predecessor; else nil
	Sentinels []string        // names of error globals flowing into the error result; "nil"; "?" unknown
	Conds     []string        // normalised controlling predicates
	Vals      []ssa.Value     // result values (phi-resolved for the error result)
	ErrTerm   string          // rendered error result value
	NonNil    bool            // error result is certainly non-nil
}

// sentinelsOf collects error globals (pkg.ErrX) that flow into v, "nil" for the nil constant,
// "err:<term>" for anything else (e.g. a propagated call error).
func sentinelsOf(v ssa.Value) []string {
	set := map[string]bool{}
	seen := map[ssa.Value]bool{}
	var walk func(v ssa.Value, d int)
	walk = func(v ssa.Value, d int) {
		if v == nil || seen[v] || d > 12 {
			return
		}
		seen[v] = true
		switch v := v.(type) {
		case *ssa.Const:
			if v.Value == nil {
				set["nil"] = true
			}
		case *ssa.UnOp:
			if v.Op == token.MUL {
				if g, ok := v.X.(*ssa.Global); ok {
					set[short(g.Pkg.Pkg.Path())+"."+g.Name()] = true
					return
				}
				if a, ok := v.X.(*ssa.Alloc); ok {
					for _, r := range *a.Referrers() {
						if s, ok := r.(*ssa.Store); ok && s.Addr == a {
							walk(s.Val, d+1)
						}
					}
					return
				}
			}
			set["err:"+term(v)] = true
		case *ssa.MakeInterface:
			walk(v.X, d+1)
		case *ssa.ChangeInterface:
			walk(v.X, d+1)
		case *ssa.Phi:
			for _, e := range v.Edges {
				walk(e, d+1)
			}
		case *ssa.Call:
			n := calleeName(v)
			if n == "fmt.Errorf" || n == "errors.Join" {
				for _, a := range v.Call.Args {
					for _, e := range variadicElems(a) {
						if isErrorType(e.Type()) || isIfaceHoldingError(e) {
							walk(e, d+1)
						}
					}
				}
				if len(set) == 0 {
					set["err:"+n] = true
				}
				return
			}
			set["err:"+short(n)] = true
		case *ssa.Extract:
			if c, ok := v.Tuple.(*ssa.Call); ok {
				set["err:"+short(calleeName(c))] = true
			} else {
				set["err:"+term(v)] = true
			}
		default:
			set["err:"+term(v)] = true
		}
	}
	walk(v, 0)
	var out []string
	for k := range set {
		out = append(out, k)
	}
	sort.Strings(out)
	return out
}

// alwaysNonNil: the error value is certainly non-nil (fmt.Errorf / errors.New result, or a sentinel global).
func alwaysNonNil(v ssa.Value) bool {
	switch v := v.(type) {
	case *ssa.Call:
		switch calleeName(v) {
		case "fmt.Errorf", "errors.New":
			return true
		}
	case *ssa.UnOp:
		if _, ok := v.X.(*ssa.Global); ok {
			return true
		}
	case *ssa.MakeInterface:
		return true
	case *ssa.ChangeInterface:
		return alwaysNonNil(v.X)
	case *ssa.Phi:
		for _, e := range v.Edges {
			if !alwaysNonNil(e) {
				return false
			}
		}
		return len(v.Edges) > 0
	}
	return false
}

// strip removes value-preserving conversions.
func strip(v ssa.Value) ssa.Value {
	for {
		switch x := v.(type) {
		case *ssa.ChangeType:
			v = x.X
		case *ssa.ChangeInterface:
			v = x.X
		case *ssa.MakeInterface:
			v = x.X
		default:
			return v
		}
	}
}

// sameValue: a and b are the same SSA value up to value-preserving conversions.
func sameValue(a, b ssa.Value) bool {
	a, b = strip(a), strip(b)
	if a == b {
		return true
	}
	// a local variable that is assigned exactly once (and only read by the literals capturing it) stands for the
	// value assigned: a variable becomes such a cell as soon as some function literal mentions it
	cell := func(v ssa.Value) ssa.Value {
		if ld, ok := v.(*ssa.UnOp); ok && ld.Op == token.MUL {
			if al, ok := ld.X.(*ssa.Alloc); ok {
				if sv := singleStore(al); sv != nil {
					return strip(sv)
				}
			}
		}
		return v
	}
	if ca, cb := cell(a), cell(b); ca != a || cb != b {
		if ca == cb {
			return true
		}
		a, b = ca, cb
	}
	// two loads of the same location that is never stored to in this function (go/ssa does no CSE)
	la, ok1 := a.(*ssa.UnOp)
	lb, ok2 := b.(*ssa.UnOp)
	if ok1 && ok2 && la.Op == token.MUL && lb.Op == token.MUL && sameLoc(la.X, lb.X) && !storedTo(la.Parent(), la.X) {
		return true
	}
	// two field reads of the same struct value
	fa, ok1 := a.(*ssa.Field)
	fb, ok2 := b.(*ssa.Field)
	if ok1 && ok2 && fa.Field == fb.Field && sameValue(fa.X, fb.X) {
		return true
	}
	// identical constants
	ca, ok1 := a.(*ssa.Const)
	cb, ok2 := b.(*ssa.Const)
	if ok1 && ok2 && ca.Value != nil && cb.Value != nil && ca.Value.ExactString() == cb.Value.ExactString() {
		return true
	}
	return false
}

// sameLoc: two address values denote the same memory location.
func sameLoc(a, b ssa.Value) bool {
	if a == b {
		return true
	}
	switch x := a.(type) {
	case *ssa.FieldAddr:
		y, ok := b.(*ssa.FieldAddr)
		return ok && x.Field == y.Field && (x.X == y.X || sameValue(x.X, y.X))
	}
	return false
}

// storedTo: fn contains a store whose address is the same location as loc.
func storedTo(fn *ssa.Function, loc ssa.Value) bool {
	found := false
	eachInstr(fn, func(i ssa.Instruction) {
		if st, ok := i.(*ssa.Store); ok && sameLocShallow(st.Addr, loc) {
			found = true
		}
	})
	return found
}

func sameLocShallow(a, b ssa.Value) bool {
	if a == b {
		return true
	}
	x, ok1 := a.(*ssa.FieldAddr)
	y, ok2 := b.(*ssa.FieldAddr)
	if ok1 && ok2 && x.Field == y.Field {
		return x.X == y.X || term(x.X) == term(y.X)
	}
	return false
}

func isIfaceHoldingError(v ssa.Value) bool {
	if mi, ok := v.(*ssa.MakeInterface); ok {
		return isErrorType(mi.X.Type())
	}
	if ci, ok := v.(*ssa.ChangeInterface); ok {
		return isErrorType(ci.X.Type())
	}
	return false
}

// variadicElems expands a variadic slice argument built as new [n]T + stores + slice into its elements.
// For any other value it returns the value itself.
func variadicElems(v ssa.Value) []ssa.Value {
	sl, ok := v.(*ssa.Slice)
	if !ok {
		return []ssa.Value{v}
	}
	al, ok := sl.X.(*ssa.Alloc)
	if !ok {
		return []ssa.Value{v}
	}
	var out []ssa.Value
	for _, r := range *al.Referrers() {
		ia, ok := r.(*ssa.IndexAddr)
		if !ok {
			continue
		}
		for _, rr := range *ia.Referrers() {
			if st, ok := rr.(*ssa.Store); ok && st.Addr == ia {
				out = append(out, st.Val)
			}
		}
	}
	return out
}

// unspill resolves results that go/ssa spilled to result variables because the function has defers:
// "return x" becomes "store result = x; rundefers; return *result". The value stored in the return's own
// block is used when there is one.
func unspill(ret *ssa.Return) []ssa.Value {
	out := append([]ssa.Value{}, ret.Results...)
	b := ret.Block()
	for i, v := range out {
		ld, ok := v.(*ssa.UnOp)
		if !ok || ld.Op != token.MUL {
			continue
		}
		al, ok := ld.X.(*ssa.Alloc)
		if !ok {
			continue
		}
		var last ssa.Value
		for _, ins := range b.Instrs {
			if ins == ld {
				break
			}
			if st, ok := ins.(*ssa.Store); ok && st.Addr == al {
				last = st.Val
			}
		}
		if last != nil {
			out[i] = last
		}
	}
	return out
}

// returnOutcomes lists the (phi-expanded) returns of fn with their error sentinels and controlling predicates.
func returnOutcomes(fn *ssa.Function) []retOutcome {
	var out []retOutcome
	res := fn.Signature.Results()
	errIdx := -1
	for i := res.Len() - 1; i >= 0; i-- {
		if isErrorType(res.At(i).Type()) {
			errIdx = i
			break
		}
	}
	for _, b := range fn.Blocks {
		if len(b.Instrs) == 0 {
			continue
		}
		ret, ok := b.Instrs[len(b.Instrs)-1].(*ssa.Return)
		if !ok || b == fn.Recover {
			continue
		}
		results := unspill(ret)
		if errIdx < 0 || errIdx >= len(results) {
			out = append(out, retOutcome{Ret: ret, Conds: condStrings(ctrlConds(b)), Vals: results})
			continue
		}
		ev := results[errIdx]
		if phi, ok := ev.(*ssa.Phi); ok && phi.Block() == b {
			for i, e := range phi.Edges {
				pred := b.Preds[i]
				si := 0
				for k, s := range pred.Succs {
					if s == b {
						si = k
					}
				}
				vals := append([]ssa.Value{}, results...)
				vals[errIdx] = e
				out = append(out, spliceHelperOutcomes(retOutcome{Ret: ret, Pred: pred, Sentinels: sentinelsOf(e), Conds: condStrings(ctrlCondsEdge(pred, si)), Vals: vals, ErrTerm: term(e), NonNil: alwaysNonNil(e)}, e)...)
			}
			continue
		}
		out = append(out, spliceHelperOutcomes(retOutcome{Ret: ret, Sentinels: sentinelsOf(ev), Conds: condStrings(ctrlConds(b)), Vals: results, ErrTerm: term(ev), NonNil: alwaysNonNil(ev)}, ev)...)
	}
	return out
}

// spliceHelperOutcomes: when the returned error is the error result of a helper that did not exist on the reference tree,
// the caller's outcome is replaced by the helper's error outcomes (sentinels, conditions with the arguments substituted),
// each under the caller's own conditions.
func spliceHelperOutcomes(o retOutcome, ev ssa.Value) []retOutcome {
	if liftDepth >= maxLiftDepth {
		return []retOutcome{o}
	}
	var call *ssa.Call
	switch x := strip(ev).(type) {
	case *ssa.Call:
		call = x
	case *ssa.Extract:
		call, _ = x.Tuple.(*ssa.Call)
	}
	if call == nil {
		return []retOutcome{o}
	}
	callee := transparentCallee(call)
	if callee == nil || callee == o.Ret.Parent() {
		return []retOutcome{o}
	}
	name := short(fnName(callee)) + "("
	var keep []string
	testsNonNil := false
	for _, c := range o.Conds {
		if strings.Contains(c, name) {
			if strings.HasSuffix(c, " != nil") || strings.HasPrefix(c, "nil != ") {
				testsNonNil = true
			}
			continue
		}
		keep = append(keep, c)
	}
	var out []retOutcome
	withCallEnv(call, callee, func() {
		for _, co := range returnOutcomes(callee) {
			if testsNonNil && co.isPotentialSuccess() && !co.NonNil && hasStr(co.Sentinels, "nil") && len(co.Sentinels) == 1 {
				continue // the caller returns the helper's error only where it is non-nil
			}
			n := o
			n.Sentinels = co.Sentinels
			n.ErrTerm = co.ErrTerm
			n.NonNil = co.NonNil
			n.Conds = append(append([]string{}, keep...), co.Conds...)
			sort.Strings(n.Conds)
			out = append(out, n)
		}
	})
	if len(out) == 0 {
		return []retOutcome{o}
	}
	return out
}

// ---------------------------------------------------------------- def-use helpers

// derivesFrom reports whether v is computed (through phi, conversions, field/index/extract, slicing,
// arithmetic, interface boxing) from a value satisfying src.
func derivesFrom(v ssa.Value, src func(ssa.Value) bool) bool {
	seen := map[ssa.Value]bool{}
	var walk func(v ssa.Value, d int) bool
	walk = func(v ssa.Value, d int) bool {
		if v == nil || seen[v] || d > 30 {
			return false
		}
		seen[v] = true
		if src(v) {
			return true
		}
		switch v := v.(type) {
		case *ssa.Phi:
			for _, e := range v.Edges {
				if walk(e, d+1) {
					return true
				}
			}
		case *ssa.Convert:
			return walk(v.X, d+1)
		case *ssa.ChangeType:
			return walk(v.X, d+1)
		case *ssa.ChangeInterface:
			return walk(v.X, d+1)
		case *ssa.MakeInterface:
			return walk(v.X, d+1)
		case *ssa.Extract:
			return walk(v.Tuple, d+1)
		case *ssa.Field:
			return walk(v.X, d+1)
		case *ssa.FieldAddr:
			return walk(v.X, d+1)
		case *ssa.Index:
			return walk(v.X, d+1)
		case *ssa.IndexAddr:
			return walk(v.X, d+1)
		case *ssa.Slice:
			return walk(v.X, d+1)
		case *ssa.BinOp:
			return walk(v.X, d+1) || walk(v.Y, d+1)
		case *ssa.UnOp:
			if v.Op == token.MUL {
				if a, ok := v.X.(*ssa.Alloc); ok {
					for _, r := range *a.Referrers() {
						if s, ok := r.(*ssa.Store); ok && s.Addr == a && walk(s.Val, d+1) {
							return true
						}
					}
					return false
				}
			}
			return walk(v.X, d+1)
		case *ssa.TypeAssert:
			return walk(v.X, d+1)
		case *ssa.Call:
			// pure arithmetic helpers: the result derives from the arguments
			if n := calleeName(v); strings.HasPrefix(n, "math/bits.") || strings.HasPrefix(n, "github.com/ava-labs/avalanchego/utils/math.") {
				for _, a := range v.Call.Args {
					if walk(a, d+1) {
						return true
					}
				}
			}
		}
		return false
	}
	return walk(v, 0)
}

func isCallTo(v ssa.Value, names ...string) bool {
	c, ok := v.(*ssa.Call)
	if !ok {
		return false
	}
	n := calleeName(c)
	for _, x := range names {
		if n == x {
			return true
		}
	}
	return false
}

// storesTo returns Store instructions in fn whose address is a FieldAddr of struct owner.field.
func fieldStores(fn *ssa.Function, owner, field string) []*ssa.Store {
	var out []*ssa.Store
	eachInstr(fn, func(ins ssa.Instruction) {
		st, ok := ins.(*ssa.Store)
		if !ok {
			return
		}
		if fa, ok := st.Addr.(*ssa.FieldAddr); ok {
			o, f := fieldOwner(fa.X, fa.Field)
			if o == owner && f == field {
				out = append(out, st)
			}
		}
	})
	return out
}

// fieldAccesses returns FieldAddr/Field instructions selecting owner.field in fn.
func fieldAccesses(fn *ssa.Function, owner, field string) []ssa.Instruction {
	var out []ssa.Instruction
	eachInstr(fn, func(ins ssa.Instruction) {
		switch v := ins.(type) {
		case *ssa.FieldAddr:
			o, f := fieldOwner(v.X, v.Field)
			if o == owner && (field == "*" || f == field) {
				out = append(out, ins)
			}
		case *ssa.Field:
			o, f := fieldOwner(v.X, v.Field)
			if o == owner && (field == "*" || f == field) {
				out = append(out, ins)
			}
		}
	})
	return out
}

// isWriteAccess reports whether a FieldAddr is used to modify the field (store, map update, delete, append+store).
func isWriteAccess(fa *ssa.FieldAddr) bool {
	for _, r := range *fa.Referrers() {
		switch r := r.(type) {
		case *ssa.Store:
			if r.Addr == fa {
				return true
			}
		case *ssa.UnOp:
			if r.Op != token.MUL {
				continue
			}
			for _, rr := range *r.Referrers() {
				switch rr := rr.(type) {
				case *ssa.MapUpdate:
					if rr.Map == r {
						return true
					}
				case ssa.CallInstruction:
					n := calleeName(rr)
					if n == "builtin.delete" && len(rr.Common().Args) > 0 && rr.Common().Args[0] == r {
						return true
					}
					if n == "builtin.clear" {
						return true
					}
				case *ssa.IndexAddr:
					for _, r3 := range *rr.Referrers() {
						if s, ok := r3.(*ssa.Store); ok && s.Addr == rr {
							return true
						}
					}
				}
			}
		}
	}
	return false
}

func sortedKeys[V any](m map[string]V) []string {
	var out []string
	for k := range m {
		out = append(out, k)
	}
	sort.Strings(out)
	return out
}
