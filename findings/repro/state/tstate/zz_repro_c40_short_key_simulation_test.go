// Copyright (C) 2024, Ava Labs, Inc. All rights reserved.
// See the file LICENSE for licensing terms.

package tstate

import (
	"context"
	"testing"

	"github.com/stretchr/testify/require"

	"github.com/ava-labs/hypersdk/state"
)

// TestC40ShortKeysInvalidInSimulation: keys shorter than the two-byte chunk
// suffix are invalid wherever they are used. Under the simulation scope
// (state.SimulatedKeys, used by JSONRPCServer.SimulateActions to tell a client
// which state keys to declare) a short key is silently accepted and silently
// dropped from the recorded key set.
func TestC40ShortKeysInvalidInSimulation(t *testing.T) {
	ctx := context.TODO()

	for _, short := range [][]byte{{}, {0x01}} {
		require := require.New(t)
		scope := state.SimulatedKeys{}
		tsv := New(10).NewView(
			scope,
			state.ImmutableStorage(map[string][]byte{string(short): []byte("v")}),
			0,
		)
		_, getErr := tsv.GetValue(ctx, short)
		rmErr := tsv.Remove(ctx, short)
		// Either the access is refused, or (at the very least) the key that was
		// used is reported back to the caller.
		_, recorded := scope.StateKeys()[string(short)]
		require.False(getErr == nil && !recorded, "GetValue(%x) succeeded on a key the simulation did not record", short)
		require.False(rmErr == nil && !recorded, "Remove(%x) succeeded on a key the simulation did not record", short)
		require.Error(getErr, "GetValue of a %d-byte key", len(short))
		require.Error(rmErr, "Remove of a %d-byte key", len(short))
	}
}
