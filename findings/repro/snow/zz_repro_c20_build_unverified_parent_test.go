// Copyright (C) 2024, Ava Labs, Inc. All rights reserved.
// See the file LICENSE for licensing terms.

package snow

import (
	"context"
	"encoding/json"
	"sync"
	"testing"

	"github.com/ava-labs/avalanchego/ids"
	"github.com/ava-labs/avalanchego/snow/engine/common"
	"github.com/ava-labs/avalanchego/snow/engine/enginetest"
	"github.com/ava-labs/avalanchego/snow/engine/snowman/block"
	"github.com/ava-labs/avalanchego/snow/snowtest"
	"github.com/stretchr/testify/require"
)

// c20hChainD2 wraps the package's TestChain and records the arguments the snow
// wrapper hands to the chain callbacks instead of dereferencing them blindly.
type c20hChainD2 struct {
	*TestChain

	// acceptGate, if non-nil, is received from before each AcceptBlock call returns.
	acceptGate chan struct{}

	l               sync.Mutex
	acceptNilParent []uint64 // heights accepted with a nil accepted parent
	acceptBadParent []uint64 // heights accepted with an accepted parent that is not the block's parent
	buildNilParent  int
}

func (c *c20hChainD2) AcceptBlock(ctx context.Context, acceptedParent *TestBlock, verifiedBlock *TestBlock) (*TestBlock, error) {
	if c.acceptGate != nil {
		<-c.acceptGate
	}
	c.l.Lock()
	defer c.l.Unlock()
	switch {
	case acceptedParent == nil:
		c.acceptNilParent = append(c.acceptNilParent, verifiedBlock.GetHeight())
	case acceptedParent.GetID() != verifiedBlock.GetParent() || !acceptedParent.acceptedPopulated:
		c.acceptBadParent = append(c.acceptBadParent, verifiedBlock.GetHeight())
	}
	verifiedBlock.acceptedPopulated = true
	return verifiedBlock, nil
}

func (c *c20hChainD2) BuildBlock(ctx context.Context, blkContext *block.Context, parent *TestBlock) (*TestBlock, *TestBlock, error) {
	if parent == nil {
		c.l.Lock()
		c.buildNilParent++
		c.l.Unlock()
		return nil, nil, context.Canceled
	}
	return c.TestChain.BuildBlock(ctx, blkContext, parent)
}

func newC20hVMD2(t *testing.T, chain Chain[*TestBlock, *TestBlock, *TestBlock], acceptedWindow int, pre func(vm *SnowVM[*TestBlock, *TestBlock, *TestBlock])) *SnowVM[*TestBlock, *TestBlock, *TestBlock] {
	r := require.New(t)
	ctx := context.Background()
	vm := NewSnowVM[*TestBlock, *TestBlock, *TestBlock](testVersion, chain)
	if pre != nil {
		pre(vm)
	}
	snowCtx := snowtest.Context(t, ids.GenerateTestID())
	snowCtx.ChainDataDir = t.TempDir()
	config := map[string]interface{}{
		SnowVMConfigKey: VMConfig{
			ParsedBlockCacheSize:     2,
			AcceptedBlockWindowCache: acceptedWindow,
		},
	}
	configBytes, err := json.Marshal(config)
	r.NoError(err)
	toEngine := make(chan common.Message, 1)
	r.NoError(vm.Initialize(ctx, snowCtx, nil, nil, nil, configBytes, toEngine, nil, &enginetest.Sender{T: t}))
	t.Cleanup(func() {
		r.NoError(vm.Shutdown(ctx))
	})
	return vm
}

// After dynamic state sync finishes, a processing block that failed re-verification stays in the
// processing set unverified (Output is the zero value). The engine does not know and may keep it as its
// preference. BuildBlock must not hand the chain that zero Output as the parent to build on.
func TestC20hBuildOnUnverifiedPreference(t *testing.T) {
	t.Run("preference failed re-verification after state sync", func(t *testing.T) {
		r := require.New(t)
		ctx := context.Background()

		genesis := &TestBlock{}
		chain := &c20hChainD2{TestChain: NewTestChain(t, r, genesis)}
		vm := newC20hVMD2(t, chain, 2, nil)
		r.NoError(vm.StartStateSync(ctx, genesis))

		invalid := NewTestBlockFromParent(genesis)
		invalid.Invalid = true
		blk, err := vm.VM.ParseBlock(ctx, invalid.GetBytes())
		r.NoError(err)
		r.NoError(blk.Verify(ctx)) // vacuous, VM not ready
		r.NoError(vm.SetPreference(ctx, blk.ID()))

		genesis.outputPopulated = true
		genesis.acceptedPopulated = true
		r.NoError(vm.FinishStateSync(ctx, genesis, genesis, genesis))
		r.True(vm.ready)
		r.False(blk.verified)

		built, err := vm.VM.BuildBlock(ctx)
		r.Zero(chain.buildNilParent, "Chain.BuildBlock was called with a nil parent Output (built=%v err=%v)", built, err)
		r.Error(err)
	})

	t.Run("build while the VM is not ready", func(t *testing.T) {
		r := require.New(t)
		ctx := context.Background()

		genesis := &TestBlock{}
		chain := &c20hChainD2{TestChain: NewTestChain(t, r, genesis)}
		vm := newC20hVMD2(t, chain, 2, nil)
		r.NoError(vm.StartStateSync(ctx, genesis))

		built, err := vm.VM.BuildBlock(ctx)
		r.Zero(chain.buildNilParent, "Chain.BuildBlock was called with a nil parent Output (built=%v err=%v)", built, err)
		r.Error(err)
	})
}
