// Copyright (C) 2024, Ava Labs, Inc. All rights reserved.
// See the file LICENSE for licensing terms.

package snow

import (
	"context"
	"encoding/json"
	"sync"
	"testing"

	"github.com/ava-labs/avalanchego/ids"
	"github.com/ava-labs/avalanchego/snow/engine/common"
	"github.com/ava-labs/avalanchego/snow/engine/enginetest"
	"github.com/ava-labs/avalanchego/snow/engine/snowman/block"
	"github.com/ava-labs/avalanchego/snow/snowtest"
	"github.com/stretchr/testify/require"
)

// c20hChainD1 wraps the package's TestChain and records the arguments the snow
// wrapper hands to the chain callbacks instead of dereferencing them blindly.
type c20hChainD1 struct {
	*TestChain

	// acceptGate, if non-nil, is received from before each AcceptBlock call returns.
	acceptGate chan struct{}

	l               sync.Mutex
	acceptNilParent []uint64 // heights accepted with a nil accepted parent
	acceptBadParent []uint64 // heights accepted with an accepted parent that is not the block's parent
	buildNilParent  int
}

func (c *c20hChainD1) AcceptBlock(ctx context.Context, acceptedParent *TestBlock, verifiedBlock *TestBlock) (*TestBlock, error) {
	if c.acceptGate != nil {
		<-c.acceptGate
	}
	c.l.Lock()
	defer c.l.Unlock()
	switch {
	case acceptedParent == nil:
		c.acceptNilParent = append(c.acceptNilParent, verifiedBlock.GetHeight())
	case acceptedParent.GetID() != verifiedBlock.GetParent() || !acceptedParent.acceptedPopulated:
		c.acceptBadParent = append(c.acceptBadParent, verifiedBlock.GetHeight())
	}
	verifiedBlock.acceptedPopulated = true
	return verifiedBlock, nil
}

func (c *c20hChainD1) BuildBlock(ctx context.Context, blkContext *block.Context, parent *TestBlock) (*TestBlock, *TestBlock, error) {
	if parent == nil {
		c.l.Lock()
		c.buildNilParent++
		c.l.Unlock()
		return nil, nil, context.Canceled
	}
	return c.TestChain.BuildBlock(ctx, blkContext, parent)
}

func newC20hVMD1(t *testing.T, chain Chain[*TestBlock, *TestBlock, *TestBlock], acceptedWindow int, pre func(vm *SnowVM[*TestBlock, *TestBlock, *TestBlock])) *SnowVM[*TestBlock, *TestBlock, *TestBlock] {
	r := require.New(t)
	ctx := context.Background()
	vm := NewSnowVM[*TestBlock, *TestBlock, *TestBlock](testVersion, chain)
	if pre != nil {
		pre(vm)
	}
	snowCtx := snowtest.Context(t, ids.GenerateTestID())
	snowCtx.ChainDataDir = t.TempDir()
	config := map[string]interface{}{
		SnowVMConfigKey: VMConfig{
			ParsedBlockCacheSize:     2,
			AcceptedBlockWindowCache: acceptedWindow,
		},
	}
	configBytes, err := json.Marshal(config)
	r.NoError(err)
	toEngine := make(chan common.Message, 1)
	r.NoError(vm.Initialize(ctx, snowCtx, nil, nil, nil, configBytes, toEngine, nil, &enginetest.Sender{T: t}))
	t.Cleanup(func() {
		r.NoError(vm.Shutdown(ctx))
	})
	return vm
}

// The engine calls Accept (not SyncAccept). Accept only queues the block for the async accepter
// and advances the accepted-block cache on the consensus thread. processAccept later looks its
// parent up by ID through that bounded cache; if consensus has accepted more blocks than the
// window holds before the accepter catches up, the parent comes back from disk as an input-only
// wrapper and Chain.AcceptBlock is handed a zero-value accepted parent.
func TestC20hAsyncAcceptParentEvictedFromWindow(t *testing.T) {
	for _, tc := range []struct {
		name   string
		window int
		blocks int
	}{
		{name: "window=2, 3 blocks", window: 2, blocks: 3},
		{name: "window=8, 10 blocks", window: 8, blocks: 10},
	} {
		t.Run(tc.name, func(t *testing.T) {
			r := require.New(t)
			ctx := context.Background()

			genesis := &TestBlock{outputPopulated: true, acceptedPopulated: true}
			chain := &c20hChainD1{
				TestChain:  NewTestChain(t, r, genesis),
				acceptGate: make(chan struct{}),
			}
			vm := newC20hVMD1(t, chain, tc.window, nil)

			// Build a simple chain genesis <- 1 <- 2 <- ... and verify each block, like the engine does.
			blks := make([]*StatefulBlock[*TestBlock, *TestBlock, *TestBlock], 0, tc.blocks)
			for i := 0; i < tc.blocks; i++ {
				blk, err := vm.VM.BuildBlock(ctx)
				r.NoError(err)
				r.NoError(blk.Verify(ctx))
				r.NoError(vm.SetPreference(ctx, blk.ID()))
				blks = append(blks, blk)
			}

			// Consensus accepts the whole chain while the accepter is still busy with the first block.
			for _, blk := range blks {
				r.NoError(blk.Accept(ctx))
			}
			// Now let the accepter run.
			close(chain.acceptGate)
			vm.acceptedQueueBlocksProcessedWg.Wait()

			chain.l.Lock()
			defer chain.l.Unlock()
			r.Empty(chain.acceptNilParent, "Chain.AcceptBlock was called with a nil accepted parent for blocks at these heights")
			r.Empty(chain.acceptBadParent, "Chain.AcceptBlock was called with a wrong/unaccepted parent for blocks at these heights")
		})
	}
}
