// Copyright (C) 2024, Ava Labs, Inc. All rights reserved.
// See the file LICENSE for licensing terms.

package snow

import (
	"context"
	"encoding/json"
	"sync"
	"testing"
	"time"

	"github.com/ava-labs/avalanchego/database"
	"github.com/ava-labs/avalanchego/database/memdb"
	"github.com/ava-labs/avalanchego/ids"
	"github.com/ava-labs/avalanchego/snow/engine/common"
	"github.com/ava-labs/avalanchego/snow/engine/enginetest"
	"github.com/ava-labs/avalanchego/snow/engine/snowman/block"
	"github.com/ava-labs/avalanchego/snow/snowtest"
	"github.com/prometheus/client_golang/prometheus"
	"github.com/stretchr/testify/require"

	"github.com/ava-labs/hypersdk/chainindex"
	"github.com/ava-labs/hypersdk/event"
)

// crashDisk is everything that survives a crash of the node: the block index database and the
// "state", reduced to the last block whose AcceptBlock (state commit) completed.
type crashDisk struct {
	indexDB database.Database

	l         sync.Mutex
	committed []byte // bytes of the last committed block
}

func (d *crashDisk) commit(blk *TestBlock) {
	d.l.Lock()
	defer d.l.Unlock()
	d.committed = blk.GetBytes()
}

func (d *crashDisk) lastCommitted() *TestBlock {
	d.l.Lock()
	defer d.l.Unlock()
	blk, err := NewTestBlockFromBytes(d.committed)
	if err != nil {
		panic(err)
	}
	blk.outputPopulated = true
	blk.acceptedPopulated = true
	return blk
}

// crashChain is a snow.Chain whose Initialize behaves like vm.VM.Initialize is meant to: it opens the
// persistent block index and returns the block matching the committed state as last output/accepted
// block, leaving it to the snow package to re-process the blocks the index is ahead by.
type crashChain struct {
	disk *crashDisk
}

func (c *crashChain) Initialize(
	ctx context.Context,
	chainInput ChainInput,
	_ *VM[*TestBlock, *TestBlock, *TestBlock],
) (ChainIndex[*TestBlock], *TestBlock, *TestBlock, bool, error) {
	chainIndex, err := chainindex.New[*TestBlock](ctx, chainInput.SnowCtx.Log, prometheus.NewRegistry(), chainindex.NewDefaultConfig(), c, c.disk.indexDB)
	if err != nil {
		return nil, nil, nil, false, err
	}
	if _, err := chainIndex.GetLastAcceptedHeight(ctx); err == database.ErrNotFound {
		genesis := &TestBlock{outputPopulated: true, acceptedPopulated: true}
		c.disk.commit(genesis)
		if err := chainIndex.UpdateLastAccepted(ctx, genesis); err != nil {
			return nil, nil, nil, false, err
		}
	}
	last := c.disk.lastCommitted()
	return chainIndex, last, last, true, nil
}

func (*crashChain) SetConsensusIndex(*ConsensusIndex[*TestBlock, *TestBlock, *TestBlock]) {}

func (*crashChain) BuildBlock(_ context.Context, blkContext *block.Context, parent *TestBlock) (*TestBlock, *TestBlock, error) {
	blk := NewTestBlockFromParentWithContext(parent, blkContext)
	blk.outputPopulated = true
	return blk, blk, nil
}

func (*crashChain) ParseBlock(_ context.Context, bytes []byte) (*TestBlock, error) {
	return NewTestBlockFromBytes(bytes)
}

func (*crashChain) VerifyBlock(_ context.Context, _ *TestBlock, blk *TestBlock) (*TestBlock, error) {
	blk.outputPopulated = true
	return blk, nil
}

// AcceptBlock commits the state of the block (cf. vm.VM.AcceptBlock -> View.CommitToDB).
func (c *crashChain) AcceptBlock(_ context.Context, _ *TestBlock, blk *TestBlock) (*TestBlock, error) {
	c.disk.commit(blk)
	blk.acceptedPopulated = true
	return blk, nil
}

// acceptedLog is the accepted-block subscriber. It stands for a consumer outside of the VM's databases
// (indexer, external subscriber, websocket server): what it has seen is what was delivered to it.
type acceptedLog struct {
	l       sync.Mutex
	heights []uint64

	// the process "dies" when the notification of crashAt is about to be delivered
	crashAt uint64
	reached chan struct{}
}

func (a *acceptedLog) sub() event.Subscription[*TestBlock] {
	return event.SubscriptionFunc[*TestBlock]{
		NotifyF: func(_ context.Context, blk *TestBlock) error {
			a.l.Lock()
			if a.crashAt != 0 && blk.GetHeight() == a.crashAt {
				a.crashAt = 0 // the restarted node does not crash again
				a.l.Unlock()
				close(a.reached)
				select {} // crash point: state committed, subscribers not notified yet
			}
			a.heights = append(a.heights, blk.GetHeight())
			a.l.Unlock()
			return nil
		},
	}
}

func (a *acceptedLog) seen() []uint64 {
	a.l.Lock()
	defer a.l.Unlock()
	return append([]uint64(nil), a.heights...)
}

func startCrashVM(t *testing.T, disk *crashDisk, log *acceptedLog) *VM[*TestBlock, *TestBlock, *TestBlock] {
	r := require.New(t)
	vm := NewVM[*TestBlock, *TestBlock, *TestBlock](testVersion, &crashChain{disk: disk})
	vm.AddAcceptedSub(log.sub())

	snowCtx := snowtest.Context(t, ids.GenerateTestID())
	snowCtx.ChainDataDir = t.TempDir()
	configBytes, err := json.Marshal(map[string]interface{}{
		SnowVMConfigKey: VMConfig{ParsedBlockCacheSize: 2, AcceptedBlockWindowCache: 2},
	})
	r.NoError(err)
	r.NoError(vm.Initialize(context.Background(), snowCtx, nil, nil, nil, configBytes, make(chan common.Message, 1), nil, &enginetest.Sender{T: t}))
	return vm
}

func buildVerify(t *testing.T, vm *VM[*TestBlock, *TestBlock, *TestBlock]) *StatefulBlock[*TestBlock, *TestBlock, *TestBlock] {
	r := require.New(t)
	ctx := context.Background()
	blk, err := vm.BuildBlock(ctx)
	r.NoError(err)
	r.NoError(blk.Verify(ctx))
	r.NoError(vm.SetPreference(ctx, blk.ID()))
	return blk
}

// runCrashAfterCommitBeforeNotify accepts blocks 1..crashHeight, kills the node right after the state
// commit of block crashHeight and before its delivery to the accepted subscribers, with [queued]
// further accepted blocks waiting in the accepted queue, restarts the node on the same disk and returns
// what the subscriber saw across the restart.
func runCrashAfterCommitBeforeNotify(t *testing.T, crashHeight uint64, queued int) (delivered []uint64, lastAccepted uint64) {
	r := require.New(t)
	ctx := context.Background()

	disk := &crashDisk{indexDB: memdb.New()}
	log := &acceptedLog{crashAt: crashHeight, reached: make(chan struct{})}

	vm1 := startCrashVM(t, disk, log)
	for h := uint64(1); h < crashHeight; h++ {
		r.NoError(buildVerify(t, vm1).SyncAccept(ctx))
	}
	r.NoError(buildVerify(t, vm1).Accept(ctx))
	select {
	case <-log.reached:
	case <-time.After(10 * time.Second):
		r.FailNow("crash point not reached")
	}
	r.Equal(crashHeight, disk.lastCommitted().GetHeight(), "state of the crash block is committed")

	// Consensus keeps accepting: the index is updated and the blocks are queued behind the crash block.
	for i := 0; i < queued; i++ {
		r.NoError(buildVerify(t, vm1).Accept(ctx))
	}
	// vm1 is dead from here on (no Shutdown, its accepter is stopped at the crash point).

	vm2 := startCrashVM(t, disk, log)
	t.Cleanup(func() { _ = vm2.Shutdown(ctx) })

	lastAcceptedBlk, err := vm2.GetConsensusIndex().GetLastAccepted(ctx)
	r.NoError(err)
	r.Equal(lastAcceptedBlk.GetHeight(), disk.lastCommitted().GetHeight(), "restart caught the state up with the index")
	return log.seen(), lastAcceptedBlk.GetHeight()
}

func requireEveryHeightDeliveredInOrder(t *testing.T, delivered []uint64, tip uint64) {
	r := require.New(t)
	t.Logf("accepted subscriber saw heights %v (tip %d)", delivered, tip)
	seen := make(map[uint64]bool)
	for i, h := range delivered {
		seen[h] = true
		if i > 0 {
			r.GreaterOrEqual(h, delivered[i-1], "delivery out of height order: %v", delivered)
		}
	}
	for h := uint64(1); h <= tip; h++ {
		r.True(seen[h], "accepted block %d was never delivered to the accepted subscriber across the restart (delivered: %v)", h, delivered)
	}
}

// Control: crash after commit / before notification with an empty queue. The restarted VM re-notifies
// its last accepted block, so the subscriber sees every block.
func TestVerifCrashBeforeNotifyEmptyQueue(t *testing.T) {
	delivered, tip := runCrashAfterCommitBeforeNotify(t, 2, 0)
	require.Equal(t, uint64(2), tip)
	requireEveryHeightDeliveredInOrder(t, delivered, tip)
}

// Same crash point, but one more accepted block is already queued (index = state + 1).
// The restart re-processes (and notifies) block 3 only: block 2 is committed, so it is the starting
// point of the re-processing, and nobody ever delivers it.
func TestVerifCrashBeforeNotifyWithQueuedBlock(t *testing.T) {
	delivered, tip := runCrashAfterCommitBeforeNotify(t, 2, 1)
	require.Equal(t, uint64(3), tip)
	requireEveryHeightDeliveredInOrder(t, delivered, tip)
}

// Same with several queued blocks.
func TestVerifCrashBeforeNotifyWithQueuedBlocks(t *testing.T) {
	delivered, tip := runCrashAfterCommitBeforeNotify(t, 3, 5)
	require.Equal(t, uint64(8), tip)
	requireEveryHeightDeliveredInOrder(t, delivered, tip)
}
