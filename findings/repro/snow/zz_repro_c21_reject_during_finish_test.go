// Copyright (C) 2024, Ava Labs, Inc. All rights reserved.
// See the file LICENSE for licensing terms.

package snow

import (
	"context"
	"encoding/json"
	"testing"
	"time"

	"github.com/ava-labs/avalanchego/ids"
	"github.com/ava-labs/avalanchego/snow/engine/common"
	"github.com/ava-labs/avalanchego/snow/engine/enginetest"
	"github.com/ava-labs/avalanchego/snow/snowtest"
	"github.com/stretchr/testify/require"
)

// c21HookChain is the regular TestChain, except that VerifyBlock of one chosen
// block reports that it has been entered and then waits until it is released.
// This only serves to pin down the schedule: the engine thread rejects a
// processing block while FinishStateSync is in the middle of verifyProcessingBlocks.
type c21HookChain struct {
	*TestChain
	hookID  ids.ID
	entered chan struct{}
	release chan struct{}
}

func (c *c21HookChain) VerifyBlock(ctx context.Context, parent *TestBlock, blk *TestBlock) (*TestBlock, error) {
	if blk.GetID() == c.hookID {
		close(c.entered)
		<-c.release
	}
	return c.TestChain.VerifyBlock(ctx, parent, blk)
}

// History (all calls are legal for the consensus engine / state syncer):
//
//	StartStateSync(G)
//	Verify(A), Verify(S), Verify(C)      A,S children of G; C child of A     (vacuous, VM not ready)
//	Accept(A)                            engine thread, during sync
//	FinishStateSync(A)                   state sync thread: takes chainLock, snapshots {S, C},
//	                                     marks S as failed (its parent G is not the accepted tip), re-verifies C ...
//	Reject(S)                            engine thread: the conflict of the accepted A is rejected (does not need chainLock)
//	... FinishStateSync registers the pre-reject subscription + the unresolved blocks health check {S}
//
// S has been rejected, no processing block that failed re-verification is left,
// but the VM reports unhealthy forever.
func TestC21RejectDuringFinishStateSyncLeavesVMUnhealthy(t *testing.T) {
	r := require.New(t)
	ctx := context.Background()

	chain := &c21HookChain{
		TestChain: NewTestChain(t, r, &TestBlock{}),
		entered:   make(chan struct{}),
		release:   make(chan struct{}),
	}
	vm := NewVM[*TestBlock, *TestBlock, *TestBlock](testVersion, chain)
	snowCtx := snowtest.Context(t, ids.GenerateTestID())
	snowCtx.ChainDataDir = t.TempDir()
	configBytes, err := json.Marshal(map[string]interface{}{
		SnowVMConfigKey: VMConfig{ParsedBlockCacheSize: 16, AcceptedBlockWindowCache: 16},
	})
	r.NoError(err)
	toEngine := make(chan common.Message, 1)
	r.NoError(vm.Initialize(ctx, snowCtx, nil, nil, nil, configBytes, toEngine, nil, &enginetest.Sender{T: t}))
	t.Cleanup(func() { r.NoError(vm.Shutdown(ctx)) })

	genesis := vm.LastAcceptedBlock(ctx)
	r.NoError(vm.StartStateSync(ctx, genesis.Input))

	parseAndVerify := func(tb *TestBlock) *StatefulBlock[*TestBlock, *TestBlock, *TestBlock] {
		blk, err := vm.ParseBlock(ctx, tb.GetBytes())
		r.NoError(err)
		r.NoError(blk.Verify(ctx)) // vacuous: VM is not ready
		return blk
	}
	blkA := parseAndVerify(NewTestBlockFromParent(genesis.Input))
	blkS := parseAndVerify(NewTestBlockFromParent(genesis.Input))
	blkC := parseAndVerify(NewTestBlockFromParent(blkA.Input))
	chain.hookID = blkC.ID()

	// Consensus accepts A while state sync is still running ...
	r.NoError(blkA.Accept(ctx))

	// ... state sync finishes on A (== tip) on its own goroutine ...
	finishErr := make(chan error, 1)
	go func() {
		in := blkA.Input
		in.outputPopulated = true
		in.acceptedPopulated = true
		finishErr <- vm.FinishStateSync(ctx, in, in, in)
	}()
	select {
	case <-chain.entered:
	case <-time.After(10 * time.Second):
		r.FailNow("FinishStateSync never re-verified block C")
	}

	// ... and the engine now rejects S, the conflict of the accepted block A.
	r.NoError(blkS.Reject(ctx))

	close(chain.release)
	r.NoError(<-finishErr)

	// Sanity: handover itself is fine.
	r.True(blkC.verified)
	lastAccepted, err := vm.GetConsensusIndex().GetLastAccepted(ctx)
	r.NoError(err)
	r.Equal(blkA.ID(), lastAccepted.GetID())

	// The only still-processing block (C) passed re-verification and the only block that
	// failed re-verification (S) has been rejected -> the VM must be healthy.
	vm.verifiedL.RLock()
	_, sStillProcessing := vm.verifiedBlocks[blkS.ID()]
	numProcessing := len(vm.verifiedBlocks)
	vm.verifiedL.RUnlock()
	r.False(sStillProcessing)
	r.Equal(1, numProcessing)

	details, err := vm.HealthCheck(ctx)
	r.NoError(err, "all blocks that failed re-verification were rejected, details = %v", details)
}
