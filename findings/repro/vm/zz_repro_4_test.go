// Throw-away reproduction test (R4): restart with chain index ahead of state.

package vm_test

import (
	"context"
	"encoding/json"
	"fmt"
	"os"
	"path/filepath"
	"runtime/debug"
	"strings"
	"testing"

	"github.com/ava-labs/avalanchego/ids"
	"github.com/ava-labs/avalanchego/snow/engine/common"
	"github.com/ava-labs/avalanchego/snow/engine/enginetest"
	"github.com/ava-labs/avalanchego/snow/snowtest"
	"github.com/ava-labs/avalanchego/utils/hashing"
	"github.com/ava-labs/avalanchego/utils/logging"
	"github.com/ava-labs/avalanchego/x/merkledb"
	"github.com/stretchr/testify/require"

	"github.com/ava-labs/hypersdk/chain"
	"github.com/ava-labs/hypersdk/genesis"
	"github.com/ava-labs/hypersdk/snow"
	"github.com/ava-labs/hypersdk/vm"

	avasnow "github.com/ava-labs/avalanchego/snow"
)

type zzVM struct {
	snowVM *snow.VM[*chain.ExecutionBlock, *chain.OutputBlock, *chain.OutputBlock]
	vm     *vm.VM
}

// zzInitVM creates a brand new VM object and initializes it on [dir]. Returns the init error (or recovered panic).
func zzInitVM(ctx context.Context, t *testing.T, dir string, genesisBytes []byte) (res *zzVM, err error) {
	r := require.New(t)
	factory := NewTestVMFactory(r)
	innerVM, ferr := factory.New()
	r.NoError(ferr)
	snowVM := snow.NewVM("v0.0.1", innerVM)

	chainID := hashing.ComputeHash256Array(genesisBytes)
	snowCtx := snowtest.Context(t, chainID)
	snowCtx.Log = logging.NewLogger("zzrepro")
	snowCtx.ChainDataDir = dir
	snowCtx.NodeID = ids.GenerateTestNodeID()
	toEngine := make(chan common.Message, 1)
	appSender := &enginetest.Sender{T: t}
	appSender.Default(false)
	appSender.SendAppGossipF = func(context.Context, common.SendConfig, []byte) error { return nil }

	defer func() {
		if p := recover(); p != nil {
			err = fmt.Errorf("PANIC during Initialize: %v\n%s", p, zzTrimStack(debug.Stack()))
		}
	}()
	if ierr := snowVM.Initialize(ctx, snowCtx, nil, genesisBytes, nil, nil, toEngine, nil, appSender); ierr != nil {
		return nil, ierr
	}
	return &zzVM{snowVM: snowVM, vm: innerVM}, nil
}

// zzTrimStack keeps only hypersdk frames of the stack
func zzTrimStack(b []byte) string {
	lines := strings.Split(string(b), "\n")
	out := []string{}
	for i := 0; i+1 < len(lines); i++ {
		if strings.Contains(lines[i], "hypersdk/") && !strings.HasPrefix(lines[i], "\t") {
			out = append(out, lines[i], lines[i+1])
		}
	}
	return strings.Join(out, "\n")
}

func zzCopyDir(t *testing.T, src, dst string) {
	require.NoError(t, filepath.Walk(src, func(path string, info os.FileInfo, err error) error {
		if err != nil {
			return err
		}
		rel, err := filepath.Rel(src, path)
		if err != nil {
			return err
		}
		target := filepath.Join(dst, rel)
		if info.IsDir() {
			return os.MkdirAll(target, 0o755)
		}
		b, err := os.ReadFile(path)
		if err != nil {
			return err
		}
		return os.WriteFile(target, b, info.Mode())
	}))
}

func zzGenesis(t *testing.T) []byte {
	testRules := genesis.NewDefaultRules()
	testRules.MinBlockGap = 0
	testRules.MinEmptyBlockGap = 0
	testGenesis := &genesis.DefaultGenesis{
		StateBranchFactor: merkledb.BranchFactor16,
		Rules:             testRules,
	}
	genesisBytes, err := json.Marshal(testGenesis)
	require.NoError(t, err)
	return genesisBytes
}

// Produces the on-disk layout that a crash leaves behind when [lag] accepted blocks are still sitting in the
// snow accepted queue: StatefulBlock.Accept has already synchronously called chainIndex.UpdateLastAccepted
// (blockdb is at height indexHeight) but processAccept -> vm.AcceptBlock -> View.CommitToDB (statedb + results)
// only ran up to height indexHeight-lag.
func zzRunRestart(t *testing.T, indexHeight int, lag int) error {
	ctx := context.Background()
	r := require.New(t)
	genesisBytes := zzGenesis(t)

	dirA := t.TempDir() // node whose chain index reached indexHeight
	dirB := t.TempDir() // node whose state only reached indexHeight-lag
	a, err := zzInitVM(ctx, t, dirA, genesisBytes)
	r.NoError(err)
	b, err := zzInitVM(ctx, t, dirB, genesisBytes)
	r.NoError(err)
	r.NoError(a.snowVM.SetState(ctx, avasnow.NormalOp))
	r.NoError(b.snowVM.SetState(ctx, avasnow.NormalOp))

	for h := 1; h <= indexHeight; h++ {
		blk, err := a.snowVM.BuildBlock(ctx)
		r.NoError(err)
		r.NoError(blk.Verify(ctx))
		r.NoError(a.snowVM.SetPreference(ctx, blk.ID()))
		r.NoError(blk.SyncAccept(ctx))
		r.Equal(uint64(h), blk.Height())

		if h <= indexHeight-lag {
			pblk, err := b.snowVM.ParseBlock(ctx, blk.Bytes())
			r.NoError(err)
			r.NoError(pblk.Verify(ctx))
			r.NoError(b.snowVM.SetPreference(ctx, pblk.ID()))
			r.NoError(pblk.SyncAccept(ctx))
		}
	}
	r.NoError(a.snowVM.Shutdown(ctx))
	r.NoError(b.snowVM.Shutdown(ctx))

	// Compose crash image: blockdb (chain index) from A, statedb + results from B.
	dirC := t.TempDir()
	zzCopyDir(t, filepath.Join(dirA, "blockdb"), filepath.Join(dirC, "blockdb"))
	zzCopyDir(t, filepath.Join(dirB, "statedb"), filepath.Join(dirC, "statedb"))
	zzCopyDir(t, filepath.Join(dirB, "results"), filepath.Join(dirC, "results"))

	c, err := zzInitVM(ctx, t, dirC, genesisBytes)
	if err == nil {
		la, lerr := c.snowVM.LastAccepted(ctx)
		r.NoError(lerr)
		blk, gerr := c.snowVM.GetBlock(ctx, la)
		r.NoError(gerr)
		t.Logf("indexHeight=%d stateHeight=%d (lag=%d): restart OK, last accepted height=%d", indexHeight, indexHeight-lag, lag, blk.Height())
		r.NoError(c.snowVM.Shutdown(ctx))
		return nil
	}
	t.Logf("indexHeight=%d stateHeight=%d (lag=%d): restart FAILED: %v", indexHeight, indexHeight-lag, lag, err)
	return err
}

func TestZZRepro4RestartLag0(t *testing.T) {
	require.NoError(t, zzRunRestart(t, 3, 0))
}

func TestZZRepro4RestartLag1(t *testing.T) {
	err := zzRunRestart(t, 3, 1)
	t.Logf("lag=1 result: %v", err)
}

func TestZZRepro4RestartLag2(t *testing.T) {
	err := zzRunRestart(t, 3, 2)
	t.Logf("lag=2 result: %v", err)
	require.Error(t, err)
}
