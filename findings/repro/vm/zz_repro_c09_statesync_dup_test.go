// Copyright (C) 2024, Ava Labs, Inc. All rights reserved.
// See the file LICENSE for licensing terms.

package vm_test

import (
	"context"
	"encoding/json"
	"testing"
	"time"

	"github.com/ava-labs/avalanchego/snow/engine/snowman/block"
	"github.com/stretchr/testify/require"

	"github.com/ava-labs/hypersdk/chain"
	"github.com/ava-labs/hypersdk/chain/chaintest"
	"github.com/ava-labs/hypersdk/vm"

	avasnow "github.com/ava-labs/avalanchego/snow"
)

// A block that is still processing when dynamic state sync finishes is verified
// by snow.VM.FinishStateSync -> verifyProcessingBlocks -> vm.VerifyBlock BEFORE
// vm.startNormalOp flips vm.normalOp to true (vm/statesync.go onFinish calls
// FinishStateSync first and startNormalOp afterwards). chain.Processor.Execute
// therefore runs with isNormalOp=false and skips VerifyExpiryReplayProtection, so
// a processing block that repeats a transaction of its accepted parent is marked
// verified (the node will vote for it and build on it), although the validity
// window of the node is complete and already contains that transaction.
func TestC09hProcessingBlockRepeatingTxVerifiedAtStateSyncFinish(t *testing.T) {
	ctx := context.Background()
	r := require.New(t)
	network := NewVMTestNetwork(ctx, t, 1)

	initialVM := network.VMs[0]

	// Build a few blocks, the last one contains tx0.
	numBlocks := 5
	var tx0 *chain.Transaction
	network.ConfirmBlocks(ctx, numBlocks, func(i int) []*chain.Transaction {
		action := chaintest.NewDummyTestAction()
		action.Nonce = uint64(i)
		tx, err := network.GenerateTx(ctx, []chain.Action{action}, network.AuthFactories()[0])
		r.NoError(err)
		tx0 = tx
		return []*chain.Transaction{tx}
	})

	// dupBlk is a child of the last accepted block (which contains tx0) that
	// includes tx0 again. It is otherwise well-formed (height, timestamp, root).
	parentBlk, err := initialVM.SnowVM.GetConsensusIndex().GetLastAccepted(ctx)
	r.NoError(err)
	r.True(parentBlk.Contains(tx0.GetID()))
	parentRoot, err := parentBlk.View.GetMerkleRoot(ctx)
	r.NoError(err)
	dupBlk, err := chain.NewStatelessBlock(
		parentBlk.GetID(),
		max(time.Now().UnixMilli(), parentBlk.Tmstmp),
		parentBlk.Hght+1,
		[]*chain.Transaction{tx0},
		parentRoot,
		nil,
	)
	r.NoError(err)

	// Control: a node in normal operation rejects this block as a duplicate.
	r.NoError(initialVM.SnowVM.SetState(ctx, avasnow.NormalOp))
	initialVM.ParseAndVerifyInvalidBlk(ctx, dupBlk.GetBytes(), chain.ErrDuplicateTx)

	// Add a node that state syncs to the last accepted block.
	config := map[string]any{
		vm.StateSyncNamespace: map[string]any{
			"minBlocks": uint64(numBlocks - 1),
		},
	}
	configBytes, err := json.Marshal(config)
	r.NoError(err)
	syncVM := network.AddVM(ctx, configBytes)

	stateSummary, err := initialVM.SnowVM.GetLastStateSummary(ctx)
	r.NoError(err)
	r.Equal(parentBlk.GetHeight(), stateSummary.Height())
	parsedStateSummary, err := syncVM.SnowVM.ParseStateSummary(ctx, stateSummary.Bytes())
	r.NoError(err)

	stateSyncMode, err := parsedStateSummary.Accept(ctx)
	r.NoError(err)
	r.Equal(block.StateSyncDynamic, stateSyncMode)

	// Consensus hands dupBlk to the syncing node: it is vacuously verified and stays
	// processing (it is never accepted: honest peers reject it).
	blk := syncVM.ParseAndSetPreference(ctx, dupBlk.GetBytes())

	// Sanity: state sync is still running at this point (the validity window syncer
	// needs two round trips with a 500ms pause in between to reach genesis), so the
	// block above was vacuously verified and not executed.
	notDoneCtx, notDoneCancel := context.WithTimeout(ctx, time.Millisecond)
	r.Error(syncVM.VM.SyncClient.Wait(notDoneCtx), "inconclusive: state sync finished before the block was issued")
	notDoneCancel()
	r.Nil(blk.Output, "inconclusive: block was executed instead of vacuously verified")

	awaitSyncCtx, cancel := context.WithTimeout(ctx, 30*time.Second)
	defer cancel()
	r.NoError(syncVM.VM.SyncClient.Wait(awaitSyncCtx))

	// State sync is finished, the node is ready and in normal operation.
	lastAccepted, err := syncVM.SnowVM.GetConsensusIndex().GetLastAccepted(ctx)
	r.NoError(err)
	r.Equal(parentBlk.GetID(), lastAccepted.GetID())

	// Control: the validity window of the synced node is complete and knows tx0. A sibling
	// of dupBlk (same parent, same tx, later timestamp) issued now is rejected as duplicate.
	dupBlk2, err := chain.NewStatelessBlock(
		parentBlk.GetID(),
		dupBlk.Tmstmp+1,
		parentBlk.Hght+1,
		[]*chain.Transaction{tx0},
		parentRoot,
		nil,
	)
	r.NoError(err)
	syncVM.ParseAndVerifyInvalidBlk(ctx, dupBlk2.GetBytes(), chain.ErrDuplicateTx)

	// The processing block repeating tx0 must not have been marked as verified.
	// (GetPreferredBlock fails iff the preferred block has not been verified.)
	preferred, err := syncVM.SnowVM.GetConsensusIndex().GetPreferredBlock(ctx)
	if err == nil {
		r.Equal(blk.ID(), preferred.GetID())
		r.True(preferred.Contains(tx0.GetID()))
		r.True(lastAccepted.Contains(tx0.GetID()))
		r.FailNow("block repeating a transaction of its accepted parent was verified when state sync finished",
			"tx %s is in accepted block %s (height %d) and in verified processing block %s (height %d)",
			tx0.GetID(), lastAccepted.GetID(), lastAccepted.GetHeight(), preferred.GetID(), preferred.GetHeight())
	}
}
