// Copyright (C) 2024, Ava Labs, Inc. All rights reserved.
// See the file LICENSE for licensing terms.

package vm_test

import (
	"context"
	"testing"

	"github.com/stretchr/testify/require"

	"github.com/ava-labs/hypersdk/api/jsonrpc"
	"github.com/ava-labs/hypersdk/chain"
	"github.com/ava-labs/hypersdk/chain/chaintest"
	"github.com/ava-labs/hypersdk/keys"
	"github.com/ava-labs/hypersdk/state"
	"github.com/ava-labs/hypersdk/state/balance"
	"github.com/ava-labs/hypersdk/vm/vmtest"

	avasnow "github.com/ava-labs/avalanchego/snow"
)

// C30 / defect 1: JSONRPCServer.ExecuteActions builds the scope of every
// action from that action's own StateKeys only, whereas a transaction executes
// all of its actions under the UNION of the keys of all actions plus the
// sponsor keys (chain.Transaction.StateKeys). An action list that is perfectly
// valid on chain is therefore reported as failing by executeActions
// (simulateActions agrees with the chain).

func c30h1Action(specKeys []string, perms []state.Permissions, reads [][]byte, wk [][]byte, wv [][]byte, nonce uint64) *chaintest.TestAction {
	return &chaintest.TestAction{
		NumComputeUnits:              1,
		SpecifiedStateKeys:           specKeys,
		SpecifiedStateKeyPermissions: perms,
		ReadKeys:                     reads,
		WriteKeys:                    wk,
		WriteValues:                  wv,
		Start:                        -1,
		End:                          -1,
		Nonce:                        nonce,
	}
}

// c30h1Compare runs [actions] through executeActions, simulateActions and a
// real transaction on the same state and requires that all three agree.
func c30h1Compare(ctx context.Context, t *testing.T, network *vmtest.TestNetwork, actions []chain.Action) {
	r := require.New(t)
	cli := jsonrpc.NewJSONRPCClient(network.URIs()[0])
	actor := network.AuthFactories()[0].Address()

	actionBytes := make([][]byte, len(actions))
	for i, a := range actions {
		actionBytes[i] = a.Bytes()
	}

	// Read-only APIs first (they do not modify the state).
	execOutputs, execErr := cli.ExecuteActions(ctx, actor, actionBytes)
	simResults, simErr := cli.SimulateActions(ctx, actions, actor)

	// Same actions, same actor, same state, inside a transaction.
	tx, err := network.GenerateTx(ctx, actions, network.AuthFactories()[0])
	r.NoError(err)
	r.NoError(network.ConfirmTxs(ctx, []*chain.Transaction{tx}))
	lastAccepted, err := network.VMs[0].SnowVM.GetConsensusIndex().GetLastAccepted(ctx)
	r.NoError(err)
	r.Len(lastAccepted.ExecutionResults.Results, 1)
	res := lastAccepted.ExecutionResults.Results[0]
	t.Logf("on-chain: success=%v error=%q outputs=%v", res.Success, res.Error, res.Outputs)
	t.Logf("simulateActions: results=%d err=%v", len(simResults), simErr)
	t.Logf("executeActions: outputs=%v err=%v", execOutputs, execErr)

	r.True(res.Success, "transaction is expected to succeed on chain")
	r.Len(res.Outputs, len(actions))

	r.NoError(simErr, "simulateActions disagrees with on-chain execution")
	r.Len(simResults, len(actions))

	r.NoError(execErr, "executeActions disagrees with on-chain execution")
	r.Len(execOutputs, len(actions))
	for i := range actions {
		r.Equal(len(res.Outputs[i]), len(execOutputs[i]))
	}
}

func TestC30hExecuteActionsPerActionScope(t *testing.T) {
	t.Run("key declared by another action of the same list", func(t *testing.T) {
		ctx := context.Background()
		network := NewVMTestNetwork(ctx, t, 1)
		network.SetState(ctx, avasnow.NormalOp)
		defer network.Shutdown(ctx)

		key := keys.EncodeChunks([]byte{9, 9, 9}, 1)
		c30h1Compare(ctx, t, network, []chain.Action{
			// action 0 declares key (all) and creates it
			c30h1Action([]string{string(key)}, []state.Permissions{state.All}, nil, [][]byte{key}, [][]byte{{1}}, 0),
			// action 1 reads it; the tx-wide key set already covers the key
			c30h1Action(nil, nil, [][]byte{key}, nil, nil, 1),
		})
	})

	t.Run("sponsor balance key", func(t *testing.T) {
		ctx := context.Background()
		network := NewVMTestNetwork(ctx, t, 1)
		network.SetState(ctx, avasnow.NormalOp)
		defer network.Shutdown(ctx)

		actor := network.AuthFactories()[0].Address()
		balanceKey := balance.NewPrefixBalanceHandler([]byte{0}).BalanceKey(actor)
		c30h1Compare(ctx, t, network, []chain.Action{
			// a single action reading the actor's balance: every tx carries
			// SponsorStateKeys (read|write) for that key.
			c30h1Action(nil, nil, [][]byte{balanceKey}, nil, nil, 0),
		})
	})
}
