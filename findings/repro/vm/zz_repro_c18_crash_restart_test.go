// Copyright (C) 2024, Ava Labs, Inc. All rights reserved.
// See the file LICENSE for licensing terms.

package vm_test

import (
	"context"
	"encoding/json"
	"os"
	"os/exec"
	"strconv"
	"testing"

	"github.com/ava-labs/avalanchego/ids"
	"github.com/ava-labs/avalanchego/snow/engine/common"
	"github.com/ava-labs/avalanchego/snow/engine/enginetest"
	"github.com/ava-labs/avalanchego/snow/snowtest"
	"github.com/ava-labs/avalanchego/x/merkledb"
	"github.com/stretchr/testify/require"

	"github.com/ava-labs/hypersdk/chain"
	"github.com/ava-labs/hypersdk/genesis"
	"github.com/ava-labs/hypersdk/snow"

	avasnow "github.com/ava-labs/avalanchego/snow"
)

const (
	verifCrashDirEnv    = "VERIF_CRASH_DIR"
	verifCrashBlocksEnv = "VERIF_CRASH_BLOCKS"
	verifCleanEnv       = "VERIF_CLEAN_SHUTDOWN"
	verifCrashExitCode  = 42
)

type verifSnowVM = snow.VM[*chain.ExecutionBlock, *chain.OutputBlock, *chain.OutputBlock]

// verifGenesisBytes is deterministic, so that the crashing process and the restarted one agree on it.
func verifGenesisBytes(r *require.Assertions) []byte {
	rules := genesis.NewDefaultRules()
	rules.MinBlockGap = 0
	rules.MinEmptyBlockGap = 0
	b, err := json.Marshal(&genesis.DefaultGenesis{StateBranchFactor: merkledb.BranchFactor16, Rules: rules})
	r.NoError(err)
	return b
}

// verifStartVM initializes the default VM (vm.VM wrapped in snow.VM) on the given chain data directory.
func verifStartVM(t *testing.T, chainDataDir string) (*verifSnowVM, error) {
	r := require.New(t)
	v, err := NewTestVMFactory(r).New()
	r.NoError(err)
	snowVM := snow.NewVM("v0.0.1", v)
	snowCtx := snowtest.Context(t, ids.Empty)
	snowCtx.ChainDataDir = chainDataDir
	return snowVM, snowVM.Initialize(
		context.Background(),
		snowCtx,
		nil,
		verifGenesisBytes(r),
		nil,
		nil,
		make(chan common.Message, 16),
		nil,
		&enginetest.Sender{T: t},
	)
}

// TestVerifCrashChild is the node that crashes. It only does something when re-executed by
// TestVerifRestartAfterCrashWhileIdle: it accepts VERIF_CRASH_BLOCKS blocks, waits until every one of them
// is fully processed (state committed, subscribers notified, accepted queue empty) and then exits the
// process without shutting the VM down.
func TestVerifCrashChild(t *testing.T) {
	dir := os.Getenv(verifCrashDirEnv)
	if dir == "" {
		t.Skip("helper process of the TestVerifRestart* tests")
	}
	r := require.New(t)
	ctx := context.Background()
	numBlocks, err := strconv.Atoi(os.Getenv(verifCrashBlocksEnv))
	r.NoError(err)

	snowVM, err := verifStartVM(t, dir)
	r.NoError(err)
	r.NoError(snowVM.SetState(ctx, avasnow.NormalOp))
	for i := 0; i < numBlocks; i++ {
		blk, err := snowVM.BuildBlock(ctx)
		r.NoError(err)
		r.NoError(blk.Verify(ctx))
		r.NoError(snowVM.SetPreference(ctx, blk.ID()))
		r.NoError(blk.SyncAccept(ctx))
	}
	last, err := snowVM.GetConsensusIndex().GetLastAccepted(ctx)
	r.NoError(err)
	r.Equal(uint64(numBlocks), last.Hght)
	if os.Getenv(verifCleanEnv) != "" {
		r.NoError(snowVM.Shutdown(ctx)) // control: clean shutdown
	}
	os.Exit(verifCrashExitCode) // crash: no Shutdown
}

// verifRunNode runs a node in a separate process on [dir], has it accept and fully process [numBlocks]
// blocks and then kills it (crash) or shuts it down first (clean).
func verifRunNode(t *testing.T, dir string, numBlocks int, clean bool) {
	r := require.New(t)
	cmd := exec.Command(os.Args[0], "-test.run=^TestVerifCrashChild$", "-test.count=1")
	cmd.Env = append(os.Environ(), verifCrashDirEnv+"="+dir, verifCrashBlocksEnv+"="+strconv.Itoa(numBlocks))
	if clean {
		cmd.Env = append(cmd.Env, verifCleanEnv+"=1")
	}
	out, err := cmd.CombinedOutput()
	var exitErr *exec.ExitError
	r.ErrorAs(err, &exitErr, "child output:\n%s", out)
	r.Equal(verifCrashExitCode, exitErr.ExitCode(), "the node did not reach its crash point:\n%s", out)
}

// The most benign crash of all: the node dies while idle. Every accepted block is fully processed, the
// accepted queue is empty, block index height == state height == execution results height.
func TestVerifRestartAfterCrashWhileIdle(t *testing.T) {
	for _, numBlocks := range []int{0, 3} {
		t.Run(strconv.Itoa(numBlocks)+"_blocks", func(t *testing.T) {
			r := require.New(t)
			ctx := context.Background()
			dir := t.TempDir()
			verifRunNode(t, dir, numBlocks, false)

			snowVM, err := verifStartVM(t, dir)
			r.NoError(err, "restart after a crash failed")
			defer func() { r.NoError(snowVM.Shutdown(ctx)) }()
			last, err := snowVM.GetConsensusIndex().GetLastAccepted(ctx)
			r.NoError(err)
			r.Equal(uint64(numBlocks), last.Hght)
		})
	}
}

// Control: the same history with a clean shutdown restarts fine.
func TestVerifRestartAfterCleanShutdown(t *testing.T) {
	r := require.New(t)
	ctx := context.Background()
	dir := t.TempDir()
	verifRunNode(t, dir, 3, true)

	snowVM, err := verifStartVM(t, dir)
	r.NoError(err)
	defer func() { r.NoError(snowVM.Shutdown(ctx)) }()
	last, err := snowVM.GetConsensusIndex().GetLastAccepted(ctx)
	r.NoError(err)
	r.Equal(uint64(3), last.Hght)
}
