// Copyright (C) 2024, Ava Labs, Inc. All rights reserved.
// See the file LICENSE for licensing terms.

package vmtest

import (
	"context"
	"encoding/json"
	"errors"
	"testing"
	"time"

	"github.com/ava-labs/avalanchego/ids"
	"github.com/ava-labs/avalanchego/snow/engine/snowman/block"
	"github.com/ava-labs/avalanchego/x/merkledb"
	"github.com/stretchr/testify/require"

	"github.com/ava-labs/hypersdk/auth"
	"github.com/ava-labs/hypersdk/chain"
	"github.com/ava-labs/hypersdk/chain/chaintest"
	"github.com/ava-labs/hypersdk/codec"
	"github.com/ava-labs/hypersdk/crypto/ed25519"
	"github.com/ava-labs/hypersdk/genesis"
	"github.com/ava-labs/hypersdk/state/balance"
	"github.com/ava-labs/hypersdk/state/metadata"
	"github.com/ava-labs/hypersdk/vm"
	"github.com/ava-labs/hypersdk/vm/defaultvm"

	avasnow "github.com/ava-labs/avalanchego/snow"
)

// Same factory as vm_test.NewTestVMFactory
func c21NewTestVMFactory(r *require.Assertions) *vm.Factory {
	var (
		actionParser = codec.NewTypeParser[chain.Action]()
		authParser   = codec.NewTypeParser[chain.Auth]()
		outputParser = codec.NewTypeParser[codec.Typed]()
	)
	r.NoError(errors.Join(
		actionParser.Register(&chaintest.TestAction{}, chaintest.UnmarshalTestAction),
		authParser.Register(&auth.ED25519{}, auth.UnmarshalED25519),
		outputParser.Register(&chaintest.TestOutput{}, chaintest.UnmarshalTestOutput),
	))
	return vm.NewFactory(
		genesis.DefaultGenesisFactory{},
		balance.NewPrefixBalanceHandler([]byte{0}),
		metadata.NewDefaultManager(),
		actionParser,
		authParser,
		outputParser,
		auth.DefaultEngines(),
		append(defaultvm.NewDefaultOptions(), vm.WithManual())...,
	)
}

// A node that finishes dynamic state sync must re-verify the blocks that it vacuously
// verified while syncing exactly like a node that executed the chain would have verified
// them. The hand over (vm/statesync.go onFinish -> snow.FinishStateSync ->
// verifyProcessingBlocks -> vm.VerifyBlock) runs while vm.normalOp is still false, so
// chain.Execute skips VerifyExpiryReplayProtection: a processing block that replays a
// transaction of its accepted parent passes re-verification, is not reported by the
// unresolved blocks health check, becomes a valid preference and can be accepted.
func TestC21StateSyncHandoverSkipsReplayProtectionOfProcessingBlocks(t *testing.T) {
	ctx := context.Background()
	r := require.New(t)

	privKey, err := ed25519.GeneratePrivateKey()
	r.NoError(err)
	authFactory := auth.NewED25519Factory(privKey)
	rules := genesis.NewDefaultRules()
	rules.MinBlockGap = 0
	rules.MinEmptyBlockGap = 0
	genesisBytes, err := json.Marshal(&genesis.DefaultGenesis{
		StateBranchFactor: merkledb.BranchFactor16,
		CustomAllocation: []*genesis.CustomAllocation{{
			Address: authFactory.Address(),
			Balance: 1_000_000_000_000_000,
		}},
		Rules: rules,
	})
	r.NoError(err)

	network := NewTestNetwork(
		ctx, t, c21NewTestVMFactory(r), genesis.DefaultGenesisFactory{}, 1,
		[]chain.AuthFactory{authFactory}, genesisBytes, nil, nil,
	)
	network.SetState(ctx, avasnow.NormalOp)
	defer network.Shutdown(ctx)
	vm0 := network.VMs[0]

	// Accept 5 blocks with one transaction each on the node that executes the chain.
	numBlocks := 5
	var lastTx *chain.Transaction
	network.ConfirmBlocks(ctx, numBlocks, func(i int) []*chain.Transaction {
		action := chaintest.NewDummyTestAction()
		action.Nonce = uint64(i)
		tx, err := network.GenerateTx(ctx, []chain.Action{action}, authFactory)
		r.NoError(err)
		lastTx = tx
		return []*chain.Transaction{tx}
	})

	tip, err := vm0.SnowVM.GetConsensusIndex().GetPreferredBlock(ctx)
	r.NoError(err)
	r.Equal(uint64(numBlocks), tip.GetHeight())
	r.True(tip.Contains(lastTx.GetID()))
	tipRoot, err := tip.View.GetMerkleRoot(ctx)
	r.NoError(err)

	// replayBlk: child of the tip that includes the transaction of the tip once more.
	replayBlk, err := chain.NewStatelessBlock(
		tip.GetID(),
		max(time.Now().UnixMilli(), tip.Tmstmp),
		tip.Hght+1,
		[]*chain.Transaction{lastTx},
		tipRoot,
		nil,
	)
	r.NoError(err)
	// badRootBlk (control): child of the tip with a wrong parent state root.
	badRootBlk, err := chain.NewStatelessBlock(
		tip.GetID(),
		max(time.Now().UnixMilli(), tip.Tmstmp),
		tip.Hght+1,
		nil,
		ids.GenerateTestID(),
		nil,
	)
	r.NoError(err)

	// The node that executed the chain rejects both of them.
	vm0.ParseAndVerifyInvalidBlk(ctx, replayBlk.GetBytes(), chain.ErrDuplicateTx)
	vm0.ParseAndVerifyInvalidBlk(ctx, badRootBlk.GetBytes(), chain.ErrStateRootMismatch)

	// Add a fresh node that state syncs to the tip.
	configBytes, err := json.Marshal(map[string]any{
		vm.StateSyncNamespace: map[string]any{"minBlocks": uint64(numBlocks - 1)},
	})
	r.NoError(err)
	vm1 := network.AddVM(ctx, configBytes)

	stateSummary, err := vm0.SnowVM.GetLastStateSummary(ctx)
	r.NoError(err)
	parsedStateSummary, err := vm1.SnowVM.ParseStateSummary(ctx, stateSummary.Bytes())
	r.NoError(err)

	// Stall the (only) peer so that state sync can not complete before the two blocks are processing.
	// The test network serves every AppRequest to vm0 under vm0's snow context lock.
	vm0.snowCtx.Lock.Lock()
	unlocked := false
	defer func() {
		if !unlocked {
			vm0.snowCtx.Lock.Unlock()
		}
	}()

	stateSyncMode, err := parsedStateSummary.Accept(ctx)
	r.NoError(err)
	r.Equal(block.StateSyncDynamic, stateSyncMode)

	// Both blocks are issued during dynamic state sync: vacuously verified, now processing.
	vm1ReplayBlk, err := vm1.SnowVM.ParseBlock(ctx, replayBlk.GetBytes())
	r.NoError(err)
	r.NoError(vm1ReplayBlk.Verify(ctx))
	vm1BadRootBlk, err := vm1.SnowVM.ParseBlock(ctx, badRootBlk.GetBytes())
	r.NoError(err)
	r.NoError(vm1BadRootBlk.Verify(ctx))
	r.NoError(vm1.SnowVM.SetPreference(ctx, vm1ReplayBlk.ID()))
	_, err = vm1.SnowVM.HealthCheck(ctx)
	r.ErrorContains(err, "vm not ready") // still syncing: the two Verify calls above were vacuous

	// Let state sync finish (target == tip) and hand over to normal operation.
	vm0.snowCtx.Lock.Unlock()
	unlocked = true
	awaitSyncCtx, cancel := context.WithTimeout(ctx, 60*time.Second)
	defer cancel()
	r.NoError(vm1.VM.SyncClient.Wait(awaitSyncCtx))

	lastAccepted, err := vm1.SnowVM.GetConsensusIndex().GetLastAccepted(ctx)
	r.NoError(err)
	r.Equal(tip.GetID(), lastAccepted.GetID())

	// Both processing blocks are invalid and neither has been rejected yet:
	// the node must report 2 unresolved blocks and the preference must not be usable.
	details, healthErr := vm1.SnowVM.HealthCheck(ctx)
	t.Logf("health after hand over: details=%v err=%v", details, healthErr)
	r.ErrorContains(healthErr, "unresolved invalid blocks in processing") // control block is caught
	_, prefErr := vm1.SnowVM.GetConsensusIndex().GetPreferredBlock(ctx)
	r.Equal(2, details.(map[string]any)["snowUnresolvedBlocks"],
		"the processing block replaying tx %s passed re-verification after state sync (GetPreferredBlock err = %v)", lastTx.GetID(), prefErr,
	)
	r.Error(prefErr)
}
