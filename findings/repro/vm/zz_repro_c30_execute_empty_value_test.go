// Copyright (C) 2024, Ava Labs, Inc. All rights reserved.
// See the file LICENSE for licensing terms.

package vm_test

import (
	"context"
	"testing"

	"github.com/stretchr/testify/require"

	"github.com/ava-labs/hypersdk/api/jsonrpc"
	"github.com/ava-labs/hypersdk/chain"
	"github.com/ava-labs/hypersdk/chain/chaintest"
	"github.com/ava-labs/hypersdk/keys"
	"github.com/ava-labs/hypersdk/state"

	avasnow "github.com/ava-labs/avalanchego/snow"
)

// C30 / defect 2: JSONRPCServer.ExecuteActions decides whether a key exists
// with `value == nil` instead of looking at the error returned by ReadState.
// A key that exists with a zero-length value (legal: keys.VerifyValue accepts
// an empty value for any key, it costs 0 chunks) that the state DB hands back
// as a nil slice is treated as absent: the action fails with "not found" in
// executeActions although the very same action succeeds in simulateActions and
// inside a transaction.

func c30h2Action(specKeys []string, perms []state.Permissions, reads [][]byte, wk [][]byte, wv [][]byte, nonce uint64) *chaintest.TestAction {
	return &chaintest.TestAction{
		NumComputeUnits:              1,
		SpecifiedStateKeys:           specKeys,
		SpecifiedStateKeyPermissions: perms,
		ReadKeys:                     reads,
		WriteKeys:                    wk,
		WriteValues:                  wv,
		Start:                        -1,
		End:                          -1,
		Nonce:                        nonce,
	}
}

func TestC30hExecuteActionsEmptyValueTreatedAsMissing(t *testing.T) {
	ctx := context.Background()
	r := require.New(t)
	network := NewVMTestNetwork(ctx, t, 1)
	network.SetState(ctx, avasnow.NormalOp)
	defer network.Shutdown(ctx)

	cli := jsonrpc.NewJSONRPCClient(network.URIs()[0])
	actor := network.AuthFactories()[0].Address()

	onChain := func(actions []chain.Action) *chain.Result {
		tx, err := network.GenerateTx(ctx, actions, network.AuthFactories()[0])
		r.NoError(err)
		r.NoError(network.ConfirmTxs(ctx, []*chain.Transaction{tx}))
		lastAccepted, err := network.VMs[0].SnowVM.GetConsensusIndex().GetLastAccepted(ctx)
		r.NoError(err)
		r.Len(lastAccepted.ExecutionResults.Results, 1)
		return lastAccepted.ExecutionResults.Results[0]
	}

	// History: an accepted tx creates [key] with an empty value (the action
	// calls Insert(key, nil), which tstate and merkledb both accept).
	key := keys.EncodeChunks([]byte{9, 9, 8}, 0)
	res := onChain([]chain.Action{
		c30h2Action([]string{string(key)}, []state.Permissions{state.All}, nil, [][]byte{key}, [][]byte{nil}, 0),
	})
	r.True(res.Success, string(res.Error))

	// The key exists in the accepted state.
	_, errs := network.VMs[0].VM.ReadState(ctx, [][]byte{key})
	r.NoError(errs[0], "key must exist in the accepted state")

	// Read-only action that declares and reads the key.
	actions := []chain.Action{
		c30h2Action([]string{string(key)}, []state.Permissions{state.Read}, [][]byte{key}, nil, nil, 1),
	}
	execOutputs, execErr := cli.ExecuteActions(ctx, actor, [][]byte{actions[0].Bytes()})
	simResults, simErr := cli.SimulateActions(ctx, actions, actor)
	res = onChain(actions)
	t.Logf("on-chain: success=%v error=%q outputs=%v", res.Success, res.Error, res.Outputs)
	t.Logf("simulateActions: results=%d err=%v", len(simResults), simErr)
	t.Logf("executeActions: outputs=%v err=%v", execOutputs, execErr)

	r.True(res.Success, "on-chain execution succeeds")
	r.NoError(simErr, "simulateActions agrees with the chain")
	r.NoError(execErr, "executeActions disagrees with on-chain execution")
	r.Len(execOutputs, 1)
}
