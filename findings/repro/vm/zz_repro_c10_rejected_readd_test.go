// Copyright (C) 2024, Ava Labs, Inc. All rights reserved.
// See the file LICENSE for licensing terms.

package vm_test

import (
	"context"
	"testing"
	"time"

	"github.com/stretchr/testify/require"

	"github.com/ava-labs/hypersdk/chain"
	"github.com/ava-labs/hypersdk/chain/chaintest"
	"github.com/ava-labs/hypersdk/internal/mempool"
	"github.com/ava-labs/hypersdk/utils"

	avasnow "github.com/ava-labs/avalanchego/snow"
)

// Property C10: "Mempool admission applies the same checks at the current time, so nothing
// admitted is already expired".
//
// The rejected-block subscription of the VM (vm/vm.go, AddRejectedSub) puts every transaction
// of a rejected block back into the mempool with a bare mempool.Add: no expiry / validity
// window check at all. The accepted sibling has already advanced the mempool's minimum
// timestamp (SetMinTimestamp runs on accept, before the reject), so a transaction whose expiry
// is already below the last accepted block timestamp (and below the wall clock) is (re-)admitted
// and stays in the mempool.
func TestC10hRejectedBlockReadmitsExpiredTx(t *testing.T) {
	ctx := context.Background()
	r := require.New(t)
	network := NewVMTestNetwork(ctx, t, 1)
	network.SetState(ctx, avasnow.NormalOp)
	defer network.Shutdown(ctx)

	testVM := network.VMs[0]
	genesisID, err := testVM.SnowVM.LastAccepted(ctx)
	r.NoError(err)

	// A transaction that expires at the next whole second.
	start := time.Now().UnixMilli()
	expiry := utils.UnixRMilli(start, 1_000)
	if expiry-start < 300 {
		// keep enough room to submit the tx and build block A before it expires
		expiry += 1_000
	}
	txData := chain.NewTxData(
		chain.Base{
			ChainID:   network.ChainID(),
			Timestamp: expiry,
			MaxFee:    1_000_000,
		},
		[]chain.Action{chaintest.NewDummyTestAction()},
	)
	tx, err := txData.Sign(network.AuthFactories()[0])
	r.NoError(err)

	// Regular admission: all checks pass, the tx is valid now.
	network.SubmitTxs(ctx, []*chain.Transaction{tx})

	// Block A (height 1) includes the tx while it is still valid.
	blkA := network.BuildBlockAndUpdateHead(ctx)[0]
	r.True(blkA.Output.ExecutionBlock.Contains(tx.GetID()))
	r.LessOrEqual(blkA.Input.GetTimestamp(), expiry)

	mp, ok := testVM.VM.Mempool().(*mempool.Mempool[*chain.Transaction])
	r.True(ok)
	r.False(mp.Has(ctx, tx.GetID()), "verified block removes its txs from the mempool")

	// Consensus moves the preference back to genesis and a competing sibling B is built
	// after the tx has expired.
	r.NoError(testVM.SnowVM.SetPreference(ctx, genesisID))
	for time.Now().UnixMilli() <= expiry {
		time.Sleep(10 * time.Millisecond)
	}
	blkB := network.BuildBlockAndUpdateHead(ctx)[0]
	r.Equal(genesisID, blkB.Parent())
	r.Empty(blkB.Input.StatelessBlock.Txs)
	r.Greater(blkB.Input.GetTimestamp(), expiry)

	// B is accepted, A is rejected (snowman: accept first, then reject the conflicting siblings).
	r.NoError(blkB.SyncAccept(ctx))
	r.NoError(blkA.Reject(ctx))

	now := time.Now().UnixMilli()
	lastAccepted, err := testVM.VM.LastAcceptedBlock(ctx)
	r.NoError(err)
	r.Equal(blkB.ID(), lastAccepted.GetID())
	t.Logf("tx expiry=%d lastAccepted.Tmstmp=%d now=%d mempoolLen=%d", expiry, lastAccepted.Tmstmp, now, mp.Len(ctx))

	// The tx is expired with respect to the wall clock AND the last accepted block: the same
	// checks as Submit (chain.PreExecutor) would return ErrTimestampExpired. It must not be in
	// the mempool.
	r.Less(expiry, now)
	r.Less(expiry, lastAccepted.Tmstmp)
	r.False(mp.Has(ctx, tx.GetID()), "expired tx (expiry %d < last accepted %d < now %d) was admitted to the mempool by the rejected-block path", expiry, lastAccepted.Tmstmp, now)
}
