// Copyright (C) 2024, Ava Labs, Inc. All rights reserved.
// See the file LICENSE for licensing terms.

package indexer

import (
	"context"
	"testing"

	"github.com/stretchr/testify/require"

	"github.com/ava-labs/hypersdk/chain/chaintest"
)

// Re-delivering an already accepted block that is still inside the window (at-least-once
// delivery: the re-processing start block after a restart, a retried notification) must not
// change what the indexer calls its latest block, and a restart must not change the answer.
func TestC31RedeliveryOfOlderBlockInWindow(t *testing.T) {
	r := require.New(t)
	ctx := context.Background()

	const blockWindow = 5
	indexer, blks, dir := createTestIndexer(t, ctx, 10, blockWindow, 1) // heights 1..10
	tip := blks[len(blks)-1]

	// height 8 is inside the window (5,10] and is delivered a second time
	r.NoError(indexer.Notify(ctx, blks[7]))

	latest, err := indexer.GetLatestBlock()
	r.NoError(err)
	latestBeforeRestart := latest.Block.Hght

	r.NoError(indexer.Close())
	restarted, err := NewIndexer(dir, chaintest.NewTestParser(), blockWindow)
	r.NoError(err)
	defer restarted.Close()
	latest, err = restarted.GetLatestBlock()
	r.NoError(err)

	r.Equal(tip.Block.Hght, latest.Block.Hght, "latest block after the restart")
	r.Equal(tip.Block.Hght, latestBeforeRestart, "latest block before the restart: the highest accepted block is still %d", tip.Block.Hght)
}

// Re-delivering an accepted block that already left the window must not make the indexer serve
// it (or its transactions) again, and the blocks it serves must not exceed the window.
func TestC31RedeliveryOfBlockOlderThanWindow(t *testing.T) {
	r := require.New(t)
	ctx := context.Background()

	const blockWindow = 2
	indexer, blks, dir := createTestIndexer(t, ctx, 10, blockWindow, 1) // heights 1..10, window {9,10}
	old, next := blks[2], blks[3]                                       // heights 3 and 4

	_, err := indexer.GetBlockByHeight(old.Block.Hght)
	r.ErrorIs(err, errBlockNotFound)

	r.NoError(indexer.Notify(ctx, old))
	r.NoError(indexer.Notify(ctx, next))

	served := 0
	for _, blk := range blks {
		if _, err := indexer.GetBlockByHeight(blk.Block.Hght); err == nil {
			served++
		}
	}
	_, errOld := indexer.GetBlockByHeight(old.Block.Hght)
	foundOldTx, _, _, _, err := indexer.GetTransaction(old.Block.Txs[0].GetID())
	r.NoError(err)

	// what a restart answers for the very same history
	r.NoError(indexer.Close())
	restarted, err := NewIndexer(dir, chaintest.NewTestParser(), blockWindow)
	r.NoError(err)
	defer restarted.Close()
	_, err = restarted.GetBlockByHeight(old.Block.Hght)
	r.ErrorIs(err, errBlockNotFound, "after the restart height 3 is not served")
	foundAfterRestart, _, _, _, err := restarted.GetTransaction(old.Block.Txs[0].GetID())
	r.NoError(err)
	r.False(foundAfterRestart)

	r.ErrorIs(errOld, errBlockNotFound, "height 3 is 7 blocks below the latest accepted block 10 with a window of 2")
	r.False(foundOldTx, "transaction of height 3 is served although it left the window")
	r.LessOrEqual(served, blockWindow, "number of heights served")
}
