package indexer

import (
	"context"
	"testing"

	"github.com/ava-labs/avalanchego/ids"
	"github.com/stretchr/testify/require"

	"github.com/ava-labs/hypersdk/chain/chaintest"
)

// window 2; heights 1,2,3 are notified, then (as after a state sync) 7,8: blocks 2 and 3 are older than the
// window of the latest block and must not be served; a restart must not change any answer.
func TestC31HeightGapLeavesStaleBlocks(t *testing.T) {
	r := require.New(t)
	ctx := context.Background()
	dir := t.TempDir()
	idx, err := NewIndexer(dir, chaintest.NewTestParser(), 2)
	r.NoError(err)
	blks := chaintest.GenerateEmptyExecutedBlocks(r, ids.GenerateTestID(), ids.GenerateTestID(), 0, 0, 1, 8, 2)
	for _, h := range []int{0, 1, 2, 6, 7} { // heights 1,2,3,7,8
		r.NoError(idx.Notify(ctx, blks[h]))
	}
	answers := func(i *Indexer) (out []bool) {
		for _, b := range blks {
			_, err := i.GetBlockByHeight(b.Block.Hght)
			out = append(out, err == nil)
			found, _, _, _, err := i.GetTransaction(b.Block.Txs[0].GetID())
			r.NoError(err)
			out = append(out, found)
		}
		return out
	}
	before := answers(idx)
	_, err = idx.GetBlockByHeight(3)
	r.Error(err, "height 3 is older than the window")
	r.NoError(idx.Close())
	idx2, err := NewIndexer(dir, chaintest.NewTestParser(), 2)
	r.NoError(err)
	r.Equal(before, answers(idx2), "first restart changed answers")
	r.NoError(idx2.Close())
	idx3, err := NewIndexer(dir, chaintest.NewTestParser(), 2)
	r.NoError(err)
	r.Equal(before, answers(idx3), "second restart changed answers")
}
