// Copyright (C) 2024, Ava Labs, Inc. All rights reserved.
// See the file LICENSE for licensing terms.

package indexer

import (
	"context"
	"encoding/json"
	"testing"

	"github.com/ava-labs/avalanchego/ids"
	"github.com/stretchr/testify/require"

	"github.com/ava-labs/hypersdk/chain"
	"github.com/ava-labs/hypersdk/chain/chaintest"
)

// The VM delivers the genesis block to the accepted subscribers at its first start as
// ExecutedBlock{Block: genesis, ExecutionResults: &chain.ExecutionResults{}} (vm.initGenesisAsLastAccepted
// + the start-up notification of the last accepted block). The indexer must give the same answer
// for that height before and after a restart.
func TestC31GenesisBlockAnswerSurvivesRestart(t *testing.T) {
	r := require.New(t)
	ctx := context.Background()

	const blockWindow = 4
	dir := t.TempDir()
	indexer, err := NewIndexer(dir, chaintest.NewTestParser(), blockWindow)
	r.NoError(err)

	genesisBlk, err := chain.NewStatelessBlock(ids.Empty, 0, 0, nil, ids.GenerateTestID() /* genesis state root */, nil)
	r.NoError(err)
	genesis := &chain.ExecutedBlock{
		Block:            genesisBlk,
		ExecutionResults: &chain.ExecutionResults{},
	}
	r.NoError(indexer.Notify(ctx, genesis))
	next := chaintest.GenerateEmptyExecutedBlocks(r, genesisBlk.GetID(), ids.GenerateTestID(), 0, 0, 1, 1, 1)[0]
	r.NoError(indexer.Notify(ctx, next))

	before, err := indexer.GetBlockByHeight(0)
	r.NoError(err)
	r.NotNil(before.ExecutionResults)
	beforeJSON, err := json.Marshal(before) // what Server.GetBlock replies in its "block" field
	r.NoError(err)
	_ = before.String()

	r.NoError(indexer.Close())
	restarted, err := NewIndexer(dir, chaintest.NewTestParser(), blockWindow)
	r.NoError(err)
	defer restarted.Close()

	after, err := restarted.GetBlockByHeight(0)
	r.NoError(err)
	r.Equal(genesisBlk.GetID(), after.Block.GetID())
	afterJSON, err := json.Marshal(after)
	r.NoError(err)
	r.JSONEq(string(beforeJSON), string(afterJSON), "the answer for height 0 changed across the restart")
	r.NotNil(after.ExecutionResults, "ExecutedBlock promises non-nil fields (its String() and the ws/indexer code dereference them)")
	r.NotPanics(func() { _ = after.String() })
}
