package dynamic

import (
	"encoding/json"
	"testing"

	"github.com/stretchr/testify/require"

	"github.com/ava-labs/hypersdk/abi"
	"github.com/ava-labs/hypersdk/chain/chaintest"
	"github.com/ava-labs/hypersdk/codec"
	"github.com/ava-labs/hypersdk/state"
)

func TestC29FrameworkActionThroughABI(t *testing.T) {
	r := require.New(t)
	a, err := abi.NewABI([]codec.Typed{&chaintest.TestAction{}}, []codec.Typed{&chaintest.TestOutput{}})
	r.NoError(err)
	v := &chaintest.TestAction{NumComputeUnits: 7, SpecifiedStateKeys: []string{"k"}, SpecifiedStateKeyPermissions: []state.Permissions{state.Read}, ExecuteErr: true, Nonce: 3}
	js, err := json.Marshal(v)
	r.NoError(err)
	b, err := Marshal(a, "TestAction", string(js))
	r.NoError(err)
	r.Equal(v.Bytes(), b)
	back, err := UnmarshalAction(a, b)
	r.NoError(err)
	r.JSONEq(string(js), back)
}
