package dynamic

import (
	"encoding/json"
	"testing"

	"github.com/stretchr/testify/require"

	"github.com/ava-labs/hypersdk/abi"
	"github.com/ava-labs/hypersdk/codec"
)

type c29Out struct {
	A uint64 `serialize:"true" json:"a"`
	B bool   `serialize:"true" json:"b"`
}

func (*c29Out) GetTypeID() uint8 { return 9 }

type c29Act struct {
	X uint16 `serialize:"true" json:"x"`
}

func (*c29Act) GetTypeID() uint8 { return 4 }

func TestC29OutputThroughABI(t *testing.T) {
	r := require.New(t)
	a, err := abi.NewABI([]codec.Typed{&c29Act{}}, []codec.Typed{&c29Out{}})
	r.NoError(err)
	v := &c29Out{A: 1<<64 - 1, B: true}
	js, _ := json.Marshal(v)
	b, err := Marshal(a, "c29Out", string(js))
	r.NoError(err)
	w := codec.NewWriter(1, 1000)
	w.PackByte(9)
	r.NoError(codec.LinearCodec.MarshalInto(v, w.Packer))
	r.Equal(w.Bytes(), b)
	back, err := UnmarshalOutput(a, b)
	r.NoError(err)
	r.JSONEq(string(js), back)
}
