// Copyright (C) 2024, Ava Labs, Inc. All rights reserved.
// See the file LICENSE for licensing terms.

package pubsub

import (
	"sync"
	"testing"
	"time"

	"github.com/ava-labs/avalanchego/utils/logging"
	"github.com/stretchr/testify/require"
	"go.uber.org/zap"
)

// pausingLogger pauses (once) inside the "dropped pending message" debug line
// that clearPending emits while MessageBuffer.l is held. It only serves to
// make the schedule "the flush timer expires while Close is running"
// deterministic; nothing else about the buffer is altered.
type pausingLogger struct {
	logging.NoLog

	once    sync.Once
	entered chan struct{}
	release chan struct{}
}

func (p *pausingLogger) Debug(msg string, _ ...zap.Field) {
	if msg != "dropped pending message" {
		return
	}
	p.once.Do(func() {
		close(p.entered)
		<-p.release
	})
}

// Close at any point: if the flush timer expires while Close is in its
// critical section, Close must still return (and close Queue).
func TestMessageBufferCloseWhileFlushTimerFires(t *testing.T) {
	require := require.New(t)

	log := &pausingLogger{
		entered: make(chan struct{}),
		release: make(chan struct{}),
	}
	const timeout = 20 * time.Millisecond
	// No queue capacity and no reader: the flush performed by Close finds the
	// outgoing queue full, drops the batch (allowed) and logs it.
	mb := NewMessageBuffer(log, 0, 1024, timeout)
	require.NoError(mb.Send([]byte("hello"))) // arms the flush timer

	closed := make(chan error, 1)
	go func() {
		closed <- mb.Close()
	}()

	// Close is now inside clearPending, holding the buffer lock.
	<-log.entered
	// Let the flush timer expire: its handler now waits for the buffer lock.
	time.Sleep(10 * timeout)
	close(log.release)

	select {
	case err := <-closed:
		require.NoError(err)
	case <-time.After(5 * time.Second):
		require.FailNow("MessageBuffer.Close never returned: it waits for the timer goroutine, which waits for the lock Close holds")
	}
	_, ok := <-mb.Queue
	require.False(ok, "Queue must be closed after Close")
	require.ErrorIs(mb.Send([]byte("x")), ErrClosed)
}

// Same defect without any scheduling aid: close buffers right when their
// flush timer is due. Every Close must return.
func TestMessageBufferCloseAtFlushDeadlineStress(t *testing.T) {
	const (
		timeout = 2 * time.Millisecond
		buffers = 2000
	)
	payload := make([]byte, 1<<20) // make the flush inside Close take a while
	done := make(chan struct{})
	go func() {
		defer close(done)
		for i := 0; i < buffers; i++ {
			mb := NewMessageBuffer(logging.NoLog{}, 4, 2<<20, timeout)
			if err := mb.Send(payload); err != nil {
				panic(err)
			}
			time.Sleep(timeout - 100*time.Microsecond)
			_ = mb.Close()
		}
	}()
	select {
	case <-done:
	case <-time.After(30 * time.Second):
		require.FailNow(t, "a MessageBuffer.Close call never returned")
	}
}
