// Copyright (C) 2024, Ava Labs, Inc. All rights reserved.
// See the file LICENSE for licensing terms.

package workers

import (
	"testing"
	"time"

	"github.com/stretchr/testify/require"
)

// pendingJobAtStop returns a job that was still waiting in the queue when the
// pool was stopped (Stop has already returned).
func pendingJobAtStop(t *testing.T, backlog int) Job {
	require := require.New(t)
	w := NewParallel(2, 10)
	pw := w.(*ParallelWorkers)

	// running is picked up by the scheduler, which waits for its tasks until Done.
	running, err := w.NewJob(1)
	require.NoError(err)
	require.Eventually(func() bool { return len(pw.queue) == 0 }, 5*time.Second, time.Millisecond)

	// pending stays in the queue behind it.
	pending, err := w.NewJob(backlog)
	require.NoError(err)

	stopped := make(chan struct{})
	go func() {
		w.Stop()
		close(stopped)
	}()
	require.Eventually(func() bool {
		pw.lock.RLock()
		defer pw.lock.RUnlock()
		return pw.shouldShutdown
	}, 5*time.Second, time.Millisecond)

	running.Go(func() error { return nil })
	running.Done(nil)
	require.NoError(running.Wait())
	select {
	case <-stopped:
	case <-time.After(5 * time.Second):
		t.Fatal("Stop did not return")
	}
	return pending
}

// The owner of a job that was pending when the pool was stopped uses it in the
// documented way (Go..., Done, Wait) with a task backlog smaller than its number
// of tasks ("If you don't want to block ..." - blocking is allowed, it is the
// back-pressure mechanism). The job must report ErrShutdown. Instead the
// scheduler never reads the task channel of a job it rejects, so Go blocks
// forever and the owner never gets to Wait.
func TestC26PendingJobAtStopGoBlocksForever(t *testing.T) {
	pending := pendingJobAtStop(t, 1)

	res := make(chan error, 1)
	go func() {
		for i := 0; i < 3; i++ { // 3 tasks, backlog 1
			pending.Go(func() error { return nil })
		}
		pending.Done(nil)
		res <- pending.Wait()
	}()
	select {
	case err := <-res:
		require.ErrorIs(t, err, ErrShutdown)
	case <-time.After(3 * time.Second):
		t.Fatal("owner of a job that was pending at Stop is stuck in Go; it can never observe ErrShutdown")
	}
}

// Same branch of the scheduler: the rejected job's completed channel is never
// closed, so the goroutine started by Done(f) stays parked forever and the
// completion callback (the tracing span of signature verification in
// chain.Processor) never runs.
func TestC26PendingJobAtStopCallbackNeverRuns(t *testing.T) {
	pending := pendingJobAtStop(t, 1)

	called := make(chan struct{})
	pending.Go(func() error { return nil })
	pending.Done(func() { close(called) })
	require.ErrorIs(t, pending.Wait(), ErrShutdown)
	select {
	case <-called:
	case <-time.After(3 * time.Second):
		t.Fatal("completion callback of a job rejected at shutdown never ran (goroutine leaked)")
	}
}
