// Copyright (C) 2024, Ava Labs, Inc. All rights reserved.
// See the file LICENSE for licensing terms.

package executor

import (
	"fmt"
	"sync/atomic"
	"testing"
	"time"

	"github.com/ava-labs/hypersdk/state"
)

// New documents: "It is assumed that no single task has more than
// [maxDependencies]". A task with EXACTLY maxDependencies outstanding
// predecessors is therefore inside the documented contract. If all of those
// predecessors finish while Run is still registering the remaining keys of the
// task (i.e. before Run performs its final "adjust dependency tracker" step),
// the dependency counter reaches 0 twice: once in runTask (which enqueues the
// task) and once more in Run (Add(-(max-len(deps))) == Add(0) returns 0, so Run
// enqueues the task again). The task is executed twice and outstanding.Done()
// is called twice.
func TestExecutorTaskWithExactlyMaxDependenciesRunsOnce(t *testing.T) {
	const (
		attempts  = 20
		fillerLen = 100_000 // fresh keys that keep Run(B) busy after it registered on A
	)

	for attempt := 0; attempt < attempts; attempt++ {
		var (
			e        = New(2, 2, 1 /* maxDependencies */, nil)
			aTaskCh  = make(chan *task, 1)
			bRuns    atomic.Int32
			bTwice   = make(chan struct{})
			waitDone = make(chan error, 1)
		)

		// Task A owns "shared". It finishes as soon as it observes that a later
		// task (B) registered itself as blocked on A.
		e.Run(state.Keys{"shared": state.Write}, func() error {
			a := <-aTaskCh
			for {
				a.l.Lock()
				n := len(a.blocked)
				a.l.Unlock()
				if n > 0 {
					return nil
				}
				time.Sleep(10 * time.Microsecond)
			}
		})
		aTaskCh <- e.nodes["shared"]

		// Task B conflicts with A on exactly one key => exactly 1 == maxDependencies
		// outstanding predecessor. The many fresh keys only make Run(B) spend time
		// between registering on A and its final counter adjustment.
		bKeys := make(state.Keys, fillerLen+1)
		bKeys.Add("shared", state.Write)
		for i := 0; i < fillerLen; i++ {
			bKeys.Add(fmt.Sprintf("fresh-%d", i), state.Write)
		}
		e.Run(bKeys, func() error {
			if bRuns.Add(1) == 2 {
				close(bTwice)
				select {} // avoid the negative WaitGroup panic so the test fails cleanly
			}
			return nil
		})

		go func() { waitDone <- e.Wait() }()
		select {
		case <-bTwice:
			t.Fatalf("attempt %d: task B (exactly maxDependencies=1 predecessor) was executed twice", attempt)
		case err := <-waitDone:
			if err != nil {
				t.Fatalf("unexpected error: %v", err)
			}
			// give a potential duplicate execution a moment to show up
			select {
			case <-bTwice:
				t.Fatalf("attempt %d: task B (exactly maxDependencies=1 predecessor) was executed twice", attempt)
			case <-time.After(20 * time.Millisecond):
			}
			if n := bRuns.Load(); n != 1 {
				t.Fatalf("attempt %d: task B ran %d times", attempt, n)
			}
		case <-time.After(30 * time.Second):
			t.Fatalf("attempt %d: deadlock", attempt)
		}
	}
}
