// Copyright (C) 2024, Ava Labs, Inc. All rights reserved.
// See the file LICENSE for licensing terms.

package fetcher

import (
	"context"
	"sync"
	"testing"
	"time"

	"github.com/ava-labs/avalanchego/database"
	"github.com/ava-labs/avalanchego/ids"
	"github.com/stretchr/testify/require"
)

// gatedDB is a parent state whose reads only complete once the test opens the
// gate of the requested key. It records every key requested from it.
type gatedDB struct {
	storage map[string][]byte

	l         sync.Mutex
	gates     map[string]chan struct{}
	requested map[string]int
}

func newGatedDB(storage map[string][]byte) *gatedDB {
	db := &gatedDB{
		storage:   storage,
		gates:     make(map[string]chan struct{}),
		requested: make(map[string]int),
	}
	for k := range storage {
		db.gates[k] = make(chan struct{})
	}
	return db
}

func (db *gatedDB) open(k string) { close(db.gates[k]) }

func (db *gatedDB) GetValue(_ context.Context, key []byte) ([]byte, error) {
	db.l.Lock()
	db.requested[string(key)]++
	gate := db.gates[string(key)]
	db.l.Unlock()
	if gate != nil {
		<-gate
	}
	v, ok := db.storage[string(key)]
	if !ok {
		return nil, database.ErrNotFound
	}
	return v, nil
}

// A block that contains the same transaction twice (same txID => same declared
// keys) registers the txID twice on every pending key. When the FIRST key
// arrives, the (single, overwritten) tx record is decremented twice, reaches
// zero and its waiter is closed although the second key was never read.
// Get then silently omits the unread key, i.e. the transaction observes
// "absent" for a key that exists in the parent state.
func TestC24DuplicateTxIDGetReturnsBeforeAllKeysFetched(t *testing.T) {
	require := require.New(t)

	k1, k2 := keyBase+"1", keyBase+"2"
	db := newGatedDB(map[string][]byte{
		k1: []byte("value1"),
		k2: []byte("value2"),
	})
	f := New(db, 2, 2)
	ctx := context.Background()
	txID := ids.GenerateTestID()

	// Same transaction twice in the block (processor calls Fetch once per tx in block order)
	require.NoError(f.Fetch(ctx, txID, []string{k1, k2}))
	require.NoError(f.Fetch(ctx, txID, []string{k1, k2}))

	type res struct {
		storage map[string][]byte
		err     error
	}
	got := make(chan res, 1)
	go func() {
		s, err := f.Get(txID)
		got <- res{s, err}
	}()

	// Only the first key's read completes; the read of k2 is still in flight.
	db.open(k1)

	select {
	case r := <-got:
		// Get returned although k2 was not read yet. Let the fetcher finish so that we
		// can show the fetch as a whole succeeds (no error reported anywhere).
		db.open(k2)
		require.NoError(f.Wait())
		require.NoError(r.err)
		require.Equal(
			map[string][]byte{k1: []byte("value1"), k2: []byte("value2")},
			r.storage,
			"Get returned before every declared key was read: key %q exists in the parent state but is reported absent", k2,
		)
	case <-time.After(500 * time.Millisecond):
		// Correct behaviour: Get is still blocked on k2.
		db.open(k2)
		r := <-got
		require.NoError(r.err)
		require.Equal(map[string][]byte{k1: []byte("value1"), k2: []byte("value2")}, r.storage)
		require.NoError(f.Wait())
	}
}
