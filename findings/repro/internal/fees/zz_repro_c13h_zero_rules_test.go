// Copyright (C) 2024, Ava Labs, Inc. All rights reserved.
// See the file LICENSE for licensing terms.

package fees

import (
	"testing"

	"github.com/stretchr/testify/require"

	"github.com/ava-labs/hypersdk/fees"
)

type c13hZeroRules struct {
	minPrice, denom, target, maxBlock fees.Dimensions
}

func (r *c13hZeroRules) GetMinUnitPrice() fees.Dimensions              { return r.minPrice }
func (r *c13hZeroRules) GetUnitPriceChangeDenominator() fees.Dimensions { return r.denom }
func (r *c13hZeroRules) GetWindowTargetUnits() fees.Dimensions          { return r.target }
func (r *c13hZeroRules) GetMaxBlockUnits() fees.Dimensions              { return r.maxBlock }

// Nothing (genesis.Rules, the RuleFactory, NewManager) rejects a window target
// or a price-change denominator of 0, and ComputeNext is specified for all
// uint64 rule values. With target 0 any consumption is "above target", with
// denominator 0 any deviation from the target is an unbounded change; both
// should saturate like every other overflow in this function. Instead the
// price computation divides by zero and ComputeNext panics, which takes down
// block verification, block building and transaction pre-execution.
func TestC13hZeroTargetOrDenominatorPanics(t *testing.T) {
	base := func() *c13hZeroRules {
		return &c13hZeroRules{
			minPrice: fees.Dimensions{100, 100, 100, 100, 100},
			denom:    fees.Dimensions{48, 48, 48, 48, 48},
			target:   fees.Dimensions{1_000, 1_000, 1_000, 1_000, 1_000},
			maxBlock: fees.Dimensions{10_000, 10_000, 10_000, 10_000, 10_000},
		}
	}

	t.Run("target=0,consumed=1", func(t *testing.T) {
		r := base()
		r.target[1] = 0
		m := NewManager(nil).ComputeNext(1_000_000, r) // nothing consumed yet: total == target, fine
		m.SetLastConsumed(1, 1)
		require.NotPanics(t, func() {
			next := m.ComputeNext(1_001_000, r)
			require.GreaterOrEqual(t, next.UnitPrice(1), m.UnitPrice(1))
		})
	})

	t.Run("denominator=0,usage below target", func(t *testing.T) {
		r := base()
		r.denom[2] = 0
		require.NotPanics(t, func() {
			next := NewManager(nil).ComputeNext(1_000_000, r)
			require.GreaterOrEqual(t, next.UnitPrice(2), uint64(100))
		})
	})
}
