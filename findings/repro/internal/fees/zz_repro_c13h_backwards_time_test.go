// Copyright (C) 2024, Ava Labs, Inc. All rights reserved.
// See the file LICENSE for licensing terms.

package fees

import (
	"testing"

	"github.com/stretchr/testify/require"

	"github.com/ava-labs/hypersdk/fees"
)

type c13hRules struct {
	minPrice, denom, target, maxBlock fees.Dimensions
}

func (r *c13hRules) GetMinUnitPrice() fees.Dimensions              { return r.minPrice }
func (r *c13hRules) GetUnitPriceChangeDenominator() fees.Dimensions { return r.denom }
func (r *c13hRules) GetWindowTargetUnits() fees.Dimensions          { return r.target }
func (r *c13hRules) GetMaxBlockUnits() fees.Dimensions              { return r.maxBlock }

// The parent fee state was produced for a block stamped 1000.000s and that
// block used 3x the window target. Anybody computing the next prices with a
// clock that is a fraction of a second behind that stamp (chain/pre_executor.go
// uses time.Now(), and blocks may legitimately be stamped ahead of the local
// clock) gets elapsed = -1s. The subtraction is converted to uint64, so the
// elapsed time becomes 2^64-1 seconds: the window (which is over target) is
// wiped and the price is cut by baseDelta * (2^64-1)/10, i.e. straight to the
// minimum price, although usage in the last 10 seconds exceeds the target.
func TestC13hBackwardsClockCollapsesPrice(t *testing.T) {
	r := &c13hRules{
		minPrice: fees.Dimensions{100, 100, 100, 100, 100},
		denom:    fees.Dimensions{48, 48, 48, 48, 48},
		target:   fees.Dimensions{1_000, 1_000, 1_000, 1_000, 1_000},
		maxBlock: fees.Dimensions{10_000, 10_000, 10_000, 10_000, 10_000},
	}
	const parentMs = int64(1_000_000) // parent block stamped at 1000.000s

	parent := NewManager(nil).ComputeNext(parentMs, r)
	for d := fees.Dimension(0); d < fees.FeeDimensions; d++ {
		parent.SetUnitPrice(d, 1_000_000)
		parent.SetLastConsumed(d, 3_000) // 3x the 10s target, consumed at t=1000s
	}
	// round trip through the encoded form, as the chain does
	parent = NewManager(append([]byte(nil), parent.Bytes()...))

	// control: same second -> price rises (usage is over target)
	same := parent.ComputeNext(parentMs, r)
	require.Greater(t, same.UnitPrice(0), uint64(1_000_000))

	// 50ms behind the parent's stamp -> previous second
	behind := parent.ComputeNext(parentMs-50, r)
	for d := fees.Dimension(0); d < fees.FeeDimensions; d++ {
		require.GreaterOrEqualf(t, behind.UnitPrice(d), uint64(1_000_000),
			"dimension %d: usage in the last 10s is 3x target, yet the next price fell from 1000000 to %d (min price is 100)",
			d, behind.UnitPrice(d))
	}
}
