package validitywindow

import (
	"context"
	"sync/atomic"
	"testing"
	"time"

	"github.com/stretchr/testify/require"
)

// A chain younger than the validity window: no ancestor is older than the minimum timestamp, so the
// backfill has to stop at genesis. An honest peer serves the whole ancestry.
func TestC22BackfillToGenesisCompletes(t *testing.T) {
	r := require.New(t)
	ctx, cancel := context.WithTimeout(context.Background(), 5*time.Second)
	defer cancel()
	chain := generateTestChain(6)
	blocks := map[uint64]ExecutionBlock[container]{}
	for i, b := range chain {
		blocks[uint64(i)] = b
	}
	test := newTestEnvironment([]nodeSetup{{sampleOrder: 1, blocks: blocks}})
	fetcher := NewBlockFetcherClient[ExecutionBlock[container]](test.p2pBlockFetcher, newParser(chain), test.sampler)
	var minTS atomic.Int64
	minTS.Store(0) // window reaches before genesis
	ch := fetcher.FetchBlocks(ctx, chain[5], &minTS)
	got := 0
	for {
		select {
		case _, ok := <-ch:
			if !ok {
				r.Equal(5, got, "all ancestors down to genesis")
				return
			}
			got++
		case <-ctx.Done():
			t.Fatalf("backfill did not complete after reaching genesis (received %d blocks)", got)
		}
	}
}
