// Copyright (C) 2024, Ava Labs, Inc. All rights reserved.
// See the file LICENSE for licensing terms.

package validitywindow

import (
	"context"
	"encoding/binary"
	"errors"
	"math/rand"
	"sync/atomic"
	"testing"
	"time"

	"github.com/ava-labs/avalanchego/ids"
	"github.com/ava-labs/avalanchego/message"
	"github.com/ava-labs/avalanchego/utils/compression"
	"github.com/ava-labs/avalanchego/utils/constants"
	"github.com/ava-labs/avalanchego/utils/hashing"
	"github.com/ava-labs/avalanchego/utils/logging"
	"github.com/prometheus/client_golang/prometheus"
	"github.com/stretchr/testify/require"
)

// honestRetriever is a peer that has the complete, real chain in memory.
type honestRetriever struct {
	blocks map[uint64]ExecutionBlock[container]
}

func (h *honestRetriever) GetBlockByHeight(_ context.Context, height uint64) (ExecutionBlock[container], error) {
	blk, ok := h.blocks[height]
	if !ok {
		return nil, errors.New("not found")
	}
	return blk, nil
}

// wireFetcher delivers the handler's answer the way avalanchego does: the responder's sender builds the
// outbound AppResponse with the real message creator; if that fails the message is only logged and dropped
// (snow/networking/sender.SendAppResponse), so the requester sees nothing until its request times out.
type wireFetcher struct {
	handler   *BlockFetcherHandler[ExecutionBlock[container]]
	creator   message.Creator
	delivered atomic.Int64
	dropped   atomic.Int64
	maxSeen   atomic.Int64
}

func (w *wireFetcher) FetchBlocksFromPeer(ctx context.Context, nodeID ids.NodeID, request *BlockFetchRequest) (*BlockFetchResponse, error) {
	respBytes, appErr := w.handler.AppRequest(ctx, nodeID, time.Time{}, request.MarshalCanoto())
	if appErr != nil {
		return nil, appErr
	}
	if int64(len(respBytes)) > w.maxSeen.Load() {
		w.maxSeen.Store(int64(len(respBytes)))
	}
	if _, err := w.creator.AppResponse(ids.GenerateTestID(), 1, respBytes); err != nil {
		// dropped by the responder's sender: the requester only observes a timeout
		w.dropped.Add(1)
		<-ctx.Done()
		return nil, ctx.Err()
	}
	w.delivered.Add(1)
	resp := new(BlockFetchResponse)
	return resp, resp.UnmarshalCanoto(respBytes)
}

type singleNodeSampler struct{ nodeID ids.NodeID }

func (s singleNodeSampler) Sample(context.Context, int) []ids.NodeID { return []ids.NodeID{s.nodeID} }

// A single honest peer holds the whole real ancestry of the target. The chain is ordinary: one block every
// 250ms, 64 KiB per block (a couple of hundred transfers; the default rules allow ~1.8 MB), validity window of
// 30s. The handler bounds its answer only by processing time (50ms) and by MinTimestamp, never by size, so it
// answers with ~120 blocks (~7.5 MiB), which is more than the 2 MiB avalanchego allows for a p2p message.
// The answer can never be delivered, the client retries the identical request forever, and the backfill
// never completes although the peer serves the real ancestry.
func TestBlockFetcher_HonestPeerAnswerExceedsMaxMessageSize(t *testing.T) {
	r := require.New(t)

	const (
		numBlocks      = 200
		blockGap       = int64(250)    // ms
		validityWindow = int64(30_000) // ms
		blockSize      = 64 * 1024     // default rules allow blocks of up to ~1.8 MB
	)

	rng := rand.New(rand.NewSource(1)) //nolint:gosec
	chain := make([]ExecutionBlock[container], numBlocks)
	byHeight := make(map[uint64]ExecutionBlock[container], numBlocks)
	parent := ids.Empty
	for h := 0; h < numBlocks; h++ {
		payload := make([]byte, blockSize)
		_, _ = rng.Read(payload) // incompressible, like signatures
		binary.BigEndian.PutUint64(payload, uint64(h))
		blk := executionBlock{
			Prnt:   parent,
			Tmstmp: int64(h) * blockGap,
			Hght:   uint64(h),
			Bytes:  payload,
			ID:     ids.ID(hashing.ComputeHash256Array(payload)),
		}
		chain[h] = blk
		byHeight[uint64(h)] = blk
		parent = blk.ID
	}
	target := chain[numBlocks-1]

	handler := NewBlockFetcherHandler[ExecutionBlock[container]](&honestRetriever{blocks: byHeight})

	creator, err := message.NewCreator(logging.NoLog{}, prometheus.NewRegistry(), compression.TypeZstd, 10*time.Second)
	r.NoError(err)

	// 1. The honest handler's answer to the very first request of the backfill.
	req := &BlockFetchRequest{
		BlockHeight:  target.GetHeight() - 1,
		MinTimestamp: target.GetTimestamp() - validityWindow,
	}
	respBytes, appErr := handler.AppRequest(context.Background(), ids.GenerateTestNodeID(), time.Time{}, req.MarshalCanoto())
	r.Nil(appErr)
	t.Logf("honest answer: %d bytes, max p2p message: %d bytes", len(respBytes), constants.DefaultMaxMessageSize)

	// 2. End to end: the client never gets a single block from the honest peer.
	fetcher := &wireFetcher{handler: handler, creator: creator}
	client := NewBlockFetcherClient[ExecutionBlock[container]](fetcher, newParser(chain), singleNodeSampler{ids.GenerateTestNodeID()})

	ctx, cancel := context.WithTimeout(context.Background(), 8*time.Second)
	defer cancel()

	var minTS atomic.Int64
	minTS.Store(target.GetTimestamp() - validityWindow)
	resultChan := client.FetchBlocks(ctx, target, &minTS)

	received := 0
	completed := false
loop:
	for {
		select {
		case _, ok := <-resultChan:
			if !ok {
				completed = true
				break loop
			}
			received++
		case <-ctx.Done():
			break loop
		}
	}
	t.Logf("received=%d delivered=%d dropped=%d largestAnswer=%d", received, fetcher.delivered.Load(), fetcher.dropped.Load(), fetcher.maxSeen.Load())

	r.LessOrEqual(len(respBytes), constants.DefaultMaxMessageSize, "honest handler produced an AppResponse that avalanchego cannot send")
	r.Zero(fetcher.dropped.Load(), "answers of the honest peer were dropped by the message builder")
	r.True(completed, "backfill did not complete although the only peer serves the real ancestry")
}
