// Copyright (C) 2024, Ava Labs, Inc. All rights reserved.
// See the file LICENSE for licensing terms.

package pebble

import (
	"testing"

	"github.com/prometheus/client_golang/prometheus"
	"github.com/stretchr/testify/require"
)

// database.Compacter: "A nil start is treated as a key before all keys in the DB, and a nil limit is
// treated as a key after all keys in the DB. Therefore if both are nil then it will compact entire DB."
//
// merkledb relies on it: when it was not closed cleanly it rebuilds its intermediate nodes on the next
// open and finishes the rebuild with Compact(nil, nil).
func TestVerifCompactWholeDatabase(t *testing.T) {
	r := require.New(t)
	db, err := New(t.TempDir(), NewDefaultConfig(), prometheus.NewRegistry())
	r.NoError(err)
	defer db.Close()

	r.NoError(db.Put([]byte("a"), []byte("1")))
	r.NoError(db.Put([]byte("b"), []byte("2")))
	r.NoError(db.Compact(nil, nil))
	r.NoError(db.Compact([]byte("a"), nil))
}
