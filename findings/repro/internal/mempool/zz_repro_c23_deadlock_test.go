package mempool

import (
	"context"
	"testing"
	"time"

	"github.com/ava-labs/avalanchego/trace"
	"github.com/stretchr/testify/require"
)

// chain/builder.go calls FinishStreaming from a goroutine that is spawned
// right before BuildBlock returns, so the next BuildBlock's StartStreaming can
// run before the previous FinishStreaming. StartStreaming is supposed to wait
// (streamLock) for the previous stream to finish in that case; instead the
// whole mempool deadlocks because StartStreaming waits for streamLock while
// holding m.mu and FinishStreaming needs m.mu to release streamLock.
func TestC23StartStreamingBeforePreviousFinishDeadlocks(t *testing.T) {
	require := require.New(t)
	ctx := context.TODO()
	m := New[*TestItem](trace.Noop, 10, 10)

	a := GenerateTestItem(testSponsor, 100)
	m.Add(ctx, []*TestItem{a})

	// build 1
	m.StartStreaming(ctx)
	got := m.Stream(ctx, 1)
	require.Len(got, 1)

	// build 2 starts before build 1's asynchronous FinishStreaming ran
	secondStarted := make(chan struct{})
	go func() {
		m.StartStreaming(ctx)
		close(secondStarted)
	}()
	time.Sleep(200 * time.Millisecond) // let build 2 block on the stream lock

	// build 1's deferred FinishStreaming
	firstFinished := make(chan struct{})
	go func() {
		m.FinishStreaming(ctx, got)
		close(firstFinished)
	}()

	select {
	case <-firstFinished:
	case <-time.After(3 * time.Second):
		t.Fatal("FinishStreaming of the first stream never returns: StartStreaming holds m.mu while waiting for streamLock (mempool is deadlocked; Add/Len/Has block forever too)")
	}
	select {
	case <-secondStarted:
	case <-time.After(3 * time.Second):
		t.Fatal("second StartStreaming never proceeds after the first stream finished")
	}
	m.FinishStreaming(ctx, nil)
	require.Equal(1, m.Len(ctx))
}
