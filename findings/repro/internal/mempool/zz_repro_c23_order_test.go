package mempool

import (
	"context"
	"testing"
	"time"

	"github.com/ava-labs/avalanchego/trace"
	"github.com/stretchr/testify/require"
)

// Items a,b,c arrive in that order. A read-only pass over the mempool that
// gives every item back (this is what the gossiper does through Top) must not
// change the order in which they are handed out afterwards.
func TestC23TopRestoreKeepsArrivalOrder(t *testing.T) {
	require := require.New(t)
	ctx := context.TODO()
	m := New[*TestItem](trace.Noop, 10, 10)

	a := GenerateTestItem(testSponsor, 100)
	b := GenerateTestItem(testSponsor, 100)
	c := GenerateTestItem(testSponsor, 100)
	m.Add(ctx, []*TestItem{a, b, c})

	var seen []*TestItem
	require.NoError(m.Top(ctx, time.Hour, func(_ context.Context, it *TestItem) (bool, bool, error) {
		seen = append(seen, it)
		return true, true, nil // continue, restore
	}))
	require.Equal([]*TestItem{a, b, c}, seen)
	require.Equal(3, m.Len(ctx))

	var out []*TestItem
	for {
		it, ok := m.PopNext(ctx)
		if !ok {
			break
		}
		out = append(out, it)
	}
	require.Equal([]*TestItem{a, b, c}, out, "items restored by Top are handed out in reverse arrival order")
}

// Items a..e arrive in that order. A build streams a,b, prefetches c,d and
// then gives a,b back. Afterwards the items must still be handed out as
// a,b,c,d,e (given-back items first, everything in arrival order).
func TestC23FinishStreamingKeepsArrivalOrder(t *testing.T) {
	require := require.New(t)
	ctx := context.TODO()
	m := New[*TestItem](trace.Noop, 10, 10)

	items := make([]*TestItem, 5)
	for i := range items {
		items[i] = GenerateTestItem(testSponsor, 100)
	}
	m.Add(ctx, items)

	m.StartStreaming(ctx)
	got := m.Stream(ctx, 2)
	require.Equal(items[:2], got)
	m.PrepareStream(ctx, 2) // prefetch c,d; never consumed by the build
	require.Equal(4, m.FinishStreaming(ctx, got))
	require.Equal(5, m.Len(ctx))

	var out []*TestItem
	for {
		it, ok := m.PopNext(ctx)
		if !ok {
			break
		}
		out = append(out, it)
	}
	// Actual order is d,c,b,a,e: the never-handed-out prefetched items jump
	// ahead of the given-back ones and both groups are reversed.
	require.Equal(items, out, "items given back after a build are not handed out first / in arrival order")
}
