package mempool

import (
	"context"
	"testing"

	"github.com/ava-labs/avalanchego/trace"
	"github.com/stretchr/testify/require"
)

// Schedule: an asynchronous PrepareStream (the builder spawns it in a
// goroutine) is ordered after FinishStreaming. The mempool itself does not
// reject it: it silently removes items from the pool while no stream is
// active, re-creates streamedItems (set.Add on a nil set allocates) and so
// keeps refusing to re-add those items although the stream has finished.
func TestC23PrepareStreamAfterFinishHidesItems(t *testing.T) {
	require := require.New(t)
	ctx := context.TODO()
	m := New[*TestItem](trace.Noop, 10, 10)

	a := GenerateTestItem(testSponsor, 100)
	b := GenerateTestItem(testSponsor, 100)
	m.Add(ctx, []*TestItem{a, b})

	m.StartStreaming(ctx)
	got := m.Stream(ctx, 1)
	require.Equal([]*TestItem{a}, got)
	m.FinishStreaming(ctx, got)
	require.Equal(2, m.Len(ctx))

	// late prefetch, stream already finished
	m.PrepareStream(ctx, 2)

	// No stream is active: nothing may have been taken out of the mempool,
	// and if it was, it must be possible to add it again.
	m.Add(ctx, []*TestItem{a, b})
	require.Equal(2, m.Len(ctx), "items vanished from the mempool outside of a stream and cannot be re-added")
	require.Equal(4, m.Size(ctx))
	require.True(m.Has(ctx, a.GetID()))
	require.True(m.Has(ctx, b.GetID()))
}
