package utils

import (
	"testing"

	"github.com/stretchr/testify/require"
)

// ParseBalance truncates the fractional part to consts.Decimals bytes BEFORE
// validating it, so anything after the 9th fractional digit is never looked
// at: non-numeric input is accepted as a valid amount.
func TestC34hParseBalanceRejectsTrailingGarbage(t *testing.T) {
	for _, s := range []string{
		"1.000000000xyz",  // not a number
		"1.0000000000e3",  // the previous float-based parser read this as 1000 tokens
		"1.123456789-7",   // sign in the middle
		"1.123456789.5",   // second decimal point
		"1.123456789 2.5", // two amounts
	} {
		v, err := ParseBalance(s)
		require.Errorf(t, err, "ParseBalance(%q) accepted a non-decimal string and returned %d", s, v)
	}
	// sanity: the same garbage inside the first 9 fractional digits IS rejected
	_, err := ParseBalance("1.00000000x")
	require.Error(t, err)
	// sanity: extra *digits* are documented to be truncated
	v, err := ParseBalance("1.0000000019")
	require.NoError(t, err)
	require.Equal(t, uint64(1_000_000_001), v)
}
