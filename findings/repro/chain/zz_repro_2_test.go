// Throw-away reproduction test (R2): genesis state timestamp (0) != genesis header timestamp (2023-01-01)

package chain_test

import (
	"context"
	"testing"
	"time"

	"github.com/ava-labs/avalanchego/database"
	"github.com/ava-labs/avalanchego/database/memdb"
	"github.com/ava-labs/avalanchego/snow/engine/snowman/block"
	"github.com/ava-labs/avalanchego/trace"
	"github.com/ava-labs/avalanchego/utils/logging"
	"github.com/ava-labs/avalanchego/x/merkledb"
	"github.com/prometheus/client_golang/prometheus"
	"github.com/stretchr/testify/require"

	"github.com/ava-labs/hypersdk/auth"
	"github.com/ava-labs/hypersdk/chain"
	"github.com/ava-labs/hypersdk/genesis"
	"github.com/ava-labs/hypersdk/internal/validitywindow"
	"github.com/ava-labs/hypersdk/internal/validitywindow/validitywindowtest"
	"github.com/ava-labs/hypersdk/internal/workers"
	"github.com/ava-labs/hypersdk/state/balance"
	"github.com/ava-labs/hypersdk/state/metadata"
)

func TestZZRepro2GenesisTimestampDecreases(t *testing.T) {
	r := require.New(t)
	ctx := context.Background()

	rules := genesis.NewDefaultRules()
	ruleFactory := &genesis.ImmutableRuleFactory{Rules: rules}
	mm := metadata.NewDefaultManager()
	bh := balance.NewPrefixBalanceHandler([]byte{metadata.DefaultMinimumPrefix})

	db, err := merkledb.New(ctx, memdb.New(), merkledb.Config{
		BranchFactor: merkledb.BranchFactor16,
		Tracer:       trace.Noop,
	})
	r.NoError(err)

	genesisBlk, genesisView, err := chain.NewGenesisCommit(
		ctx, db, genesis.NewDefaultGenesis(nil), mm, bh, ruleFactory, trace.Noop, logging.NoLog{},
	)
	r.NoError(err)
	r.NoError(genesisView.CommitToDB(ctx))

	// Timestamp recorded in genesis STATE
	rawTs, err := db.Get(chain.TimestampKey(mm.TimestampPrefix()))
	r.NoError(err)
	stateTs, err := database.ParseUInt64(rawTs)
	r.NoError(err)
	t.Logf("genesis header timestamp = %d (%s)", genesisBlk.GetTimestamp(), time.UnixMilli(genesisBlk.GetTimestamp()).UTC())
	t.Logf("genesis state  timestamp = %d", stateTs)
	r.Equal(uint64(0), stateTs)
	r.Equal(time.Date(2023, time.January, 1, 0, 0, 0, 0, time.UTC).UnixMilli(), genesisBlk.GetTimestamp())

	root, err := db.GetMerkleRoot(ctx)
	r.NoError(err)
	r.Equal(genesisBlk.GetStateRoot(), root)

	// Real validity window anchored at genesis
	chainIndex := &validitywindowtest.MockChainIndex[*chain.Transaction]{}
	chainIndex.Set(genesisBlk.GetID(), genesisBlk)
	vw, err := validitywindow.NewTimeValidityWindow(
		ctx, logging.NoLog{}, trace.Noop, chainIndex, genesisBlk,
		func(ts int64) int64 { return ruleFactory.GetRules(ts).GetValidityWindow() },
	)
	r.NoError(err)

	metrics, err := chain.NewMetrics(prometheus.NewRegistry())
	r.NoError(err)
	processor := chain.NewProcessor(
		trace.Noop, &logging.NoLog{}, ruleFactory, workers.NewSerial(), auth.DefaultEngines(),
		mm, bh, vw, metrics, chain.NewDefaultConfig(),
	)

	// Child of genesis at height 1 with a timestamp decades before the genesis header timestamp
	childTs := int64(1_000)
	r.GreaterOrEqual(childTs, rules.GetMinEmptyBlockGap())
	r.GreaterOrEqual(childTs, rules.GetMinBlockGap())
	t.Logf("MinBlockGap=%d MinEmptyBlockGap=%d childTs=%d", rules.GetMinBlockGap(), rules.GetMinEmptyBlockGap(), childTs)
	child, err := chain.NewStatelessBlock(genesisBlk.GetID(), childTs, 1, nil, root, &block.Context{})
	r.NoError(err)

	out, err := processor.Execute(ctx, db, chain.NewExecutionBlock(child), true)
	t.Logf("Processor.Execute(child ts=%d, parent header ts=%d) err=%v", childTs, genesisBlk.GetTimestamp(), err)
	r.NoError(err)
	r.NotNil(out)
	r.Less(out.GetTimestamp(), genesisBlk.GetTimestamp(), "block 1 timestamp is BEFORE its parent's (genesis) header timestamp")
	t.Logf("ACCEPTED: block height=%d timestamp=%d < parent(genesis) header timestamp=%d (delta=%d ms)",
		out.GetHeight(), out.GetTimestamp(), genesisBlk.GetTimestamp(), genesisBlk.GetTimestamp()-out.GetTimestamp())

	// control: a child with timestamp below the gap relative to state timestamp 0 is rejected
	child2, err := chain.NewStatelessBlock(genesisBlk.GetID(), rules.GetMinEmptyBlockGap()-1, 1, nil, root, &block.Context{})
	r.NoError(err)
	_, err = processor.Execute(ctx, db, chain.NewExecutionBlock(child2), true)
	t.Logf("control (ts=%d) err=%v", rules.GetMinEmptyBlockGap()-1, err)
	r.Error(err)
}
