// Throw-away reproduction test (R3): EstimateUnits bandwidth ignores per-action tag+length prefix.

package chain_test

import (
	"bytes"
	"context"
	"testing"

	"github.com/stretchr/testify/require"

	"github.com/ava-labs/hypersdk/auth"
	"github.com/ava-labs/hypersdk/chain"
	"github.com/ava-labs/hypersdk/chain/chaintest"
	"github.com/ava-labs/hypersdk/crypto/ed25519"
	"github.com/ava-labs/hypersdk/genesis"
	"github.com/ava-labs/hypersdk/state"
	"github.com/ava-labs/hypersdk/state/balance"

	externalfees "github.com/ava-labs/hypersdk/fees"
)

func TestZZRepro3EstimateUnitsBandwidth(t *testing.T) {
	r := require.New(t)
	ctx := context.Background()

	rules := genesis.NewDefaultRules()
	rules.MaxActionsPerTx = 32
	bh := balance.NewPrefixBalanceHandler([]byte{0})

	priv, err := ed25519.GeneratePrivateKey()
	r.NoError(err)
	factory := auth.NewED25519Factory(priv)
	parser := chaintest.NewTestParser()
	_ = parser

	mkActions := func(n int, pad int) []chain.Action {
		actions := make([]chain.Action, n)
		for i := 0; i < n; i++ {
			actions[i] = &chaintest.TestAction{
				NumComputeUnits:              1,
				SpecifiedStateKeys:           []string{},
				SpecifiedStateKeyPermissions: []state.Permissions{},
				ReadKeys:                     [][]byte{},
				WriteKeys:                    [][]byte{},
				// padding only (never executed in this test)
				WriteValues: [][]byte{bytes.Repeat([]byte{0xab}, pad)},
				Start:       -1,
				End:         -1,
				Nonce:       uint64(i),
			}
		}
		return actions
	}

	for _, pad := range []int{0, 100, 200, 17000} {
		for _, n := range []int{1, 8, 16, 24, 32} {
			actions := mkActions(n, pad)
			actionLen := len(actions[0].Bytes())

			// Use a realistic, current timestamp: Base.Timestamp is a varint so large values matter.
			const now = int64(1_790_000_000_000)
			tx, err := chain.GenerateTransactionManual(rules, now, actions, factory, 1_000_000)
			r.NoError(err)
			r.NoError(tx.VerifyAuth(ctx))
			r.LessOrEqual(len(tx.Actions), int(rules.GetMaxActionsPerTx()))

			est, err := chain.EstimateUnits(rules, actions, factory)
			r.NoError(err)
			actual, err := tx.Units(bh, rules)
			r.NoError(err)
			r.Equal(uint64(tx.Size()), actual[externalfees.Bandwidth])

			verdict := "ok (estimate >= actual)"
			if est[externalfees.Bandwidth] < actual[externalfees.Bandwidth] {
				verdict = "UNDER-ESTIMATE"
			}
			t.Logf("actionLen=%5d n=%2d  estimate[Bandwidth]=%6d  actual[Bandwidth]=tx.Size()=%6d  diff(est-actual)=%4d  %s",
				actionLen, n, est[externalfees.Bandwidth], actual[externalfees.Bandwidth],
				int64(est[externalfees.Bandwidth])-int64(actual[externalfees.Bandwidth]), verdict)
		}
	}
}
