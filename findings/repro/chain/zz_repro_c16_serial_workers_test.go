package chain_test

import (
	"context"
	"encoding/binary"
	"math"
	"testing"
	"time"

	"github.com/ava-labs/avalanchego/ids"
	"github.com/ava-labs/avalanchego/snow/engine/snowman/block"
	"github.com/ava-labs/avalanchego/trace"
	"github.com/ava-labs/avalanchego/utils/logging"
	"github.com/prometheus/client_golang/prometheus"
	"github.com/stretchr/testify/require"

	"github.com/ava-labs/hypersdk/auth"
	"github.com/ava-labs/hypersdk/chain"
	"github.com/ava-labs/hypersdk/crypto"
	"github.com/ava-labs/hypersdk/crypto/ed25519"
	"github.com/ava-labs/hypersdk/genesis"
	"github.com/ava-labs/hypersdk/internal/validitywindow/validitywindowtest"
	"github.com/ava-labs/hypersdk/internal/workers"
	"github.com/ava-labs/hypersdk/state/balance"
	"github.com/ava-labs/hypersdk/state/metadata"
	"github.com/ava-labs/hypersdk/utils"
)

// slowEngines delegates to the real auth.DefaultEngines() but delays the
// asynchronous feeding of the batch verifier, which stands for "the feeder
// goroutine of chain.AuthBatch is scheduled late / the crypto in Add is slow".
type slowEngines struct {
	inner chain.AuthEngines
	delay time.Duration
}

type slowBatch struct {
	inner chain.AuthBatchVerifier
	delay time.Duration
}

func (s *slowEngines) GetAuthBatchVerifier(id uint8, cores int, count int) (chain.AuthBatchVerifier, bool) {
	bv, ok := s.inner.GetAuthBatchVerifier(id, cores, count)
	if !ok {
		return nil, false
	}
	return &slowBatch{bv, s.delay}, true
}

func (s *slowBatch) Add(msg []byte, a chain.Auth) func() error {
	time.Sleep(s.delay)
	return s.inner.Add(msg, a)
}

func (s *slowBatch) Done() []func() error { return s.inner.Done() }

func c16hExecuteInvalidSig(t *testing.T, w workers.Workers, engines chain.AuthEngines, numTxs int) error {
	r := require.New(t)
	ctx := context.Background()
	testRules := genesis.NewDefaultRules()
	mm := metadata.NewDefaultManager()
	bh := balance.NewPrefixBalanceHandler([]byte{0})

	state := map[string][]byte{
		string(chain.HeightKey(mm.HeightPrefix())):       binary.BigEndian.AppendUint64(nil, 0),
		string(chain.TimestampKey(mm.TimestampPrefix())): binary.BigEndian.AppendUint64(nil, 0),
		string(chain.FeeKey(mm.FeePrefix())):             {},
	}
	txs := make([]*chain.Transaction, 0, numTxs)
	for i := 0; i < numTxs; i++ {
		pk, err := ed25519.GeneratePrivateKey()
		r.NoError(err)
		// the signature is all zeroes: never valid for this tx
		a := &auth.ED25519{Signer: pk.PublicKey()}
		state[string(bh.BalanceKey(a.Sponsor()))] = binary.BigEndian.AppendUint64(nil, math.MaxUint64)
		tx, err := chain.NewTransaction(
			chain.Base{Timestamp: utils.UnixRMilli(testRules.GetMinEmptyBlockGap(), testRules.GetValidityWindow())},
			[]chain.Action{},
			a,
		)
		r.NoError(err)
		r.ErrorIs(tx.VerifyAuth(ctx), crypto.ErrInvalidSignature) // one-by-one verification rejects it
		txs = append(txs, tx)
	}
	view, err := createTestView(state)
	r.NoError(err)
	root, err := view.GetMerkleRoot(ctx)
	r.NoError(err)

	blk, err := chain.NewStatelessBlock(ids.Empty, testRules.GetMinBlockGap(), 1, txs, root, &block.Context{})
	r.NoError(err)

	metrics, err := chain.NewMetrics(prometheus.NewRegistry())
	r.NoError(err)
	processor := chain.NewProcessor(
		trace.Noop,
		&logging.NoLog{},
		&genesis.ImmutableRuleFactory{Rules: testRules},
		w,
		engines,
		mm,
		bh,
		&validitywindowtest.MockTimeValidityWindow[*chain.Transaction]{},
		metrics,
		chain.NewDefaultConfig(),
	)
	_, err = processor.Execute(ctx, view, chain.NewExecutionBlock(blk), false)
	return err
}

// Control: same block, same (delayed) engines, ParallelWorkers with 1 worker:
// the block is rejected. This test PASSES.
func TestC16hParallelRejectsInvalidSigSlowFeeder(t *testing.T) {
	w := workers.NewParallel(1, 10)
	defer w.Stop()
	err := c16hExecuteInvalidSig(t, w, &slowEngines{auth.DefaultEngines(), 300 * time.Millisecond}, 1)
	require.ErrorIs(t, err, crypto.ErrInvalidSignature)
}

// Deterministic schedule: SerialWorkers (Workers()==1) + the real ed25519 batch
// engine whose feeder goroutine runs late. SerialJob.Wait() returns before
// AuthBatch.Done() has run the batch, so Processor.Execute accepts a block
// whose only transaction carries an invalid (all-zero) ed25519 signature.
// FAILS on the current tree (err == nil).
func TestC16hSerialWorkersAcceptInvalidSigSlowFeeder(t *testing.T) {
	err := c16hExecuteInvalidSig(t, workers.NewSerial(), &slowEngines{auth.DefaultEngines(), 300 * time.Millisecond}, 1)
	require.ErrorIs(t, err, crypto.ErrInvalidSignature)
}

// No artificial delay: unmodified auth.DefaultEngines() and workers.NewSerial()
// (the combination chaintest.BlockBenchmark / BenchmarkExecuteBlocks uses when
// AuthVerificationCores <= 1). Blocks of 16 transactions whose ed25519
// signatures are ALL invalid are accepted in a large fraction of the rounds on
// a multi-core machine (observed 163/300). FAILS on the current tree.
func TestC16hSerialWorkersAcceptInvalidSigNatural(t *testing.T) {
	accepted := 0
	const rounds = 300
	for i := 0; i < rounds; i++ {
		if err := c16hExecuteInvalidSig(t, workers.NewSerial(), auth.DefaultEngines(), 16); err == nil {
			accepted++
		}
	}
	require.Zero(t, accepted, "blocks whose 16 ed25519 signatures are ALL invalid were accepted in %d of %d rounds", accepted, rounds)
}
