// Throw-away reproduction test (R1): Base.MaxFee is never enforced.

package chain_test

import (
	"context"
	"testing"

	"github.com/stretchr/testify/require"

	"github.com/ava-labs/hypersdk/auth"
	"github.com/ava-labs/hypersdk/chain"
	"github.com/ava-labs/hypersdk/chain/chaintest"
	"github.com/ava-labs/hypersdk/crypto/ed25519"
	"github.com/ava-labs/hypersdk/genesis"
	"github.com/ava-labs/hypersdk/internal/fees"
	"github.com/ava-labs/hypersdk/state/balance"
	"github.com/ava-labs/hypersdk/state/tstate"

	externalfees "github.com/ava-labs/hypersdk/fees"
)

func TestZZRepro1MaxFeeNotEnforced(t *testing.T) {
	r := require.New(t)
	ctx := context.Background()

	rules := genesis.NewDefaultRules()
	bh := balance.NewPrefixBalanceHandler([]byte{0})

	priv, err := ed25519.GeneratePrivateKey()
	r.NoError(err)
	factory := auth.NewED25519Factory(priv)
	sponsor := factory.Address()

	const timestamp = int64(1_000_000)
	const maxFee = uint64(1)
	txData := chain.NewTxData(
		chain.Base{
			Timestamp: timestamp + 10_000, // aligned to 1s, inside validity window
			ChainID:   rules.GetChainID(),
			MaxFee:    maxFee,
		},
		[]chain.Action{chaintest.NewDummyTestAction()},
	)
	tx, err := txData.Sign(factory)
	r.NoError(err)
	r.NoError(tx.VerifyAuth(ctx))
	r.Equal(maxFee, tx.MaxFee())

	// Fee manager with unit price 1000 in every dimension
	fm := fees.NewManager([]byte{})
	for i := 0; i < externalfees.FeeDimensions; i++ {
		fm.SetUnitPrice(externalfees.Dimension(i), 1000)
	}
	units, err := tx.Units(bh, rules)
	r.NoError(err)
	expectedFee, err := fm.Fee(units)
	r.NoError(err)
	t.Logf("tx.Base.MaxFee=%d units=%v unitPrices=%v fee=%d", tx.Base.MaxFee, units, fm.UnitPrices(), expectedFee)
	r.Greater(expectedFee, maxFee)

	// Fund sponsor
	const startBalance = uint64(1_000_000_000_000)
	store := chaintest.NewInMemoryStore()
	r.NoError(bh.AddBalance(ctx, sponsor, store, startBalance))

	// PreExecute passes although fee >> MaxFee
	err = tx.PreExecute(ctx, fm, bh, rules, store, timestamp)
	t.Logf("PreExecute err=%v", err)
	r.NoError(err)

	stateKeys, err := tx.StateKeys(bh)
	r.NoError(err)
	ts := tstate.New(1)
	tsv := ts.NewView(stateKeys, store, len(stateKeys))
	result, err := tx.Execute(ctx, fm, bh, rules, tsv, timestamp)
	t.Logf("Execute err=%v", err)
	r.NoError(err)
	r.True(result.Success, string(result.Error))
	tsv.Commit()

	endBalance, err := bh.GetBalance(ctx, sponsor, tsv)
	r.NoError(err)
	charged := startBalance - endBalance
	t.Logf("result.Success=%v result.Fee=%d charged=%d (start=%d end=%d) MaxFee=%d",
		result.Success, result.Fee, charged, startBalance, endBalance, tx.Base.MaxFee)
	r.Equal(expectedFee, result.Fee)
	r.Equal(expectedFee, charged)
	r.Greater(charged, tx.Base.MaxFee, "sponsor charged more than MaxFee")
}
