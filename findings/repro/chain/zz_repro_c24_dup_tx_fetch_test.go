// Copyright (C) 2024, Ava Labs, Inc. All rights reserved.
// See the file LICENSE for licensing terms.

package chain_test

import (
	"bytes"
	"context"
	"encoding/binary"
	"math"
	"sync"
	"testing"
	"time"

	"github.com/ava-labs/avalanchego/ids"
	"github.com/ava-labs/avalanchego/snow/engine/snowman/block"
	"github.com/ava-labs/avalanchego/trace"
	"github.com/ava-labs/avalanchego/utils/logging"
	"github.com/ava-labs/avalanchego/utils/units"
	"github.com/ava-labs/avalanchego/x/merkledb"
	"github.com/prometheus/client_golang/prometheus"
	"github.com/stretchr/testify/require"

	"github.com/ava-labs/hypersdk/chain"
	"github.com/ava-labs/hypersdk/chain/chaintest"
	"github.com/ava-labs/hypersdk/genesis"
	"github.com/ava-labs/hypersdk/internal/validitywindow/validitywindowtest"
	"github.com/ava-labs/hypersdk/internal/workers"
	"github.com/ava-labs/hypersdk/keys"
	"github.com/ava-labs/hypersdk/state"
	"github.com/ava-labs/hypersdk/state/balance"
	"github.com/ava-labs/hypersdk/state/metadata"
	"github.com/ava-labs/hypersdk/utils"
)

// c24SlowView is a parent view on which the read of [slowKey] completes (with the
// correct value) only some time after the read of [fastKey] completed. It returns
// exactly what the wrapped view returns; only the timing differs.
type c24SlowView struct {
	merkledb.View

	slowKey, fastKey []byte
	fastOnce         sync.Once
	fastDone         chan struct{}
}

func (v *c24SlowView) GetValue(ctx context.Context, key []byte) ([]byte, error) {
	switch {
	case bytes.Equal(key, v.fastKey):
		val, err := v.View.GetValue(ctx, key)
		v.fastOnce.Do(func() { close(v.fastDone) })
		return val, err
	case bytes.Equal(key, v.slowKey):
		<-v.fastDone
		time.Sleep(300 * time.Millisecond)
		return v.View.GetValue(ctx, key)
	default:
		return v.View.GetValue(ctx, key)
	}
}

// When a block that carries the same transaction twice reaches the processor without the
// replay check (isNormalOp == false: re-processing at start-up / while state syncing), the
// fetcher hands the transaction its "prefetched" storage as soon as the FIRST declared key
// arrived. The still unread key is simply missing from that storage, so the transaction sees
// its sponsor balance as absent although the parent state holds math.MaxUint64 for it.
// The outcome of executing the block therefore depends on read timing.
func TestC24DuplicateTxObservesAbsentBalance(t *testing.T) {
	testRules := genesis.NewDefaultRules()
	testMetadataManager := metadata.NewDefaultManager()
	feeKey := string(chain.FeeKey(testMetadataManager.FeePrefix()))
	heightKey := string(chain.HeightKey(testMetadataManager.HeightPrefix()))
	timestampKey := string(chain.TimestampKey(testMetadataManager.TimestampPrefix()))
	balanceHandler := balance.NewPrefixBalanceHandler([]byte{0})

	testAuth := chaintest.NewDummyTestAuth()
	balanceKey := balanceHandler.BalanceKey(testAuth.Sponsor())
	dataKey := keys.EncodeChunks([]byte("c24-some-data-key"), 1)

	newView := func(r *require.Assertions) merkledb.View {
		v, err := createTestView(map[string][]byte{
			heightKey:          binary.BigEndian.AppendUint64(nil, 0),
			timestampKey:       binary.BigEndian.AppendUint64(nil, 0),
			feeKey:             {},
			string(balanceKey): binary.BigEndian.AppendUint64(nil, math.MaxUint64),
			string(dataKey):    []byte("data"),
		})
		r.NoError(err)
		return v
	}

	newTx := func(r *require.Assertions) *chain.Transaction {
		tx, err := chain.NewTransaction(
			chain.Base{
				Timestamp: utils.UnixRMilli(
					testRules.GetMinBlockGap(),
					testRules.GetValidityWindow(),
				),
			},
			[]chain.Action{
				&chaintest.TestAction{
					NumComputeUnits:              1,
					Start:                        -1,
					End:                          -1,
					SpecifiedStateKeys:           []string{string(dataKey)},
					SpecifiedStateKeyPermissions: []state.Permissions{state.Read},
					ReadKeys:                     [][]byte{dataKey},
				},
			},
			testAuth,
		)
		r.NoError(err)
		return tx
	}

	run := func(t *testing.T, numCopies int) error {
		r := require.New(t)
		ctx := context.Background()

		metrics, err := chain.NewMetrics(prometheus.NewRegistry())
		r.NoError(err)
		processor := chain.NewProcessor(
			trace.Noop,
			&logging.NoLog{},
			&genesis.ImmutableRuleFactory{Rules: testRules},
			workers.NewSerial(),
			chaintest.NewDummyTestAuthEngines(),
			testMetadataManager,
			balanceHandler,
			&validitywindowtest.MockTimeValidityWindow[*chain.Transaction]{},
			metrics,
			chain.Config{
				TargetBuildDuration:       100 * time.Millisecond,
				TransactionExecutionCores: 2,
				StateFetchConcurrency:     2,
				TargetTxsSize:             1.5 * units.MiB,
			},
		)

		view := newView(r)
		root, err := view.GetMerkleRoot(ctx)
		r.NoError(err)

		tx := newTx(r)
		txs := make([]*chain.Transaction, numCopies)
		for i := range txs {
			txs[i] = tx
		}
		blk, err := chain.NewStatelessBlock(
			ids.Empty,
			testRules.GetMinBlockGap(),
			1,
			txs,
			root,
			&block.Context{},
		)
		r.NoError(err)

		slow := &c24SlowView{
			View:     view,
			slowKey:  balanceKey,
			fastKey:  dataKey,
			fastDone: make(chan struct{}),
		}
		// isNormalOp == false: no replay protection (as in vm.go start-up re-processing and
		// statesync.go), so nothing in front of the fetcher rejects the duplicate.
		_, err = processor.Execute(ctx, slow, chain.NewExecutionBlock(blk), false)
		return err
	}

	t.Run("control: one copy of the tx executes fine on the slow view", func(t *testing.T) {
		require.NoError(t, run(t, 1))
	})
	t.Run("two copies of the tx", func(t *testing.T) {
		// Both copies can pay (balance is MaxUint64) and read an existing key, so with the
		// values of the parent state the block executes. Instead it fails because the
		// transaction is executed against a storage map that lacks the balance key.
		require.NoError(t, run(t, 2))
	})
}
