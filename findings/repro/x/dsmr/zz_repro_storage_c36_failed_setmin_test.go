// Copyright (C) 2024, Ava Labs, Inc. All rights reserved.
// See the file LICENSE for licensing terms.

package dsmr

import (
	"testing"

	"github.com/ava-labs/avalanchego/database/memdb"
	"github.com/ava-labs/avalanchego/ids"
	"github.com/ava-labs/avalanchego/utils/set"
	"github.com/ava-labs/avalanchego/vms/platformvm/warp"
	"github.com/stretchr/testify/require"

	"github.com/ava-labs/hypersdk/codec"
	"github.com/ava-labs/hypersdk/x/dsmr/dsmrtest"
)

type c36State struct {
	Min      int64
	Pending  []string
	Weight   map[string]uint64
	Readable map[string]bool
}

func c36Observe(s *ChunkStorage[dsmrtest.Tx], chunks ...Chunk[dsmrtest.Tx]) c36State {
	st := c36State{Min: s.minimumExpiry, Weight: map[string]uint64{}, Readable: map[string]bool{}}
	for _, c := range chunks {
		if _, ok := s.pendingChunkMap[c.id]; ok {
			st.Pending = append(st.Pending, c.id.String())
		}
		_, err := s.GetChunkBytes(c.Expiry, c.id)
		st.Readable[c.id.String()] = err == nil
	}
	for n, w := range s.pendingChunksSizes {
		st.Weight[n.String()] = w
	}
	return st
}

// SetMin mutates the in-memory state (minimumExpiry, pendingChunkMap,
// pendingChunksSizes, emap) while it is still assembling the batch. When it
// then returns an error (unknown / already-accepted chunk id in saveChunks, or
// a failing batch write) nothing was written, so memory and database disagree:
// the chunk that was "saved" is neither pending nor accepted any more
// (GetChunkBytes -> not found) until the process restarts, at which point it
// reappears as pending and the minimum goes back.
func TestC36FailedSetMinDivergesFromDisk(t *testing.T) {
	require := require.New(t)

	db := memdb.New()
	verifier := testVerifier[dsmrtest.Tx]{correctIDs: set.NewSet[ids.ID](0), correctCerts: set.NewSet[*ChunkCertificate](0)}
	storage, err := NewChunkStorage[dsmrtest.Tx](verifier, db, testRuleFactory)
	require.NoError(err)

	mk := func(expiry int64) Chunk[dsmrtest.Tx] {
		chunk, err := newChunk(
			UnsignedChunk[dsmrtest.Tx]{
				Producer:    testDefaultProducer,
				Beneficiary: codec.Address{},
				Expiry:      expiry,
				Txs:         []dsmrtest.Tx{{ID: ids.GenerateTestID(), Expiry: 1_000_000}},
			},
			[48]byte{},
			[96]byte{},
		)
		require.NoError(err)
		return chunk
	}
	a, b, c := mk(10), mk(20), mk(3)
	for _, chunk := range []Chunk[dsmrtest.Tx]{a, b, c} {
		cert := &ChunkCertificate{ChunkReference: ChunkReference{ChunkID: chunk.id, Producer: chunk.Producer, Expiry: chunk.Expiry}, Signature: &warp.BitSetSignature{}}
		require.NoError(storage.AddLocalChunkWithCert(chunk, cert))
	}
	// first block: accepts b
	require.NoError(storage.SetMin(1, []ids.ID{b.id}))

	// second block: saves a, and (again) b which is not pending any more.
	// This is what Node.Accept does for a chunk it finds under the accepted prefix.
	require.Error(storage.SetMin(5, []ids.ID{a.id, b.id}))

	before := c36Observe(storage, a, b, c)

	reopened, err := NewChunkStorage[dsmrtest.Tx](verifier, db, testRuleFactory)
	require.NoError(err)
	after := c36Observe(reopened, a, b, c)

	require.Equal(before, after, "state before the restart differs from the state restored from the database")
}
