// Throw-away reproduction test (R5): Accept falls through to ParseChunk(nil) after fetching a missing chunk.

package dsmr

import (
	"context"
	"testing"
	"time"

	"github.com/ava-labs/avalanchego/database"
	"github.com/ava-labs/avalanchego/database/memdb"
	"github.com/ava-labs/avalanchego/ids"
	"github.com/ava-labs/avalanchego/network/p2p"
	"github.com/ava-labs/avalanchego/network/p2p/acp118"
	"github.com/ava-labs/avalanchego/network/p2p/p2ptest"
	"github.com/ava-labs/avalanchego/utils/crypto/bls/signer/localsigner"
	"github.com/ava-labs/avalanchego/utils/logging"
	"github.com/ava-labs/avalanchego/vms/platformvm/warp"
	"github.com/stretchr/testify/require"

	"github.com/ava-labs/hypersdk/codec"
	"github.com/ava-labs/hypersdk/internal/validitywindow/validitywindowtest"
	"github.com/ava-labs/hypersdk/x/dsmr/dsmrtest"
)

func TestZZRepro5AcceptFetchMissingChunk(t *testing.T) {
	r := require.New(t)
	ctx := context.Background()

	// Two validators. Both end up holding every chunk node1 builds (node2 stores it when it signs it).
	nodes := newTestNodes(t, 2)
	node1, node2 := nodes[0], nodes[1]
	validators := node1.chainState.(*testChainState).validators

	// node3: a fresh NON-validator node with empty chunk storage which is connected to the
	// GetChunk handlers of node1 and node2. It never saw any chunk (it is never asked to sign).
	sk3, err := localsigner.New()
	r.NoError(err)
	node3ID := ids.GenerateTestNodeID()
	chainState3 := newTestChainState(validators, 1, 1)
	verifier3 := NewChunkVerifier[dsmrtest.Tx](chainState3, testRuleFactory)
	storage3, err := NewChunkStorage[dsmrtest.Tx](verifier3, memdb.New(), testRuleFactory)
	r.NoError(err)
	getChunkHandler3 := &GetChunkHandler[dsmrtest.Tx]{storage: storage3}
	signer3 := warp.NewSigner(sk3, networkID, chainID)
	sigHandler3 := acp118.NewHandler(ChunkSignatureRequestVerifier[dsmrtest.Tx]{verifier: verifier3, storage: storage3}, signer3)
	gossipHandler3 := ChunkCertificateGossipHandler[dsmrtest.Tx]{storage: storage3}

	node3, err := New[dsmrtest.Tx](
		logging.NoLog{},
		node3ID,
		chainState3,
		sk3.PublicKey(),
		signer3,
		storage3,
		getChunkHandler3,
		sigHandler3,
		gossipHandler3,
		p2ptest.NewClientWithPeers(t, ctx, node3ID, getChunkHandler3, map[ids.NodeID]p2p.Handler{
			node1.ID: node1.GetChunkHandler,
			node2.ID: node2.GetChunkHandler,
		}),
		p2ptest.NewClientWithPeers(t, ctx, node3ID, sigHandler3, map[ids.NodeID]p2p.Handler{
			node1.ID: node1.GetChunkSignatureHandler,
			node2.ID: node2.GetChunkSignatureHandler,
		}),
		p2ptest.NewClientWithPeers(t, ctx, node3ID, gossipHandler3, map[ids.NodeID]p2p.Handler{
			node1.ID: node1.ChunkCertificateGossipHandler,
			node2.ID: node2.ChunkCertificateGossipHandler,
		}),
		node1.LastAccepted,
		&validitywindowtest.MockTimeValidityWindow[*emapChunkCertificate]{},
		testRuleFactory,
	)
	r.NoError(err)

	// node1 builds a chunk and a block containing its certificate
	r.NoError(node1.BuildChunk(ctx, []dsmrtest.Tx{{ID: ids.GenerateTestID(), Expiry: 123}}, 123, codec.Address{123}))
	blk, err := node1.BuildBlock(ctx, node1.LastAccepted, node1.LastAccepted.Timestamp+1)
	r.NoError(err)
	r.Len(blk.ChunkCerts, 1)
	cert := blk.ChunkCerts[0]

	// sanity: node3 does not have the chunk, node1/node2 do
	_, err = node3.storage.GetChunkBytes(cert.Expiry, cert.ChunkID)
	r.ErrorIs(err, database.ErrNotFound)
	_, err = node1.storage.GetChunkBytes(cert.Expiry, cert.ChunkID)
	r.NoError(err)
	_, err = node2.storage.GetChunkBytes(cert.Expiry, cert.ChunkID)
	r.NoError(err)

	r.NoError(node3.Verify(ctx, node3.LastAccepted, blk))

	type res struct {
		blk ExecutedBlock[dsmrtest.Tx]
		err error
	}
	done := make(chan res, 1)
	go func() {
		eb, err := node3.Accept(ctx, blk)
		done <- res{eb, err}
	}()
	select {
	case out := <-done:
		// After Accept returned, the remote fetch DID succeed: the chunk is now in node3's storage.
		_, gerr := node3.storage.GetChunkBytes(cert.Expiry, cert.ChunkID)
		t.Logf("node3 has chunk after Accept (remote fetch succeeded): %v", gerr == nil)
		t.Logf("node3.Accept err = %v ; executed chunks = %d", out.err, len(out.blk.Chunks))
		r.NoError(gerr, "remote fetch should have stored the chunk")
		r.Error(out.err, "suspected defect: Accept fails although the chunk was fetched successfully")
	case <-time.After(20 * time.Second):
		t.Fatal("Accept did not return within 20s")
	}
}
