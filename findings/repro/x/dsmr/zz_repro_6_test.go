// Throw-away reproduction test (R6): Verify does not compare chunk certificate Expiry with block timestamp.

package dsmr

import (
	"context"
	"testing"

	"github.com/ava-labs/avalanchego/ids"
	"github.com/ava-labs/avalanchego/trace"
	"github.com/ava-labs/avalanchego/utils/logging"
	"github.com/ava-labs/avalanchego/utils/wrappers"
	"github.com/stretchr/testify/require"

	"github.com/ava-labs/hypersdk/codec"
	"github.com/ava-labs/hypersdk/consts"
	"github.com/ava-labs/hypersdk/internal/validitywindow"
	"github.com/ava-labs/hypersdk/internal/validitywindow/validitywindowtest"
	"github.com/ava-labs/hypersdk/utils"
	"github.com/ava-labs/hypersdk/x/dsmr/dsmrtest"
)

func TestZZRepro6VerifyAcceptsExpiredCert(t *testing.T) {
	r := require.New(t)
	ctx := context.Background()

	node := newTestNode(t)
	parent := node.LastAccepted

	// Use the REAL time validity window (not the mock used by newTestNodes)
	chainIndex := &validitywindowtest.MockChainIndex[*emapChunkCertificate]{}
	chainIndex.Set(parent.GetID(), NewValidityWindowBlock(parent))
	vw, err := validitywindow.NewTimeValidityWindow[*emapChunkCertificate](
		ctx, logging.NoLog{}, trace.Noop, chainIndex, NewValidityWindowBlock(parent),
		func(ts int64) int64 { return testRuleFactory.GetRules(ts).GetValidityWindow() },
	)
	r.NoError(err)
	node.validityWindow = vw

	const expiry = int64(123)
	r.NoError(node.BuildChunk(ctx, []dsmrtest.Tx{{ID: ids.GenerateTestID(), Expiry: expiry}}, expiry, codec.Address{123}))

	// BuildBlock refuses to include the (by then expired) certificate at timestamp 200
	const blkTimestamp = int64(200)
	_, err = node.BuildBlock(ctx, parent, blkTimestamp)
	t.Logf("BuildBlock(timestamp=%d) with only cert expiry=%d: err=%v", blkTimestamp, expiry, err)
	r.ErrorIs(err, ErrNoAvailableChunkCerts)

	// ... but a (byzantine) proposer can put it into a block by hand
	certs := node.storage.GatherChunkCerts()
	r.Len(certs, 1)
	r.Equal(expiry, certs[0].Expiry)
	blk := Block{
		BlockHeader: BlockHeader{
			ParentID:  parent.GetID(),
			Height:    parent.Height + 1,
			Timestamp: blkTimestamp,
		},
		ChunkCerts: certs,
	}
	packer := wrappers.Packer{Bytes: make([]byte, 0, InitialChunkSize), MaxSize: consts.NetworkSizeLimit}
	r.NoError(codec.LinearCodec.MarshalInto(blk, &packer))
	blk.blkBytes = packer.Bytes
	blk.blkID = utils.ToID(blk.blkBytes)

	r.Less(blk.ChunkCerts[0].Expiry, blk.Timestamp)
	err = node.Verify(ctx, parent, blk)
	t.Logf("Verify(block.Timestamp=%d, cert.Expiry=%d, parent.Timestamp=%d) err=%v", blk.Timestamp, blk.ChunkCerts[0].Expiry, parent.Timestamp, err)
	r.NoError(err, "suspected defect: block with expired certificate passes Verify")

	// and Accept also goes through
	executed, err := node.Accept(ctx, blk)
	t.Logf("Accept err=%v chunks=%d (chunk expiry=%d, block timestamp=%d)", err, len(executed.Chunks), expiry, blkTimestamp)
	r.NoError(err)
	r.Len(executed.Chunks, 1)
	r.Less(executed.Chunks[0].Expiry, executed.Timestamp)
}
