// Copyright (C) 2024, Ava Labs, Inc. All rights reserved.
// See the file LICENSE for licensing terms.

package dsmr

import (
	"context"
	"math/rand"
	"testing"

	"github.com/ava-labs/avalanchego/database/memdb"
	"github.com/ava-labs/avalanchego/ids"
	"github.com/ava-labs/avalanchego/utils/set"
	"github.com/ava-labs/avalanchego/vms/platformvm/warp"
	"github.com/stretchr/testify/require"

	"github.com/ava-labs/hypersdk/codec"
	"github.com/ava-labs/hypersdk/x/dsmr/dsmrtest"
)

type c36Snapshot struct {
	min     int64
	pending map[ids.ID]bool
	sizes   map[ids.NodeID]uint64
	bytes   map[ids.ID]string // "" => not found
}

func c36Snap(s *ChunkStorage[dsmrtest.Tx], all []Chunk[dsmrtest.Tx]) c36Snapshot {
	snap := c36Snapshot{
		min:     s.minimumExpiry,
		pending: map[ids.ID]bool{},
		sizes:   map[ids.NodeID]uint64{},
		bytes:   map[ids.ID]string{},
	}
	for id := range s.pendingChunkMap {
		snap.pending[id] = true
	}
	for n, w := range s.pendingChunksSizes {
		snap.sizes[n] = w
	}
	for _, c := range all {
		b, err := s.GetChunkBytes(c.Expiry, c.id)
		if err == nil {
			snap.bytes[c.id] = string(b)
		} else {
			snap.bytes[c.id] = ""
		}
	}
	return snap
}

func TestC36RandomHistories(t *testing.T) {
	for seed := int64(0); seed < 300; seed++ {
		rng := rand.New(rand.NewSource(seed)) //nolint:gosec
		require := require.New(t)
		producers := []ids.NodeID{ids.GenerateTestNodeID(), ids.GenerateTestNodeID(), ids.GenerateTestNodeID()}
		db := memdb.New()
		verifier := testVerifier[dsmrtest.Tx]{correctIDs: set.NewSet[ids.ID](0), correctCerts: set.NewSet[*ChunkCertificate](0)}
		storage, err := NewChunkStorage[dsmrtest.Tx](verifier, db, testRuleFactory)
		require.NoError(err)

		var all []Chunk[dsmrtest.Tx]
		curMin := int64(0)
		steps := 5 + rng.Intn(40)
		for i := 0; i < steps; i++ {
			switch op := rng.Intn(10); {
			case op < 4: // add
				expiry := curMin + int64(rng.Intn(8)) - 2
				chunk, err := newChunk(
					UnsignedChunk[dsmrtest.Tx]{
						Producer:    producers[rng.Intn(len(producers))],
						Beneficiary: codec.Address{},
						Expiry:      expiry,
						Txs:         []dsmrtest.Tx{{ID: ids.GenerateTestID(), Expiry: 1_000_000}},
					},
					[48]byte{},
					[96]byte{},
				)
				require.NoError(err)
				all = append(all, chunk)
				if rng.Intn(2) == 0 {
					var cert *ChunkCertificate
					if rng.Intn(2) == 0 {
						cert = &ChunkCertificate{ChunkReference: ChunkReference{ChunkID: chunk.id, Producer: chunk.Producer, Expiry: chunk.Expiry}, Signature: &warp.BitSetSignature{}}
					}
					require.NoError(storage.AddLocalChunkWithCert(chunk, cert))
				} else {
					verifier.correctIDs.Add(chunk.id)
					_, err := storage.VerifyRemoteChunk(chunk)
					require.NoError(err)
				}
			case op < 5: // re-add an existing chunk locally (maybe already accepted / expired)
				if len(all) == 0 {
					continue
				}
				chunk := all[rng.Intn(len(all))]
				require.NoError(storage.AddLocalChunkWithCert(chunk, nil))
			case op < 6: // set cert
				if len(all) == 0 {
					continue
				}
				chunk := all[rng.Intn(len(all))]
				cert := &ChunkCertificate{ChunkReference: ChunkReference{ChunkID: chunk.id, Producer: chunk.Producer, Expiry: chunk.Expiry}, Signature: &warp.BitSetSignature{}}
				verifier.correctCerts.Add(cert)
				_ = storage.SetChunkCert(context.Background(), chunk.id, cert)
			case op < 9: // SetMin
				curMin += int64(rng.Intn(4))
				var save []ids.ID
				for id := range storage.pendingChunkMap {
					if rng.Intn(3) == 0 {
						save = append(save, id)
					}
				}
				require.NoError(storage.SetMin(curMin, save))
			default: // restart in the middle
				before := c36Snap(storage, all)
				storage, err = NewChunkStorage[dsmrtest.Tx](verifier, db, testRuleFactory)
				require.NoError(err)
				require.Equal(before, c36Snap(storage, all), "seed %d step %d", seed, i)
			}
		}
		before := c36Snap(storage, all)
		storage, err = NewChunkStorage[dsmrtest.Tx](verifier, db, testRuleFactory)
		require.NoError(err)
		require.Equal(before, c36Snap(storage, all), "seed %d final", seed)
	}
}
