// Copyright (C) 2024, Ava Labs, Inc. All rights reserved.
// See the file LICENSE for licensing terms.

package dsmr

import (
	"context"
	"testing"

	"github.com/ava-labs/avalanchego/database/memdb"
	"github.com/ava-labs/avalanchego/ids"
	"github.com/ava-labs/avalanchego/utils/set"
	"github.com/ava-labs/avalanchego/vms/platformvm/warp"
	"github.com/stretchr/testify/assert"
	"github.com/stretchr/testify/require"

	"github.com/ava-labs/hypersdk/codec"
	"github.com/ava-labs/hypersdk/x/dsmr/dsmrtest"
)

// Certificates are (by design) not persisted, so every pending chunk comes back
// with Cert == nil. VerifyRemoteChunk dereferences Cert unconditionally for a
// chunk that is already pending, so a call that returned the signature before
// the restart panics after it. (The same nil dereference is reachable without a
// restart for a remote chunk whose certificate never arrived.)
func TestC36VerifyRemoteChunkOfPendingChunkAfterReopen(t *testing.T) {
	require := require.New(t)

	db := memdb.New()
	verifier := testVerifier[dsmrtest.Tx]{correctIDs: set.NewSet[ids.ID](0), correctCerts: set.NewSet[*ChunkCertificate](0)}
	storage, err := NewChunkStorage[dsmrtest.Tx](verifier, db, testRuleFactory)
	require.NoError(err)

	chunk, err := newChunk(
		UnsignedChunk[dsmrtest.Tx]{
			Producer:    testDefaultProducer,
			Beneficiary: codec.Address{},
			Expiry:      10,
			Txs:         []dsmrtest.Tx{{ID: ids.GenerateTestID(), Expiry: 1_000_000}},
		},
		[48]byte{},
		[96]byte{},
	)
	require.NoError(err)
	verifier.correctIDs.Add(chunk.id)
	cert := &ChunkCertificate{ChunkReference: ChunkReference{ChunkID: chunk.id, Producer: chunk.Producer, Expiry: chunk.Expiry}, Signature: &warp.BitSetSignature{}}
	require.NoError(storage.AddLocalChunkWithCert(chunk, cert))

	sig, err := storage.VerifyRemoteChunk(chunk)
	require.NoError(err)
	require.Equal(cert.Signature, sig)

	reopened, err := NewChunkStorage[dsmrtest.Tx](verifier, db, testRuleFactory)
	require.NoError(err)
	assert.NotPanics(t, func() {
		_, err = reopened.VerifyRemoteChunk(chunk)
	}, "re-delivery of a pending chunk after a restart")

	// no restart needed either: a remote chunk delivered twice before its cert arrives
	other, err := newChunk(
		UnsignedChunk[dsmrtest.Tx]{
			Producer:    testDefaultProducer,
			Beneficiary: codec.Address{},
			Expiry:      11,
			Txs:         []dsmrtest.Tx{{ID: ids.GenerateTestID(), Expiry: 1_000_000}},
		},
		[48]byte{},
		[96]byte{},
	)
	require.NoError(err)
	verifier.correctIDs.Add(other.id)
	_, err = reopened.VerifyRemoteChunk(other)
	require.NoError(err)
	assert.NotPanics(t, func() {
		_, err = reopened.VerifyRemoteChunk(other)
	}, "re-delivery of a remote chunk without a certificate")

	// the same through the p2p signature-request path: the producer (or anybody
	// replaying its request) asks twice for a signature over the same chunk
	third, err := newChunk(
		UnsignedChunk[dsmrtest.Tx]{
			Producer:    testDefaultProducer,
			Beneficiary: codec.Address{},
			Expiry:      12,
			Txs:         []dsmrtest.Tx{{ID: ids.GenerateTestID(), Expiry: 1_000_000}},
		},
		[48]byte{},
		[96]byte{},
	)
	require.NoError(err)
	verifier.correctIDs.Add(third.id)
	requestVerifier := ChunkSignatureRequestVerifier[dsmrtest.Tx]{verifier: verifier, storage: reopened}
	require.Nil(requestVerifier.Verify(context.Background(), nil, third.bytes))
	assert.NotPanics(t, func() {
		_ = requestVerifier.Verify(context.Background(), nil, third.bytes)
	}, "second signature request for the same chunk")
}
