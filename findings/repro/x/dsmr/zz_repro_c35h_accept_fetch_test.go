// Copyright (C) 2024, Ava Labs, Inc. All rights reserved.
// See the file LICENSE for licensing terms.

package dsmr

import (
	"context"
	"sync/atomic"
	"testing"
	"time"

	"github.com/ava-labs/avalanchego/database/memdb"
	"github.com/ava-labs/avalanchego/ids"
	"github.com/ava-labs/avalanchego/network/p2p"
	"github.com/ava-labs/avalanchego/network/p2p/acp118"
	"github.com/ava-labs/avalanchego/network/p2p/p2ptest"
	"github.com/ava-labs/avalanchego/proto/pb/sdk"
	"github.com/ava-labs/avalanchego/snow/engine/common"
	"github.com/ava-labs/avalanchego/utils/crypto/bls/signer/localsigner"
	"github.com/ava-labs/avalanchego/utils/logging"
	"github.com/ava-labs/avalanchego/utils/wrappers"
	"github.com/ava-labs/avalanchego/vms/platformvm/warp"
	"github.com/stretchr/testify/require"
	"google.golang.org/protobuf/proto"

	"github.com/ava-labs/hypersdk/codec"
	"github.com/ava-labs/hypersdk/internal/validitywindow/validitywindowtest"
	"github.com/ava-labs/hypersdk/proto/pb/dsmr"
	"github.com/ava-labs/hypersdk/x/dsmr/dsmrtest"
)

// c35hWrongChunkPeer is a GetChunk peer that answers its first `wrongAnswers`
// requests with the bytes of some OTHER (but perfectly valid: validator
// producer, valid signature, acceptable expiry) chunk, and behaves honestly
// (delegates to a real GetChunkHandler) afterwards.
type c35hWrongChunkPeer struct {
	honest       p2p.Handler
	wrongChunk   []byte
	wrongAnswers int32
	requests     *atomic.Int32
}

func (*c35hWrongChunkPeer) AppGossip(context.Context, ids.NodeID, []byte) {}

func (w *c35hWrongChunkPeer) AppRequest(ctx context.Context, nodeID ids.NodeID, deadline time.Time, requestBytes []byte) ([]byte, *common.AppError) {
	if w.requests.Add(1) <= w.wrongAnswers {
		responseBytes, err := proto.Marshal(&dsmr.GetChunkResponse{Chunk: w.wrongChunk})
		if err != nil {
			return nil, &common.AppError{Code: common.ErrUndefined.Code, Message: err.Error()}
		}
		return responseBytes, nil
	}
	return w.honest.AppRequest(ctx, nodeID, deadline, requestBytes)
}

// c35hNewSyncingNode creates a node with an EMPTY (real) chunk storage that
// follows the chain of [validatorNodes] and whose GetChunk peers are [peers].
func c35hNewSyncingNode(
	t *testing.T,
	validatorNodes []*Node[dsmrtest.Tx],
	lastAccepted Block,
	peers map[ids.NodeID]p2p.Handler,
) *Node[dsmrtest.Tx] {
	r := require.New(t)

	vdrs := make([]Validator, 0, len(validatorNodes))
	for _, n := range validatorNodes {
		vdrs = append(vdrs, Validator{NodeID: n.ID, Weight: 1, PublicKey: n.PublicKey})
	}
	chainState := newTestChainState(vdrs, 1, 1)
	verifier := NewChunkVerifier[dsmrtest.Tx](chainState, testRuleFactory)
	storage, err := NewChunkStorage[dsmrtest.Tx](verifier, memdb.New(), testRuleFactory)
	r.NoError(err)

	nodeID := ids.GenerateTestNodeID()
	sk, err := localsigner.New()
	r.NoError(err)
	signer := warp.NewSigner(sk, networkID, chainID)
	getChunkHandler := &GetChunkHandler[dsmrtest.Tx]{storage: storage}
	// the real chunk signature request handler, exactly as wired by newTestNodes
	chunkSignatureRequestHandler := acp118.NewHandler(ChunkSignatureRequestVerifier[dsmrtest.Tx]{
		verifier: verifier,
		storage:  storage,
	}, signer)
	node, err := New[dsmrtest.Tx](
		logging.NoLog{},
		nodeID,
		chainState,
		sk.PublicKey(),
		signer,
		storage,
		getChunkHandler,
		chunkSignatureRequestHandler,
		ChunkCertificateGossipHandler[dsmrtest.Tx]{storage: storage},
		p2ptest.NewClientWithPeers(t, context.Background(), nodeID, getChunkHandler, peers),
		p2ptest.NewClientWithPeers(t, context.Background(), nodeID, p2p.NoOpHandler{}, map[ids.NodeID]p2p.Handler{}),
		p2ptest.NewClientWithPeers(t, context.Background(), nodeID, p2p.NoOpHandler{}, map[ids.NodeID]p2p.Handler{}),
		lastAccepted,
		&validitywindowtest.MockTimeValidityWindow[*emapChunkCertificate]{},
		testRuleFactory,
	)
	r.NoError(err)
	return node
}

// c35hSetup makes two validators produce + accept a block that references
// exactly one chunk (C1), and then produce a second valid chunk (C2) that is
// not referenced by the block. It returns the validators, the parent of the
// block, the block, and the bytes of C2.
func c35hSetup(t *testing.T) (nodes []*Node[dsmrtest.Tx], parent Block, blk Block, otherChunkBytes []byte) {
	r := require.New(t)
	ctx := context.Background()

	nodes = newTestNodes(t, 2)
	node1, node2 := nodes[0], nodes[1]
	parent = node1.LastAccepted

	// C1: the chunk referenced by the block
	r.NoError(node1.BuildChunk(ctx, []dsmrtest.Tx{{ID: ids.GenerateTestID(), Expiry: 123}}, 123, codec.Address{1}))
	blk, err := node1.BuildBlock(ctx, parent, parent.Timestamp+1)
	r.NoError(err)
	r.Len(blk.ChunkCerts, 1)
	c1 := blk.ChunkCerts[0]

	// C2: another valid chunk of the same (validator) producer
	r.NoError(node1.BuildChunk(ctx, []dsmrtest.Tx{{ID: ids.GenerateTestID(), Expiry: 124}}, 124, codec.Address{2}))
	for _, cert := range node1.storage.GatherChunkCerts() {
		if cert.ChunkID != c1.ChunkID {
			otherChunkBytes, err = node1.storage.GetChunkBytes(cert.Expiry, cert.ChunkID)
			r.NoError(err)
		}
	}
	r.NotEmpty(otherChunkBytes)

	// both validators hold C1 locally and accept the block
	for _, n := range nodes {
		r.NoError(n.Verify(ctx, n.LastAccepted, blk))
		executed, err := n.Accept(ctx, blk)
		r.NoError(err)
		r.Len(executed.Chunks, 1)
		r.Equal(c1.ChunkID, executed.Chunks[0].id)
	}
	_ = node2
	return nodes, parent, blk, otherChunkBytes
}

// Baseline: the remote-fetch branch of Accept works when the peers are honest.
func TestC35h_Accept_FetchesMissingChunkFromHonestPeers(t *testing.T) {
	r := require.New(t)
	ctx := context.Background()

	nodes, parent, blk, _ := c35hSetup(t)
	syncing := c35hNewSyncingNode(t, nodes, parent, map[ids.NodeID]p2p.Handler{
		nodes[0].ID: nodes[0].GetChunkHandler,
		nodes[1].ID: nodes[1].GetChunkHandler,
	})

	r.NoError(syncing.Verify(ctx, syncing.LastAccepted, blk))
	executed, err := syncing.Accept(ctx, blk)
	r.NoError(err)
	r.Len(executed.Chunks, 1)
	r.Equal(blk.ChunkCerts[0].ChunkID, executed.Chunks[0].id)
}

// A peer answers the first GetChunk request with a DIFFERENT valid chunk, every
// later request is answered honestly. Accept must not take the wrong chunk for
// the referenced one: it has to keep asking until it gets the referenced chunk
// and then succeed with exactly that chunk.
func TestC35h_Accept_PeerServesDifferentValidChunk(t *testing.T) {
	r := require.New(t)
	ctx := context.Background()

	nodes, parent, blk, otherChunkBytes := c35hSetup(t)
	requests := &atomic.Int32{}
	syncing := c35hNewSyncingNode(t, nodes, parent, map[ids.NodeID]p2p.Handler{
		nodes[0].ID: &c35hWrongChunkPeer{honest: nodes[0].GetChunkHandler, wrongChunk: otherChunkBytes, wrongAnswers: 1, requests: requests},
		nodes[1].ID: &c35hWrongChunkPeer{honest: nodes[1].GetChunkHandler, wrongChunk: otherChunkBytes, wrongAnswers: 1, requests: requests},
	})

	r.NoError(syncing.Verify(ctx, syncing.LastAccepted, blk))

	type result struct {
		executed ExecutedBlock[dsmrtest.Tx]
		err      error
	}
	done := make(chan result, 1)
	go func() {
		executed, err := syncing.Accept(ctx, blk)
		done <- result{executed, err}
	}()

	var res result
	select {
	case res = <-done:
	case <-time.After(30 * time.Second):
		r.FailNow("Accept did not return")
	}

	wantID := blk.ChunkCerts[0].ChunkID
	gotIDs := make([]ids.ID, 0, len(res.executed.Chunks))
	for _, c := range res.executed.Chunks {
		gotIDs = append(gotIDs, c.id)
	}
	t.Logf("GetChunk requests served: %d; Accept err: %v; executed chunk ids: %v; referenced chunk id: %s",
		requests.Load(), res.err, gotIDs, wantID)

	r.NoError(res.err, "Accept must succeed once a peer serves the referenced chunk")
	r.Equal([]ids.ID{wantID}, gotIDs, "executed block must contain exactly the referenced chunk")
	r.Equal(blk.GetID(), syncing.LastAccepted.GetID())
}

// c35hSwapChunkPeer is a GetChunk peer that, before answering a GetChunk
// request, hands the REQUESTED chunk to the requester through the requester's
// own (real) chunk signature request handler - which stores it as a pending
// chunk - and then answers the GetChunk request with a DIFFERENT valid chunk.
// It does so for the first request only; later requests are answered honestly.
type c35hSwapChunkPeer struct {
	id                   ids.NodeID
	honest               p2p.Handler
	requests             *atomic.Int32
	storage              *ChunkStorage[dsmrtest.Tx] // the peer's own storage, holds both chunks
	wrongChunk           []byte
	requesterSigHandler  p2p.Handler // the requester's GetChunkSignatureHandler
	signatureRequestErrs chan *common.AppError
}

func (*c35hSwapChunkPeer) AppGossip(context.Context, ids.NodeID, []byte) {}

func (w *c35hSwapChunkPeer) AppRequest(ctx context.Context, nodeID ids.NodeID, deadline time.Time, requestBytes []byte) ([]byte, *common.AppError) {
	if w.requests.Add(1) > 1 {
		return w.honest.AppRequest(ctx, nodeID, deadline, requestBytes)
	}
	request := dsmr.GetChunkRequest{}
	if err := proto.Unmarshal(requestBytes, &request); err != nil {
		return nil, &common.AppError{Code: common.ErrUndefined.Code, Message: err.Error()}
	}
	chunkID, err := ids.ToID(request.ChunkId)
	if err != nil {
		return nil, &common.AppError{Code: common.ErrUndefined.Code, Message: err.Error()}
	}
	requestedChunkBytes, err := w.storage.GetChunkBytes(request.Expiry, chunkID)
	if err != nil {
		return nil, ErrChunkNotAvailable
	}
	requestedChunk, err := ParseChunk[dsmrtest.Tx](requestedChunkBytes)
	if err != nil {
		return nil, &common.AppError{Code: common.ErrUndefined.Code, Message: err.Error()}
	}

	// 1. ask the requester to sign the chunk it is looking for (an ordinary
	//    chunk signature request) and wait for its answer
	packer := wrappers.Packer{MaxSize: MaxMessageSize}
	if err := codec.LinearCodec.MarshalInto(ChunkReference{
		ChunkID:  requestedChunk.id,
		Producer: requestedChunk.Producer,
		Expiry:   requestedChunk.Expiry,
	}, &packer); err != nil {
		return nil, &common.AppError{Code: common.ErrUndefined.Code, Message: err.Error()}
	}
	msg, err := warp.NewUnsignedMessage(networkID, chainID, packer.Bytes)
	if err != nil {
		return nil, &common.AppError{Code: common.ErrUndefined.Code, Message: err.Error()}
	}
	sigRequestBytes, err := proto.Marshal(&sdk.SignatureRequest{
		Message:       msg.Bytes(),
		Justification: requestedChunkBytes,
	})
	if err != nil {
		return nil, &common.AppError{Code: common.ErrUndefined.Code, Message: err.Error()}
	}
	_, appErr := w.requesterSigHandler.AppRequest(ctx, w.id, deadline, sigRequestBytes)
	w.signatureRequestErrs <- appErr

	// 2. answer the GetChunk request with another valid chunk
	responseBytes, err := proto.Marshal(&dsmr.GetChunkResponse{Chunk: w.wrongChunk})
	if err != nil {
		return nil, &common.AppError{Code: common.ErrUndefined.Code, Message: err.Error()}
	}
	return responseBytes, nil
}

// A peer first hands the referenced chunk C1 to the accepting node as a chunk
// signature request and then answers the node's GetChunk(C1) request with the
// valid chunk C2. Accept must still return C1 (or fail / retry) - it must never
// SUCCEED with an executed block that contains C2 instead of the chunk the
// block's certificate references.
func TestC35h_Accept_SucceedsWithUnreferencedChunk(t *testing.T) {
	r := require.New(t)
	ctx := context.Background()

	nodes, parent, blk, otherChunkBytes := c35hSetup(t)
	sigErrs := make(chan *common.AppError, 16)
	requests := &atomic.Int32{}
	peers := map[ids.NodeID]p2p.Handler{}
	byzantine := make([]*c35hSwapChunkPeer, 0, len(nodes))
	for _, n := range nodes {
		peer := &c35hSwapChunkPeer{id: n.ID, honest: n.GetChunkHandler, requests: requests, storage: n.storage, wrongChunk: otherChunkBytes, signatureRequestErrs: sigErrs}
		byzantine = append(byzantine, peer)
		peers[n.ID] = peer
	}
	syncing := c35hNewSyncingNode(t, nodes, parent, peers)
	for _, peer := range byzantine {
		peer.requesterSigHandler = syncing.GetChunkSignatureHandler
	}

	r.NoError(syncing.Verify(ctx, syncing.LastAccepted, blk))

	type result struct {
		executed ExecutedBlock[dsmrtest.Tx]
		err      error
	}
	done := make(chan result, 1)
	go func() {
		executed, err := syncing.Accept(ctx, blk)
		done <- result{executed, err}
	}()
	var res result
	select {
	case res = <-done:
	case <-time.After(30 * time.Second):
		r.FailNow("Accept did not return")
	}
	// the requester accepted (signed) the chunk signature request for C1
	r.Nil(<-sigErrs)

	wantID := blk.ChunkCerts[0].ChunkID
	gotIDs := make([]ids.ID, 0, len(res.executed.Chunks))
	for _, c := range res.executed.Chunks {
		gotIDs = append(gotIDs, c.id)
	}
	t.Logf("Accept err: %v; executed chunk ids: %v; referenced chunk id: %s", res.err, gotIDs, wantID)

	if res.err == nil {
		r.Equal([]ids.ID{wantID}, gotIDs, "Accept succeeded but the executed block does not contain the referenced chunk")
	}
	r.NoError(res.err)
}
