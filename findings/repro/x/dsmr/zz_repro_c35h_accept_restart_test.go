// Copyright (C) 2024, Ava Labs, Inc. All rights reserved.
// See the file LICENSE for licensing terms.

package dsmr

import (
	"context"
	"sync/atomic"
	"testing"
	"time"

	"github.com/ava-labs/avalanchego/database"
	"github.com/ava-labs/avalanchego/database/memdb"
	"github.com/ava-labs/avalanchego/ids"
	"github.com/ava-labs/avalanchego/network/p2p"
	"github.com/ava-labs/avalanchego/network/p2p/p2ptest"
	"github.com/ava-labs/avalanchego/snow/engine/common"
	"github.com/ava-labs/avalanchego/utils/logging"
	"github.com/stretchr/testify/require"

	"github.com/ava-labs/hypersdk/codec"
	"github.com/ava-labs/hypersdk/internal/validitywindow/validitywindowtest"
	"github.com/ava-labs/hypersdk/x/dsmr/dsmrtest"
)

// c35hCountingPeer is an honest GetChunk peer (delegates to a real
// GetChunkHandler) that counts how many chunks it served successfully.
type c35hCountingPeer struct {
	honest p2p.Handler
	served *atomic.Int32
}

func (*c35hCountingPeer) AppGossip(context.Context, ids.NodeID, []byte) {}

func (c *c35hCountingPeer) AppRequest(ctx context.Context, nodeID ids.NodeID, deadline time.Time, requestBytes []byte) ([]byte, *common.AppError) {
	response, appErr := c.honest.AppRequest(ctx, nodeID, deadline, requestBytes)
	if appErr == nil {
		c.served.Add(1)
	}
	return response, appErr
}

// c35hStartFollower (re)starts a non-validator node on [db]: a new
// ChunkVerifier, a new ChunkStorage opened on [db] and a new Node, i.e. what a
// process start does. Its GetChunk peers are the (honest) validators.
func c35hStartFollower(
	t *testing.T,
	nodeID ids.NodeID,
	db database.Database,
	validatorNodes []*Node[dsmrtest.Tx],
	lastAccepted Block,
	served *atomic.Int32,
) *Node[dsmrtest.Tx] {
	r := require.New(t)

	vdrs := make([]Validator, 0, len(validatorNodes))
	peers := make(map[ids.NodeID]p2p.Handler, len(validatorNodes))
	for _, n := range validatorNodes {
		vdrs = append(vdrs, Validator{NodeID: n.ID, Weight: 1, PublicKey: n.PublicKey})
		peers[n.ID] = &c35hCountingPeer{honest: n.GetChunkHandler, served: served}
	}
	chainState := newTestChainState(vdrs, 1, 1)
	verifier := NewChunkVerifier[dsmrtest.Tx](chainState, testRuleFactory)
	storage, err := NewChunkStorage[dsmrtest.Tx](verifier, db, testRuleFactory)
	r.NoError(err)

	getChunkHandler := &GetChunkHandler[dsmrtest.Tx]{storage: storage}
	node, err := New[dsmrtest.Tx](
		logging.NoLog{},
		nodeID,
		chainState,
		nil,
		nil,
		storage,
		getChunkHandler,
		p2p.NoOpHandler{},
		ChunkCertificateGossipHandler[dsmrtest.Tx]{storage: storage},
		p2ptest.NewClientWithPeers(t, context.Background(), nodeID, getChunkHandler, peers),
		p2ptest.NewClientWithPeers(t, context.Background(), nodeID, p2p.NoOpHandler{}, map[ids.NodeID]p2p.Handler{}),
		p2ptest.NewClientWithPeers(t, context.Background(), nodeID, p2p.NoOpHandler{}, map[ids.NodeID]p2p.Handler{}),
		lastAccepted,
		&validitywindowtest.MockTimeValidityWindow[*emapChunkCertificate]{},
		testRuleFactory,
	)
	r.NoError(err)
	return node
}

func c35hAcceptWithTimeout(t *testing.T, n *Node[dsmrtest.Tx], blk Block, timeout time.Duration) (ExecutedBlock[dsmrtest.Tx], bool, error) {
	type result struct {
		executed ExecutedBlock[dsmrtest.Tx]
		err      error
	}
	done := make(chan result, 1)
	go func() {
		executed, err := n.Accept(context.Background(), blk)
		done <- result{executed, err}
	}()
	select {
	case res := <-done:
		return res.executed, true, res.err
	case <-time.After(timeout):
		return ExecutedBlock[dsmrtest.Tx]{}, false, nil
	}
}

// Two followers (non validators that hold no chunks and fetch every referenced
// chunk from the validators) accept the same chain block1 <- block2 <- block3.
// Follower A runs without interruption. Follower B is restarted (new verifier +
// storage re-opened on the same database + new Node) between block2 and block3.
//
// Both must accept block3 with exactly the referenced chunk: every peer is
// honest and serves the valid chunk. A does. B never returns from Accept:
// NewChunkStorage restores minimumExpiry from the database but the chunk
// verifier's `min` restarts at 0, so VerifyRemoteChunk rejects the (valid)
// fetched chunk as "too far in the future" (expiry > 0 + validity window) and
// Accept re-requests it forever.
func TestC35h_Accept_FetchAfterRestart(t *testing.T) {
	r := require.New(t)
	ctx := context.Background()

	window := testRuleFactory.rules.validityWindow // 5e9

	validators := newTestNodes(t, 2) // all accepted block1 (timestamp 1)
	producer := validators[0]
	block1 := producer.LastAccepted

	buildAndAccept := func(expiry int64, timestamp int64) Block {
		r.NoError(producer.BuildChunk(ctx, []dsmrtest.Tx{{ID: ids.GenerateTestID(), Expiry: expiry}}, expiry, codec.Address{1}))
		blk, err := producer.BuildBlock(ctx, producer.LastAccepted, timestamp)
		r.NoError(err)
		r.Len(blk.ChunkCerts, 1)
		for _, n := range validators {
			r.NoError(n.Verify(ctx, n.LastAccepted, blk))
			_, err := n.Accept(ctx, blk)
			r.NoError(err)
		}
		return blk
	}

	// block2: timestamp 3e9, chunk expiry 4e9 (<= 1 + window)
	block2 := buildAndAccept(block1.Timestamp+window-1_000_000_000, 3_000_000_000)
	// block3: timestamp 3e9+1, chunk expiry 7e9 (<= 3e9 + window, signed by every validator)
	block3 := buildAndAccept(block2.Timestamp+window-1_000_000_000, block2.Timestamp+1)
	r.Greater(block3.ChunkCerts[0].Expiry, window)

	servedA, servedB := &atomic.Int32{}, &atomic.Int32{}
	dbA, dbB := memdb.New(), memdb.New()
	idA, idB := ids.GenerateTestNodeID(), ids.GenerateTestNodeID()

	followerA := c35hStartFollower(t, idA, dbA, validators, block1, servedA)
	followerB := c35hStartFollower(t, idB, dbB, validators, block1, servedB)
	for _, f := range []*Node[dsmrtest.Tx]{followerA, followerB} {
		r.NoError(f.Verify(ctx, f.LastAccepted, block2))
		executed, returned, err := c35hAcceptWithTimeout(t, f, block2, 30*time.Second)
		r.True(returned)
		r.NoError(err)
		r.Len(executed.Chunks, 1)
		r.Equal(block2.ChunkCerts[0].ChunkID, executed.Chunks[0].id)
	}

	// restart follower B
	followerB = c35hStartFollower(t, idB, dbB, validators, block2, servedB)
	r.Equal(block2.Timestamp, followerB.storage.minimumExpiry, "the storage restored its minimum from the database")

	// control: follower A (not restarted) accepts block3 through the fetch path
	r.NoError(followerA.Verify(ctx, followerA.LastAccepted, block3))
	executed, returned, err := c35hAcceptWithTimeout(t, followerA, block3, 30*time.Second)
	r.True(returned)
	r.NoError(err)
	r.Len(executed.Chunks, 1)
	r.Equal(block3.ChunkCerts[0].ChunkID, executed.Chunks[0].id)

	// follower B (restarted) must do the same
	servedB.Store(0)
	r.NoError(followerB.Verify(ctx, followerB.LastAccepted, block3))
	executed, returned, err = c35hAcceptWithTimeout(t, followerB, block3, 5*time.Second)
	r.True(returned, "Accept did not return within 5s although honest peers served the referenced valid chunk %d times", servedB.Load())
	r.NoError(err)
	r.Len(executed.Chunks, 1)
	r.Equal(block3.ChunkCerts[0].ChunkID, executed.Chunks[0].id)
}
