// Copyright (C) 2024, Ava Labs, Inc. All rights reserved.
// See the file LICENSE for licensing terms.

package dsmr

import (
	"context"
	"fmt"
	"runtime/debug"
	"testing"
	"time"

	"github.com/ava-labs/avalanchego/database/memdb"
	"github.com/ava-labs/avalanchego/ids"
	"github.com/ava-labs/avalanchego/network/p2p"
	"github.com/ava-labs/avalanchego/network/p2p/acp118"
	"github.com/ava-labs/avalanchego/network/p2p/p2ptest"
	"github.com/ava-labs/avalanchego/proto/pb/sdk"
	"github.com/ava-labs/avalanchego/snow/engine/enginetest"
	"github.com/ava-labs/avalanchego/utils/crypto/bls/signer/localsigner"
	"github.com/ava-labs/avalanchego/utils/logging"
	"github.com/ava-labs/avalanchego/utils/set"
	"github.com/ava-labs/avalanchego/utils/wrappers"
	"github.com/ava-labs/avalanchego/vms/platformvm/warp"
	"github.com/prometheus/client_golang/prometheus"
	"github.com/stretchr/testify/require"
	"google.golang.org/protobuf/proto"

	"github.com/ava-labs/hypersdk/codec"
	"github.com/ava-labs/hypersdk/internal/validitywindow/validitywindowtest"
	"github.com/ava-labs/hypersdk/x/dsmr/dsmrtest"
)

// History (all peers are HONEST):
//  1. validators node1/node2 certify chunk C1 and accept a block referencing it
//  2. a third node (empty storage) accepts the same block: C1 is not local, so
//     Accept sends GetChunk(C1) to a validator
//  3. while that request is in flight, a (late / repeated) chunk signature
//     request for C1 reaches the third node; its real handler stores C1 as a
//     pending chunk WITHOUT certificate (StoredChunkSignature.Cert == nil)
//  4. the honest GetChunk response carrying C1 arrives
//
// Accept must finish with exactly [C1]. Instead ChunkStorage.VerifyRemoteChunk
// finds C1 in pendingChunkMap and evaluates chunkCertInfo.Cert.Signature with a
// nil Cert: nil pointer dereference inside the p2p response callback (this
// crashes the node; here the panic is recovered by the test's own transport so
// that the test fails cleanly).
func TestC35h_Accept_FetchedChunkAlreadyPendingWithoutCert(t *testing.T) {
	r := require.New(t)
	ctx := context.Background()

	nodes := newTestNodes(t, 2)
	node1 := nodes[0]
	parent := node1.LastAccepted

	r.NoError(node1.BuildChunk(ctx, []dsmrtest.Tx{{ID: ids.GenerateTestID(), Expiry: 123}}, 123, codec.Address{1}))
	blk, err := node1.BuildBlock(ctx, parent, parent.Timestamp+1)
	r.NoError(err)
	r.Len(blk.ChunkCerts, 1)
	c1 := blk.ChunkCerts[0]
	for _, n := range nodes {
		r.NoError(n.Verify(ctx, n.LastAccepted, blk))
		_, err := n.Accept(ctx, blk)
		r.NoError(err)
	}

	// --- the third node: real storage / verifier / handlers / Node ---
	vdrs := make([]Validator, 0, len(nodes))
	for _, n := range nodes {
		vdrs = append(vdrs, Validator{NodeID: n.ID, Weight: 1, PublicKey: n.PublicKey})
	}
	chainState := newTestChainState(vdrs, 1, 1)
	verifier := NewChunkVerifier[dsmrtest.Tx](chainState, testRuleFactory)
	storage, err := NewChunkStorage[dsmrtest.Tx](verifier, memdb.New(), testRuleFactory)
	r.NoError(err)
	nodeID := ids.GenerateTestNodeID()
	sk, err := localsigner.New()
	r.NoError(err)
	signer := warp.NewSigner(sk, networkID, chainID)
	getChunkHandler := &GetChunkHandler[dsmrtest.Tx]{storage: storage}
	chunkSignatureRequestHandler := acp118.NewHandler(ChunkSignatureRequestVerifier[dsmrtest.Tx]{
		verifier: verifier,
		storage:  storage,
	}, signer)

	// --- transport of the third node's GetChunk client ---
	// Same as p2ptest.NewClientWithPeers, except that
	//  * before a GetChunk request is handed to the (real, honest) peer handler, the
	//    chunk signature request for the same chunk is delivered to the third node
	//    (step 3 above), and
	//  * a panic while delivering the response is recovered and reported.
	sender := &enginetest.Sender{}
	network, err := p2p.NewNetwork(logging.NoLog{}, sender, prometheus.NewRegistry(), "")
	r.NoError(err)
	peerHandlers := map[ids.NodeID]p2p.Handler{nodeID: getChunkHandler}
	r.NoError(network.Connected(ctx, nodeID, nil))
	for _, n := range nodes {
		peerHandlers[n.ID] = n.GetChunkHandler
		r.NoError(network.Connected(ctx, n.ID, nil))
	}
	panics := make(chan string, 16)
	transportErrs := make(chan error, 16)

	c1Bytes, err := node1.storage.GetChunkBytes(c1.Expiry, c1.ChunkID)
	r.NoError(err)
	packer := wrappers.Packer{MaxSize: MaxMessageSize}
	r.NoError(codec.LinearCodec.MarshalInto(c1.ChunkReference, &packer))
	msg, err := warp.NewUnsignedMessage(networkID, chainID, packer.Bytes)
	r.NoError(err)
	sigRequestBytes, err := proto.Marshal(&sdk.SignatureRequest{Message: msg.Bytes(), Justification: c1Bytes})
	r.NoError(err)

	sender.SendAppRequestF = func(ctx context.Context, nodeIDs set.Set[ids.NodeID], requestID uint32, requestBytes []byte) error {
		for peerID := range nodeIDs {
			handler, ok := peerHandlers[peerID]
			if !ok {
				return fmt.Errorf("%s is not connected", peerID)
			}
			go func() {
				defer func() {
					if p := recover(); p != nil {
						panics <- fmt.Sprintf("%v\n%s", p, debug.Stack())
					}
				}()
				// step 3: the chunk signature request for C1 is handled by the third node
				if _, appErr := chunkSignatureRequestHandler.AppRequest(ctx, node1.ID, time.Time{}, sigRequestBytes); appErr != nil {
					transportErrs <- fmt.Errorf("chunk signature request refused: %w", appErr)
				}
				// step 4: the honest peer answers the GetChunk request
				_, payload, ok := p2p.ParseMessage(requestBytes) // strip the handler prefix
				if !ok {
					transportErrs <- fmt.Errorf("unparsable request")
					return
				}
				responseBytes, appErr := handler.AppRequest(ctx, nodeID, time.Time{}, payload)
				if appErr != nil {
					if err := network.AppRequestFailed(ctx, peerID, requestID, appErr); err != nil {
						transportErrs <- err
					}
					return
				}
				if err := network.AppResponse(ctx, peerID, requestID, responseBytes); err != nil {
					transportErrs <- err
				}
			}()
		}
		return nil
	}

	syncing, err := New[dsmrtest.Tx](
		logging.NoLog{},
		nodeID,
		chainState,
		sk.PublicKey(),
		signer,
		storage,
		getChunkHandler,
		chunkSignatureRequestHandler,
		ChunkCertificateGossipHandler[dsmrtest.Tx]{storage: storage},
		network.NewClient(0),
		p2ptest.NewClientWithPeers(t, ctx, nodeID, p2p.NoOpHandler{}, map[ids.NodeID]p2p.Handler{}),
		p2ptest.NewClientWithPeers(t, ctx, nodeID, p2p.NoOpHandler{}, map[ids.NodeID]p2p.Handler{}),
		parent,
		&validitywindowtest.MockTimeValidityWindow[*emapChunkCertificate]{},
		testRuleFactory,
	)
	r.NoError(err)
	r.NoError(syncing.Verify(ctx, syncing.LastAccepted, blk))

	type result struct {
		executed ExecutedBlock[dsmrtest.Tx]
		err      error
	}
	done := make(chan result, 1)
	go func() {
		executed, err := syncing.Accept(ctx, blk)
		done <- result{executed, err}
	}()
	var res result
	select {
	case res = <-done:
	case <-time.After(30 * time.Second):
		r.FailNow("Accept did not return")
	}
	gotIDs := make([]ids.ID, 0, len(res.executed.Chunks))
	for _, c := range res.executed.Chunks {
		gotIDs = append(gotIDs, c.id)
	}
	t.Logf("Accept err: %v; executed chunk ids: %v; referenced chunk id: %s", res.err, gotIDs, c1.ChunkID)

	// Note: the panic unwinds through Accept's `defer close(result)`, so with the
	// panic recovered by the transport above Accept itself carries on (and
	// "succeeds" with zero chunks); in a real node the process dies instead.
	wait := 10 * time.Millisecond
	if res.err != nil || len(gotIDs) != 1 {
		wait = 5 * time.Second
	}
	select {
	case p := <-panics:
		r.FailNow("panic while handling the honest GetChunk response", "%s", p)
	case err := <-transportErrs:
		r.FailNow("unexpected transport error", "%v", err)
	case <-time.After(wait):
	}

	r.NoError(res.err)
	r.Equal([]ids.ID{c1.ChunkID}, gotIDs)
}
