// Copyright (C) 2024, Ava Labs, Inc. All rights reserved.
// See the file LICENSE for licensing terms.

package dsmr

import (
	"testing"

	"github.com/ava-labs/avalanchego/database/memdb"
	"github.com/ava-labs/avalanchego/ids"
	"github.com/ava-labs/avalanchego/utils/crypto/bls/signer/localsigner"
	"github.com/ava-labs/avalanchego/vms/platformvm/warp"
	"github.com/stretchr/testify/require"

	"github.com/ava-labs/hypersdk/codec"
	"github.com/ava-labs/hypersdk/x/dsmr/dsmrtest"
)

// The minimum expiry is persisted by ChunkStorage.SetMin and restored by
// NewChunkStorage, but it is only pushed into the chunk verifier from SetMin.
// After a restart (new process => fresh ChunkVerifier, exactly as node_test.go
// wires it) the storage says min == M while the verifier it uses for
// VerifyRemoteChunk still says min == 0, until the next block is accepted.
func TestC36VerifierMinNotRestoredOnReopen(t *testing.T) {
	require := require.New(t)

	sk, err := localsigner.New()
	require.NoError(err)
	producer := ids.GenerateTestNodeID()
	chainState := newTestChainState([]Validator{{NodeID: producer, Weight: 1, PublicKey: sk.PublicKey()}}, 1, 1)
	signer := warp.NewSigner(sk, networkID, chainID)
	window := testRuleFactory.GetRules(0).GetValidityWindow()

	mkChunk := func(expiry int64) Chunk[dsmrtest.Tx] {
		chunk, err := signChunk[dsmrtest.Tx](
			UnsignedChunk[dsmrtest.Tx]{
				Producer:    producer,
				Beneficiary: codec.Address{},
				Expiry:      expiry,
				Txs:         []dsmrtest.Tx{{ID: ids.GenerateTestID(), Expiry: 1_000_000}},
			},
			networkID,
			chainID,
			sk.PublicKey(),
			signer,
		)
		require.NoError(err)
		return chunk
	}

	db := memdb.New()
	open := func() *ChunkStorage[dsmrtest.Tx] {
		// a restarted process builds a fresh verifier, see newTestNodes
		verifier := NewChunkVerifier[dsmrtest.Tx](chainState, testRuleFactory)
		storage, err := NewChunkStorage[dsmrtest.Tx](verifier, db, testRuleFactory)
		require.NoError(err)
		return storage
	}

	// scenario 1: the persisted minimum is far above the validity window (the
	// normal case, timestamps are wall-clock based). After the restart every
	// chunk that is valid w.r.t. the persisted minimum is refused as "too far
	// in the future" because the verifier measures from 0.
	{
		minimum := 10 * window
		storage := open()
		require.NoError(storage.SetMin(minimum, nil))

		_, err = storage.VerifyRemoteChunk(mkChunk(minimum + window))
		require.NoError(err) // accepted before the restart

		storage = open()
		require.Equal(minimum, storage.minimumExpiry)
		if _, err := storage.VerifyRemoteChunk(mkChunk(minimum + window)); err != nil {
			t.Errorf("a chunk inside the validity window of the persisted minimum (%d) is refused after the restart: %v", minimum, err)
		}
	}

	// scenario 2: the persisted minimum is below the validity window. After the
	// restart a chunk whose expiry is below the persisted minimum is accepted
	// and persisted as pending.
	{
		db = memdb.New()
		minimum := window / 2
		storage := open()
		require.NoError(storage.SetMin(minimum, nil))

		expired := mkChunk(minimum - 1)
		_, err = storage.VerifyRemoteChunk(expired)
		require.Error(err) // refused before the restart

		storage = open()
		require.Equal(minimum, storage.minimumExpiry)
		if _, err := storage.VerifyRemoteChunk(expired); err == nil {
			t.Errorf("a chunk below the persisted minimum expiry (%d < %d) is accepted and stored as pending after the restart", expired.Expiry, minimum)
		}
	}
}
