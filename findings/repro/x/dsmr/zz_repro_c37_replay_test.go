// Copyright (C) 2024, Ava Labs, Inc. All rights reserved.
// See the file LICENSE for licensing terms.

package dsmr

import (
	"context"
	"testing"

	"github.com/ava-labs/avalanchego/ids"
	"github.com/ava-labs/avalanchego/trace"
	"github.com/ava-labs/avalanchego/utils/crypto/bls"
	"github.com/ava-labs/avalanchego/utils/logging"
	"github.com/ava-labs/avalanchego/utils/wrappers"
	"github.com/ava-labs/avalanchego/vms/platformvm/warp"
	"github.com/stretchr/testify/require"

	"github.com/ava-labs/hypersdk/codec"
	"github.com/ava-labs/hypersdk/consts"
	"github.com/ava-labs/hypersdk/internal/validitywindow"
	"github.com/ava-labs/hypersdk/internal/validitywindow/validitywindowtest"
	"github.com/ava-labs/hypersdk/utils"
	"github.com/ava-labs/hypersdk/x/dsmr/dsmrtest"
)

// c37Harness wires a test node to the REAL validitywindow.TimeValidityWindow
// (the stock dsmr tests only ever use the mock) and keeps a chain index of every block
// handed to it.
type c37Harness struct {
	t     *testing.T
	node  *Node[dsmrtest.Tx]
	index *validitywindowtest.MockChainIndex[*emapChunkCertificate]
}

func newC37Harness(t *testing.T) *c37Harness {
	node := newTestNode(t) // single validator, quorum 1/1, already accepted block height 1 (timestamp 1)
	index := &validitywindowtest.MockChainIndex[*emapChunkCertificate]{}
	genesis := Block{}
	index.Set(genesis.GetID(), NewValidityWindowBlock(genesis))
	index.Set(node.LastAccepted.GetID(), NewValidityWindowBlock(node.LastAccepted))

	window, err := validitywindow.NewTimeValidityWindow[*emapChunkCertificate](
		context.Background(),
		logging.NoLog{},
		trace.Noop,
		index,
		NewValidityWindowBlock(node.LastAccepted),
		func(ts int64) int64 { return testRuleFactory.GetRules(ts).GetValidityWindow() },
	)
	require.NoError(t, err)
	node.validityWindow = window
	return &c37Harness{t: t, node: node, index: index}
}

// cert returns a certificate for ref carrying the signature of the (only) validator,
// i.e. a certificate that satisfies ChunkCertificate.Verify.
func (h *c37Harness) cert(ref ChunkReference) *ChunkCertificate {
	r := require.New(h.t)
	packer := wrappers.Packer{MaxSize: MaxMessageSize}
	r.NoError(codec.LinearCodec.MarshalInto(ref, &packer))
	msg, err := warp.NewUnsignedMessage(networkID, chainID, packer.Bytes)
	r.NoError(err)
	sigBytes, err := h.node.Signer.Sign(msg)
	r.NoError(err)
	sig := &warp.BitSetSignature{
		Signers:   getSignerBitSet(h.t, h.node.chainState, h.node.ID).Bytes(),
		Signature: [bls.SignatureLen]byte{},
	}
	copy(sig.Signature[:], sigBytes)
	c := &ChunkCertificate{ChunkReference: ref, Signature: sig}
	r.NoError(c.Verify(context.Background(), h.node.chainState))
	return c
}

func (h *c37Harness) block(parent Block, timestamp int64, certs ...*ChunkCertificate) Block {
	blk := Block{
		BlockHeader: BlockHeader{
			ParentID:  parent.GetID(),
			Height:    parent.Height + 1,
			Timestamp: timestamp,
		},
		ChunkCerts: certs,
	}
	packer := wrappers.Packer{Bytes: make([]byte, 0, InitialChunkSize), MaxSize: consts.NetworkSizeLimit}
	require.NoError(h.t, codec.LinearCodec.MarshalInto(blk, &packer))
	blk.blkBytes = packer.Bytes
	blk.blkID = utils.ToID(blk.blkBytes)
	h.index.Set(blk.GetID(), NewValidityWindowBlock(blk))
	return blk
}

// Control (passes): with honest expiries (<= last accepted timestamp + window) duplicates
// inside a block, in a processing ancestor and in an accepted ancestor are rejected by the
// real validity window, and re-use after the window is rejected as expired.
func TestC37_Control_HonestExpiryRejected(t *testing.T) {
	r := require.New(t)
	h := newC37Harness(t)
	ctx := context.Background()
	window := testRuleFactory.GetRules(0).GetValidityWindow()
	// every derived block gets one extra, distinct certificate: Block bytes/IDs only
	// cover the certificates, so blocks with equal certificate lists share one ID
	fresh := func() *ChunkCertificate {
		return h.cert(ChunkReference{ChunkID: ids.GenerateTestID(), Producer: h.node.ID, Expiry: 3 * window})
	}

	r.NoError(h.node.BuildChunk(ctx, []dsmrtest.Tx{{ID: ids.GenerateTestID(), Expiry: 1}}, window, codec.Address{1}))
	parent := h.node.LastAccepted
	b1, err := h.node.BuildBlock(ctx, parent, parent.Timestamp+1)
	r.NoError(err)
	h.index.Set(b1.GetID(), NewValidityWindowBlock(b1))
	r.Len(b1.ChunkCerts, 1)
	r.NoError(h.node.Verify(ctx, parent, b1))

	// same cert twice in one block
	twice := h.block(parent, parent.Timestamp+1, b1.ChunkCerts[0], b1.ChunkCerts[0])
	r.ErrorIs(h.node.Verify(ctx, parent, twice), validitywindow.ErrDuplicateContainer)

	// processing ancestor
	b2 := h.block(b1, b1.Timestamp+1, fresh(), b1.ChunkCerts[0])
	r.NotEqual(b1.GetID(), b2.GetID())
	r.ErrorIs(h.node.Verify(ctx, b1, b2), validitywindow.ErrDuplicateContainer)
	// the builder does not re-include it either
	_, err = h.node.BuildBlock(ctx, b1, b1.Timestamp+1)
	r.ErrorIs(err, ErrNoAvailableChunkCerts)

	// accepted ancestor
	_, err = h.node.Accept(ctx, b1)
	r.NoError(err)
	r.ErrorIs(h.node.Verify(ctx, b1, b2), validitywindow.ErrDuplicateContainer)
	b2Edge := h.block(b1, b1.Timestamp+window, fresh(), b1.ChunkCerts[0])
	r.ErrorIs(h.node.Verify(ctx, b1, b2Edge), validitywindow.ErrDuplicateContainer)

	// past the window the (honestly bounded) expiry has passed
	b3 := h.block(b1, b1.Timestamp+window+1, fresh(), b1.ChunkCerts[0])
	r.ErrorIs(h.node.Verify(ctx, b1, b3), ErrExpiredChunkCert)
}

// A certificate whose expiry lies more than one validity window after the block that
// first includes it can be included AGAIN by a descendant whose timestamp is more than
// one window later: the ancestor walk of the validity window stops at
// `ancestor.Timestamp < blk.Timestamp - window` without looking at the accepted set, and
// Node.Verify puts no upper bound (block.Timestamp + window) on a certificate's expiry.
func TestC37_ReincludedAfterWindow_AcceptedAncestor(t *testing.T) {
	r := require.New(t)
	h := newC37Harness(t)
	ctx := context.Background()
	window := testRuleFactory.GetRules(0).GetValidityWindow()

	parent := h.node.LastAccepted
	t1 := parent.Timestamp + 1
	t2 := t1 + window + 1 // <= t1 + maxTimeSkew, a legal child timestamp
	r.LessOrEqual(t2, t1+maxTimeSkew.Nanoseconds())

	cert := h.cert(ChunkReference{
		ChunkID:  ids.GenerateTestID(),
		Producer: h.node.ID,
		Expiry:   t2 + 10, // still unexpired at t2
	})

	b1 := h.block(parent, t1, cert)
	if err := h.node.Verify(ctx, parent, b1); err != nil {
		// refusing the first inclusion (expiry beyond timestamp+window) is a valid way to keep the property
		t.Logf("first inclusion refused: %v", err)
		return
	}
	// accept B1 in the validity window (this is what Node.Accept does with it)
	h.node.validityWindow.Accept(NewValidityWindowBlock(b1))

	// B2 = child of the accepted B1, references the very same chunk again (plus a fresh
	// one: Block bytes/IDs only cover the certificates, so the extra certificate keeps
	// the two block IDs apart in the chain index).
	fresh := h.cert(ChunkReference{ChunkID: ids.GenerateTestID(), Producer: h.node.ID, Expiry: t2 + 10})
	b2 := h.block(b1, t2, cert, fresh)
	r.NotEqual(b1.GetID(), b2.GetID())
	err := h.node.Verify(ctx, b1, b2)
	r.Error(err, "block re-referencing a chunk already referenced by its accepted parent passed Node.Verify")
}

// Same history, but the first inclusion is still processing (not accepted).
func TestC37_ReincludedAfterWindow_ProcessingAncestor(t *testing.T) {
	r := require.New(t)
	h := newC37Harness(t)
	ctx := context.Background()
	window := testRuleFactory.GetRules(0).GetValidityWindow()

	parent := h.node.LastAccepted
	t1 := parent.Timestamp + 1
	t2 := t1 + window + 1

	cert := h.cert(ChunkReference{
		ChunkID:  ids.GenerateTestID(),
		Producer: h.node.ID,
		Expiry:   t2 + 10,
	})

	b1 := h.block(parent, t1, cert)
	if err := h.node.Verify(ctx, parent, b1); err != nil {
		// refusing the first inclusion (expiry beyond timestamp+window) is a valid way to keep the property
		t.Logf("first inclusion refused: %v", err)
		return
	}

	fresh := h.cert(ChunkReference{ChunkID: ids.GenerateTestID(), Producer: h.node.ID, Expiry: t2 + 10})
	b2 := h.block(b1, t2, cert, fresh)
	r.NotEqual(b1.GetID(), b2.GetID())
	err := h.node.Verify(ctx, b1, b2)
	r.Error(err, "block re-referencing a chunk already referenced by its processing parent passed Node.Verify")
}

// The builder half of the property: an honest builder that holds such a certificate
// (certificates reach it over ChunkCertificateGossipHandler, which only checks the
// aggregate signature) builds a child that references the chunk its parent already references.
func TestC37_BuilderReincludesAfterWindow(t *testing.T) {
	r := require.New(t)
	h := newC37Harness(t)
	ctx := context.Background()
	window := testRuleFactory.GetRules(0).GetValidityWindow()

	parent := h.node.LastAccepted
	t1 := parent.Timestamp + 1
	t2 := t1 + window + 1

	// an ordinary chunk with an honest expiry...
	r.NoError(h.node.BuildChunk(ctx, []dsmrtest.Tx{{ID: ids.GenerateTestID(), Expiry: 1}}, window, codec.Address{1}))
	certs := h.node.storage.GatherChunkCerts()
	r.Len(certs, 1)
	chunkID := certs[0].ChunkID

	// ...for which a quorum-signed certificate with a later expiry is gossiped
	lateCert := h.cert(ChunkReference{ChunkID: chunkID, Producer: h.node.ID, Expiry: t2 + 10})
	r.NoError(h.node.storage.SetChunkCert(ctx, chunkID, lateCert))

	b1, err := h.node.BuildBlock(ctx, parent, t1)
	if err != nil {
		// not including a certificate whose expiry is beyond timestamp+window keeps the property
		r.ErrorIs(err, ErrNoAvailableChunkCerts)
		return
	}
	r.Len(b1.ChunkCerts, 1)
	r.Equal(chunkID, b1.ChunkCerts[0].ChunkID)
	h.index.Set(b1.GetID(), NewValidityWindowBlock(b1))
	r.NoError(h.node.Verify(ctx, parent, b1))

	// B1 is processing; the builder is asked for its child
	b2, err := h.node.BuildBlock(ctx, b1, t2)
	if err == nil {
		for _, c := range b2.ChunkCerts {
			r.NotEqual(chunkID, c.ChunkID, "builder produced a child (ts %d) that references chunk %s again; parent (ts %d) already references it", t2, chunkID, t1)
		}
	} else {
		r.ErrorIs(err, ErrNoAvailableChunkCerts)
	}
}
